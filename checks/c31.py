"""C31 — module path normalisation: Lean theorems (C31_denote, C31_same_only, C31_idem, ...) on a transcription of
cheap_canonicalize_path, tied to the Rust code by correspondence on component strings (exhaustive in the thorough tier)."""
from vlib import core

MANIFEST_ENTRY = {
    "level_claimed": {"category": "proof",
        "text": "Lean theorems for every component list: normalisation preserves the denoted file (including the number of leading `..`), "
                "equal normal forms imply equal files, idempotence, and canonicity; the model transcribes cheap_canonicalize_path and is tied "
                "to the Rust code by correspondence on component strings (exhaustive to length 8 in the thorough tier)."},
    "level_note": "trusted: Lean kernel + {propext, Quot.sound}; Path::components is modelled (validated on every case); symlinks, Windows "
                  "prefixes and names containing a backslash are outside the model; the transcription is checked by differential runs, not verified.",
    "technique": "Lean 4 proof (induction over component lists, simulation between path buffer and denotation) + differential correspondence",
}


def nontrivial(row):
    # a path is non-trivial when it has a parent-directory component and at least one named component
    return " parent" in row[2] and '"' in row[2].split("(norm")[0]


def run(ctx):
    ctx.cov["rule"] = ("component strings of length 0..8 over {., .., a, b} plus odd names, relative and absolute, repeated and "
                       "trailing separators (thorough: additionally all 2*sum(4^k, k<=8) strings exhaustively); distinct by input "
                       "string; non-trivial = has a `..` and a named component")
    ctx.assumptions = ["Unix path syntax (no prefixes), CASE_SENSITIVE=true, no backslash in names (normalize_path is the identity)",
                       "symlink-free directory semantics is the specification of 'refers to the same file'"]
    core.standard_check(ctx, harness_bin="c31", n_quick=5000, n_thorough=20000, nontrivial=nontrivial,
                        trusted=["Lean model of std::path::Path::components (validated on every case: comps column)"])


def replay(ctx, path):
    core.standard_replay(ctx, path, "c31")
