"""C17 — transpiled Python behaves like the compiled bytecode.
(i) literals: Lean theorems C17_str / C17_nat on a transcription of escape_str/transpile_lit, tied by correspondence on the real
    HIR (harness c17) with a Lean specification of Python literal lexing as validator of the emitted text;
(ii) behaviour: every generated literal program and every examples/ + tests/should_ok program the transpiler accepts is
    transpiled with the real CLI, compiled under the target interpreter, run, and compared (stdout + exit status) with `erg run`."""
import glob
import os
import shutil
import tempfile

from vlib import core

MANIFEST_ENTRY = {
    "level_claimed": {"category": "proof",
        "text": "Lean theorem C17_str: for every string content (all Unicode scalars incl. quotes, backslashes, NUL followed by digits, "
                "CR, tabs) the literal written by the transcribed escape_str/transpile_lit is a Python short string literal denoting "
                "exactly that content (Python's literal lexing is specified in Lean); C17_nat: Nat literals are written as decimal "
                "literals Python accepts with the same value; the transcription is tied to the Rust code on HIRs built by the real "
                "front end. Whole-script behaviour (part ii) is NOT proved: it is checked differentially (transpile, compile, run under "
                "the target interpreter, compare stdout and exit status with the compiled bytecode) on generated literal programs, on "
                "programs of the checked fragment (vlib/fraggen.py, with an independent Python reading as oracle) and on every "
                "examples/ and tests/should_ok program the transpiler accepts."},
    "level_note": "partial: the theorem covers string/Nat/Int literals only; semantic preservation of PyScriptGenerator on the fragment "
                  "(C17_sem of DESIGN section 8) is not proved — no Lean transcription of the script generator beyond literals exists; "
                  "operators, calls, control flow, definitions, name mangling, classes and imports are exercised only by the behavioural "
                  "tie; the Lean specification of Python string-literal lexing is trusted and validated by running the real interpreter "
                  "on every generated literal; trusted: Lean kernel + {propext, Quot.sound, Classical.choice}.",
    "technique": "Lean 4 proof (string-literal round trip through a specification of Python's lexer) + differential correspondence + "
                 "behavioural differential testing against erg run",
}

PY = core.PYTHONS["3.11"]

# known behavioural differences between the transpiled script and the bytecode on corpus programs (recorded, not fixed);
# id (known_findings.json) -> {corpus file (relative to the repository): recorded outcome ':' exception class of the script}
# a program counts as known only with exactly this outcome and signature (structural feature = the program, failure signature = the class)
BEHAVIOUR_FINDINGS = {
    'C17-stmt-in-expr-position': {'examples/record.er': 'invalid-python:SyntaxError', 'examples/with.er': 'invalid-python:SyntaxError', 'tests/should_ok/coercion.er': 'invalid-python:SyntaxError', 'tests/should_ok/mut_dict.er': 'invalid-python:SyntaxError', 'tests/should_ok/assert_cast.er': 'invalid-python:SyntaxError', 'tests/should_ok/return.er': 'invalid-python:SyntaxError'},
    'C17-attr-assign-wrapped': {'examples/a11y.er': 'invalid-python:SyntaxError', 'tests/should_ok/class_attr.er': 'invalid-python:SyntaxError'},
    'C17-class-and-trait': {'examples/impl.er': 'differs:AttributeError', 'examples/structural.er': 'differs:AttributeError', 'examples/trait.er': 'differs:NameError', 'tests/should_ok/structural.er': 'differs:NameError'},
    'C17-name-mangling': {'examples/dict.er': 'differs:NameError', 'examples/quantified.er': 'differs:NameError', 'examples/iterator.er': 'differs:NameError', 'examples/patch.er': 'differs:NameError', 'tests/should_ok/comment.er': 'differs:NameError', 'tests/should_ok/sym_op.er': 'differs:NameError'},
    'C17-call-arguments': {'tests/should_ok/args_expansion.er': 'differs:TypeError', 'tests/should_ok/var_args.er': 'differs:TypeError', 'tests/should_ok/var_kwargs.er': 'differs:TypeError', 'tests/should_ok/default_param.er': 'differs:TypeError'},
    'C17-type-objects': {'tests/should_ok/dyn_type_check.er': 'differs:AssertionError', 'tests/should_ok/map.er': 'differs:TypeError'},
}


def nontrivial(row):
    # a literal is non-trivial when it needs an escape or a respelling
    return "\\\\" in row[1] or "_" in row[1] or "0x" in row[1] or "(lit NatLit \"0" in row[1]


def run_cmd(cmd, cwd, env, timeout=240):
    rc, out, err = core.sh(cmd, cwd=cwd, env=env, timeout=timeout, input="")
    return rc, out, err


def classify_transpile(rc, out, err):
    txt = out + err
    if "not yet implemented" in txt or "not implemented" in txt or "todo" in txt.lower() and "panicked" in txt:
        return "declined"
    if "panicked" in txt:
        return "crash"
    if rc != 0:
        return "rejected"
    return "ok"


def erg_str_lit(content):
    o = ['"']
    for c in content:
        n = ord(c)
        if c == '"':
            o.append('\\"')
        elif c == "\\":
            o.append("\\\\")
        elif c == "\n":
            o.append("\\n")
        elif c == "\r":
            o.append("\\r")
        elif c == "\0":
            o.append("\\0")
        elif n < 32 and c != "\t":
            o.append("\\x%02x" % n)
        else:
            o.append(c)
    o.append('"')
    return "".join(o)


STR_POOL = ["a", "b", " ", '"', "\\", "{", "}", "\n", "\r", "\0", "\x01", "\x1f", "\x7f", "\xff", "\xe9", "\u3042", "\U0001F600", "'", "\t",
            "/", "\u2028", "\ufeff", "0", "1", "7", "n", "x", "\\n", '""', "%s", "#", "\x0c", "\x85"]


def literal_programs(seed, n):
    from vlib.fraggen import Rng
    rng = Rng(seed * 7919 + 17)
    progs = []
    for i in range(n):
        lines = []
        for _ in range(1 + rng.below(5)):
            k = rng.below(10)
            if k == 0:
                lines.append("print! %s" % rng.pick(["007", "0_7", "1_000", "0x10", "0b11", "0o17", "00", "18446744073709551615"]))
            elif k == 1:
                lines.append("print! %s" % rng.pick(["1.", "1e+3", "0.5", "2.5e-3", "1_0.2_5", "100000000000000000000.0", "-0.5"]))
            else:
                ln = rng.pick([0, 1, 1, 2, 3, 5, 12])
                s = "".join(rng.pick(STR_POOL) for _ in range(ln))
                form = rng.below(4)
                if form == 0:
                    lines.append("print! %s.encode()" % erg_str_lit(s))
                elif form == 1:
                    lines.append("print! len(%s)" % erg_str_lit(s))
                elif form == 2:
                    lines.append("s%d = %s\nprint! s%d.encode(), s%d == %s" % (len(lines), erg_str_lit(s), len(lines), len(lines), erg_str_lit(s)))
                else:
                    lines.append("print! [%s, %s]" % (erg_str_lit(s), erg_str_lit(s + "x")))
        progs.append(("gen-lit-%d" % i, "\n".join(lines) + "\n"))
    return progs


FIXED_PROGRAMS = [
    ("w16-quote", 'print! "a\\"b"\n'),
    ("w16-backslash", 'print! "c\\\\d", "a\\\\nb"\n'),
    ("w25-nul-digit", 'print! "a\\01b".encode()\n'),
    ("w-leading-zero", "print! 007\n"),
    ("w-braces", 'print! "{}", "{0}", "%s"\n'),
    ("w-cr-tab", 'print! "a\\rb\tc".encode()\n'),
    ("w-astral", 'print! "😀\\xff\u2028".encode()\n'),
    ("w-multiline", 'print! """a"b\nc\\\\d"""\n'),
    ("w-exit-status", 'print! "before"\nassert 1 == 2\nprint! "after"\n'),
    ("w-exit-code", 'print! "x"\nexit 3\n'),
    ("w-if-precedence", 'v: Int = 10\nprint!((2 * if(v > 30, do(4), do(v))), (1 + if(v > 30, do(4), do(v))))\n'),
    ("w-range-first", 'for! 2..<3, i1 =>\n    print!(True)\n    print!(i1)\nprint! 1.5\n'),
]


def fragment_programs(seed, n):
    """programs of the checked fragment (vlib/fraggen.py: literals, operators, calls, print!, definitions, lambdas, if/for/while
    through the prelude functions, lists, string contents from the hard pool) with their independent Python reading"""
    from vlib import fraggen
    progs = []
    for i in range(n):
        g = fraggen.Gen(fraggen.Rng(seed * 100003 + i), hard_strings=True)
        p = g.program()
        progs.append(("frag-%d" % i, fraggen.to_erg(p), None, fraggen.to_python(p)))
    return progs


def corpus_programs(repo, tier, seed):
    fs = sorted(glob.glob(os.path.join(repo, "examples", "*.er")) + glob.glob(os.path.join(repo, "tests", "should_ok", "*.er")))
    if tier != "thorough":
        from vlib.fraggen import Rng
        rng = Rng(seed + 99)
        picked = set()
        while len(picked) < min(24, len(fs)):
            picked.add(fs[rng.below(len(fs))])
        fs = sorted(picked)
    return fs


NONDETERMINISTIC = ("random", "time", "datetime", "input!", "urllib", "socket", "subprocess", "http", "tqdm", "requests", "glob", "os.")


def one_program(erg, env, work, name, src, path, oracle=None):
    """returns (outcome, details); outcome in same / declined / rejected / skipped / invalid-python / differs"""
    d = os.path.join(work, name.replace("/", "_").replace(".", "_"))
    os.makedirs(d, exist_ok=True)
    if path:
        # keep sibling files importable: copy the directory's .er files (examples import each other)
        for g in glob.glob(os.path.join(os.path.dirname(path), "*.er")):
            shutil.copy(g, d)
        main = os.path.join(d, os.path.basename(path))
        if any(w in src for w in NONDETERMINISTIC):
            return "skipped", {}
    else:
        main = os.path.join(d, "prog.er")
        open(main, "w", encoding="utf-8", newline="").write(src)
    stem = os.path.splitext(main)[0]
    # the compiled bytecode of the program (warnings of the compiler go to the compile step, not to the program's output)
    rcb, ocb, ecb = run_cmd([erg, "--py-command", PY, "compile", main], d, env)
    if rcb != 0 or not os.path.exists(stem + ".pyc"):
        return "rejected", {}
    rc, out, err = run_cmd([erg, "--py-command", PY, "transpile", main], d, env)
    kind = classify_transpile(rc, out, err)
    if kind in ("declined", "rejected", "crash") or not os.path.exists(stem + ".py"):
        return "declined", {"transpile": kind}
    rcc, oc, ec = run_cmd([PY, "-c", "import sys; compile(open(sys.argv[1], encoding='utf-8').read(), sys.argv[1], 'exec')", stem + ".py"], d, env)
    rb, ob, eb = run_cmd([PY, stem + ".pyc"], d, env)
    rs, os_, es = run_cmd([PY, stem + ".py"], d, env)
    det = {"script_is_valid_python": rcc == 0, "compile_error": ec[-600:] if rcc != 0 else "", "script_stdout": os_[-1500:], "script_exit": rs,
           "script_stderr": es[-800:], "bytecode_stdout": ob[-1500:], "bytecode_exit": rb, "bytecode_stderr": eb[-800:]}
    if oracle is not None:
        open(stem + "_oracle.py", "w", encoding="utf-8").write(oracle)
        ro, oo, eo = run_cmd([PY, stem + "_oracle.py"], d, env)
        det.update({"oracle_stdout": oo[-1500:], "oracle_exit": ro,
                    "script_equals_oracle": (oo == os_ and (ro == 0) == (rs == 0)),
                    "bytecode_equals_oracle": (oo == ob and (ro == 0) == (rb == 0))})
    if 124 in (rcc, rb, rs):
        return "skipped", det       # a timeout under machine load is not an observation
    from vlib.fragrun import exc_class
    det["signature"] = exc_class(ec if rcc != 0 else es)
    if rcc != 0:
        return "invalid-python", det
    if os_ == ob and rs == rb:
        return "same", det
    rb2, ob2, _ = run_cmd([PY, stem + ".pyc"], d, env)
    if (rb2, ob2) != (rb, ob):
        return "skipped", det
    return "differs", det


def behavioural(ctx, bindir):
    from concurrent.futures import ThreadPoolExecutor
    ok, blog, erg = core.erg_binary()
    if not ok:
        ctx.violation({"kind": "erg-cli-build-failed", "log": blog}, no_input=True)
        return
    env = core.erg_env()
    work = tempfile.mkdtemp(prefix="c17_")
    stats = {}
    samples = []
    recorded = {f: (k, kind) for k, fl in BEHAVIOUR_FINDINGS.items() for f, kind in fl.items()}
    seen_known = {}
    try:
        progs = [(n, s, None, None) for n, s in FIXED_PROGRAMS + literal_programs(ctx.seed, 60 if ctx.tier == "thorough" else 14)]
        progs += fragment_programs(ctx.seed, 300 if ctx.tier == "thorough" else 30)
        for f in corpus_programs(core.REPO, ctx.tier, ctx.seed):
            progs.append((os.path.relpath(f, core.REPO), open(f, encoding="utf-8", errors="replace").read(), f, None))
        with ThreadPoolExecutor(max_workers=6) as ex:
            results = list(ex.map(lambda p: one_program(erg, env, work, *p), progs))
        for (name, src, path, oracle), (outcome, det) in zip(progs, results):
            stats[outcome] = stats.get(outcome, 0) + 1
            if outcome == "differs" and oracle is not None and det.get("script_equals_oracle") and not det.get("bytecode_equals_oracle"):
                # the script does what the independent Python reading of the program does; it is the *bytecode* that deviates
                # (bytecode-side findings of C01/C02/C04). Recorded class: structural = fragment program with an oracle,
                # signature = script == oracle and bytecode != oracle.
                seen_known.setdefault("C17-bytecode-deviates", []).append(name)
                stats["known-finding"] = stats.get("known-finding", 0) + 1
                continue
            if outcome in ("same",) and len(samples) < 6:
                samples.append({"program": name, "stdout": det["bytecode_stdout"][:100], "exit": det["bytecode_exit"]})
            if name in recorded:
                fid, kind = recorded[name]
                if outcome + ":" + det.get("signature", "") == kind:
                    seen_known.setdefault(fid, []).append(name)
                    stats["known-finding"] = stats.get("known-finding", 0) + 1
                    continue
                if outcome in ("same", "declined", "rejected", "skipped"):
                    continue       # the recorded difference is gone (repaired or now declined): nothing to report
            if outcome in ("invalid-python", "differs") and ctx.violations < 3:
                ctx.violation(dict(det, kind="script-differs-from-bytecode", outcome=outcome, program=name, source=src[:6000],
                                   input="(program %s)" % name,
                                   how_to_rerun="erg compile P.er; erg transpile P.er; %s P.pyc  vs  %s P.py" % (PY, PY)))
    finally:
        shutil.rmtree(work, ignore_errors=True)
    for e in ctx.known_findings():
        if e["id"] in seen_known:
            ctx.print_known(e, f"{e.get('summary', '')} [still observed on: {', '.join(sorted(seen_known[e['id']]))}]")
    ctx.cov["behavioural_programs"] = stats
    ctx.cov["behavioural_samples"] = samples


def post(ctx, rows, res, bindir):
    # T-val of the Lean specification of Python literals: the real interpreter evaluates every emitted literal
    import json as _json
    from checks.c18 import quoted_after, sexp_unquote
    items = []
    for r in rows:
        raw = quoted_after(r[2], "(line ")
        if raw is None:
            continue
        line = sexp_unquote(raw)
        if line.startswith("s = Str("):
            m = r[1].rfind("(str ")
            q = quoted_after(r[1][m:], "(str ") if m >= 0 else None
            if q is not None:
                items.append((r[0], line[len("s = Str("):-1], sexp_unquote(q)))
    script = ("import sys, json\nbad = []\nfor cid, lit, want in json.load(sys.stdin):\n"
              "    try:\n        got = eval(compile(lit, '<lit>', 'eval'))\n    except Exception as e:\n        got = repr(e)\n"
              "    if got != want:\n        bad.append([cid, lit, want, got])\nprint(json.dumps(bad))\n")
    rc, out, err = core.sh([PY, "-c", script], input=_json.dumps(items))
    try:
        bad = _json.loads(out)
    except ValueError:
        bad = [["?", "", "", err[-300:]]]
    ctx.cov["python_eval_of_emitted_string_literals"] = len(items)
    if bad:
        ctx.violation({"kind": "python-reads-other-content", "case_id": bad[0][0], "literal": bad[0][1], "content": bad[0][2],
                       "python_value": bad[0][3], "input": next((r[1] for r in rows if r[0] == bad[0][0]), ""),
                       "what": "the real interpreter evaluates the emitted literal to something else than the string's content "
                               "(or the Lean specification of Python literals, which accepted it, is wrong)"})
    behavioural(ctx, bindir)


def run(ctx):
    ctx.cov["rule"] = ("literal cases: `.s = <literal>` with string contents over a pool of quotes, backslashes, braces, NUL, C0/C1 controls, "
                       "DEL, BMP/astral, U+2028, BOM, digits after NUL; Nat literals in decimal/underscore/0x/0o/0b/leading-zero spellings; "
                       "negative Int; behavioural programs: fixed witnesses + generated print!/len/==/encode programs over the same pool + "
                       "examples/ and tests/should_ok (24 sampled in quick, all in thorough); non-trivial literal = needs an escape or a respelling")
    ctx.assumptions = ["the bytecode is run and the script is compiled/run under CPython 3.11 (core.PYTHONS['3.11'])",
                       "programs mentioning random/time/input!/network/os modules are skipped as nondeterministic; a program whose two "
                       "bytecode runs differ is skipped",
                       "declining (todo!/not implemented, or a compile error) is an outcome excluded by the property"]
    core.standard_check(ctx, harness_bin="c17", n_quick=220, n_thorough=2500, nontrivial=nontrivial, post=post,
                        trusted=["CPython 3.11 evaluating every emitted string literal (validates the Lean specification of Python literals)",
                                 "harness projection of the literal (token, value) from the real HIR",
                                 "the behavioural tie compares process stdout and exit status only"])


def replay(ctx, path):
    import json
    rp = json.load(open(path))
    if rp.get("kind") == "script-differs-from-bytecode":
        ok, blog, erg = core.erg_binary()
        env = core.erg_env()
        d = tempfile.mkdtemp(prefix="c17r_")
        main = os.path.join(d, "prog.er")
        open(main, "w", encoding="utf-8", newline="").write(rp["source"])
        run_cmd([erg, "--py-command", PY, "transpile", main], d, env)
        rs, os_, es = run_cmd([PY, os.path.join(d, "prog.py")], d, env)
        rb, ob, eb = run_cmd([erg, "--py-command", PY, "run", main], d, env)
        print("script  :", rs, repr(os_[-500:]), es[-300:])
        print("bytecode:", rb, repr(ob[-500:]))
        shutil.rmtree(d, ignore_errors=True)
        same = (rs, os_) == (rb, ob)
        print("no longer failing" if same else "still failing")
        raise SystemExit(0 if same else 1)
    core.standard_replay(ctx, path, "c17")
