"""C03 — refinement subtyping is sound for integer predicates: Lean soundness theorem for a transcription of
Context::is_super_pred_of / reduce_preds / try_cmp (all fuel, all hash-iteration orders), tied to the Rust code by correspondence
on generated predicate pairs, judged by an implication oracle proved exact in Lean; plus an end-to-end stream through the real
front end (`g(x: {I: Int | Q}): {I: Int | P} = x`)."""
import os
from vlib import core, predcheck

MANIFEST_ENTRY = {
    "level_claimed": {"category": "proof",
        "text": "Lean theorem C03_sound: for every pair of integer predicates (any depth, any integer constants, any hash-iteration "
                "order, any fuel) acceptance by the transcribed is_super_pred_of implies that every integer satisfying the supplied "
                "predicate satisfies the required one; C03_return_in_range lifts it to surface expressions through C32. The model "
                "transcribes is_super_pred_of arm by arm, reduce_preds and try_cmp on integer constants and is tied to the Rust code by "
                "correspondence on generated pairs (exhaustive over atom pairs; structured/related/interval/enum shapes; boundary "
                "constants); every accepted pair (hook and end-to-end front end) is checked against an oracle proved exact in Lean."},
    "level_note": "trusted: Lean kernel + {propext, Quot.sound, Classical.choice}; the transcription is checked by differential runs, "
                  "not verified; hash-iteration order is a model parameter (theorem: all membership-preserving orders; tie: 24 "
                  "enumerated orders); front-end glue (predicate construction from syntax, structural_supertype_of's refinement arm, "
                  "coercions) is not modelled — the e2e stream judges its verdicts by the oracle only; predicates with non-constant "
                  "right-hand sides, General*/Call/Attr are outside the model. Three defects found here were fixed in /repo "
                  "(2ac572f9, d0c08dbf, c3bde5ca); their legacy behaviour is kept as Cfg.legacy with witness theorems.",
    "technique": "Lean 4 soundness proof (induction on fuel, invariant for the reduce_preds loop under any order) + differential "
                 "correspondence + Lean-verified exact implication oracle",
}

LEGACY = os.environ.get("ERGMODEL_C03_CFG") == "legacy"


def nontrivial(row):
    # both sides carry a combinator, or the pair is accepted through a non-reflexive path
    s = row[1]
    return s.count("(") >= 5 or ("(super true)" in row[2] and s.count("(") >= 3)


def failing(r):
    return r[3].startswith("viol")


def shrink(ctx, v, bindir):
    return predcheck.shrink(ctx, v, bindir, "c03", failing)


def search_more(ctx, res, proof, bindir):
    return predcheck.search_more(ctx, bindir, "c03", {e["id"] for e in ctx.known_findings()})


def post(ctx, rows, res, bindir):
    core_rows = [r for r in rows if r[1].startswith("(pair")]
    e2e_rows = [r for r in rows if r[1].startswith("(e2e")]
    lit_rows = [r for r in e2e_rows if r[1].startswith("(e2elit")]
    acc = sum("(super true)" in r[2] for r in core_rows)
    dist = {"core_pairs": len(core_rows), "core_accepted": acc, "e2e_programs": len(e2e_rows),
            "e2e_accepted": sum("(e2e accept)" in r[2] for r in e2e_rows),
            "e2e_agree_with_hook": sum(("(e2e accept)" in r[2]) == ("(hook true)" in r[2]) for r in e2e_rows),
            "e2e_literal_ascriptions": len(lit_rows), "e2e_literal_accepted": sum("(e2e accept)" in r[2] for r in lit_rows), "e2e_outcomes": {}, "with_bare_variants": sum(("(rand " in r[1] or "(ror" in r[1] or "(rnot " in r[1]) for r in core_rows),
            "with_boundary_constants": sum(any(len(t.strip("()-")) > 3 and t.strip("()-").isdigit() for t in r[1].split(" ")) for r in core_rows),
            "arm": {}}
    for r in e2e_rows:
        k = r[2].split(") (hook")[0] + ")"
        dist["e2e_outcomes"][k] = dist["e2e_outcomes"].get(k, 0) + 1
    # which top-level arm of is_super_pred_of the pair enters (by the roots of the built structures)
    for r in core_rows:
        try:
            l = r[2].split("(lhs (")[1].split(" ")[0].rstrip(")")
            rr = r[2].split("(rhs (")[1].split(" ")[0].rstrip(")")
            k = l + "/" + rr
        except IndexError:
            k = "other"
        dist["arm"][k] = dist["arm"].get(k, 0) + 1
    # order sensitivity of the verdict and completeness (not demanded by the property; reported)
    exe = os.path.join(core.LEAN, ".lake", "build", "bin", "ergmodel_c03")
    text = "".join("\t".join(r[:3]) + "\n" for r in core_rows)
    _, out, _ = core.sh([exe, "stats"], input=text)
    st = core.parse_lines(out, 4)
    dist["order_sensitive_pairs"] = sum(s[1] == "order-sensitive" for s in st)
    dist["implied_pairs"] = sum(s[3] == "true" for s in st)
    dist["implied_but_rejected (incompleteness, allowed)"] = sum(s[3] == "true" and s[2] == "false" for s in st)
    ctx.cov["input_distribution"] = dist


def run(ctx):
    ctx.cov["rule"] = ("pairs (required P, supplied Q) of construction trees of depth 0..3 over ==,!=,<,<=,>,>= with constants -3..3 / "
                       "-1..12 / boundary pool (2^31, 2^32, 2^53±1, 2^63, 2^64-1); shapes: independent, Q derived from P (constants "
                       "nudged, conjunct/disjunct added or dropped, swapped), interval forms a..b / a<..<b, enum-like disjunctions; "
                       "1/5 with bare And/Or/Not variants; all 14x14 atom pairs exhaustively; e2e: programs "
                       "`g(x: {I: Int | Q}): {I: Int | P} = x` through HIRBuilder; distinct by input; non-trivial = combinators on "
                       "both sides or an accepted non-atomic pair")
    ctx.assumptions = ["one subject variable `I`; right-hand sides are integer constants (Nat for c>=0, Int for c<0) within [-2^31, 2^64)",
                       "builtin context `Context::default_with_name` (is_super_pred_of consults the context only for non-constant parameters)"]
    n_e2e = "1500" if ctx.tier == "thorough" else "120"
    core.standard_check(ctx, harness_bin="c03", n_quick=6000, n_thorough=150000, nontrivial=nontrivial, post=post,
                        extra_gen_args=["--e2e", n_e2e], shrink=shrink, search_more=search_more,
                        trusted=["Rust-side printer of Predicate (harness/src/predx.rs) and Lean-side reader (Util/PredIO.lean)",
                                 "erg surface syntax printer for the e2e stream (PExpr::to_erg)"])


def replay(ctx, path):
    core.standard_replay(ctx, path, "c03")
