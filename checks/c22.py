"""C22 — functions cannot perform side effects: Lean theorems (C22_full / C22_complete / C22_sound) about a transcription of
effectcheck.rs on mini-HIR, tied to the real SideEffectChecker by correspondence on generated Erg programs lowered by the
real front end, plus an end-to-end `erg check` stream."""
import re

from vlib import core
from vlib import minihir_tie as mt

MANIFEST_ENTRY = {
    "level_claimed": {"category": "proof",
        "text": "Lean theorem for every mini-HIR program without opaque nodes (any nesting depth of definitions, lambdas, records, calls, "
                "containers, default arguments, class bodies): the diagnostics of the transcribed effect checker are exactly the effect sites "
                "whose nearest enclosing subroutine/constant definition is a function (instant blocks transparent) — completeness and soundness; "
                "the transcription is tied to the real SideEffectChecker by running both on generated Erg programs lowered by the real front end."},
    "level_note": "trusted: Lean kernel + {propext, Quot.sound}; HIR->mini-HIR projection (harness/src/minihir.rs) and the transcription are "
                  "checked by differential runs only; constructor_destructor_check (needs Context) is not modelled (such programs are declined); "
                  "effects inside ReDef/Code/Compound/Dummy nodes are outside the theorem's hypothesis `plain` (the spec verdict still visits them); "
                  "the namespace test of the mutable-access clause (def_namespace != full_path) is part of the site predicate, taken as the code "
                  "computes it; type inference (is_procedure/is_mut_type of the reported types) is not modelled.",
    "technique": "Lean 4 proof (mutual structural recursion over mini-HIR; refinement of the block stack to one context bit) + differential "
                 "correspondence on generated programs + end-to-end `erg check`",
}

HARNESS = "c22"


def nontrivial(row):
    # non-trivial: the program lowered and the checker reported at least one diagnostic, or contains a procedure call nested >= 2 blocks deep
    return row[2].startswith("(errs (") or ("(call" in row[1] and "objproc" in row[1])


def post(ctx, rows, res, bindir):
    st = mt.input_stats(rows)
    ctx.cov["input_distribution"] = st
    ctx.cov["refusal_rate"] = st["refusal_rate"]
    # end-to-end: `erg check` verdict and the lines of its HasEffect diagnostics against the in-process checker
    exe = mt.erg_cli(ctx)
    if not exe:
        return
    n = 150 if ctx.tier == "thorough" else 15
    cand = [r for r in rows if r[2].startswith("(errs")]
    step = max(len(cand) // n, 1)
    picked = cand[::step][:n]
    bad = []
    agree = 0
    for r in picked:
        src = mt.src_of(r[1])
        want = sorted(int(l) for l in re.findall(r"\(\w+ (\d+) \d+\)", r[2]))
        rc, diags, tail = mt.erg_check_diags(exe, src)
        got = sorted(l for k, l in diags if k == "HasEffect")
        other = [d for d in diags if d[0] != "HasEffect"]
        if other:
            # a later pass (ownership) or a warning-as-error fired: the effect diagnostics may be cut short; only compare when effect errors exist
            if want and got != want:
                bad.append((r, rc, diags, tail))
            else:
                agree += 1
            continue
        if got != want or (rc == 0) != (not want):
            bad.append((r, rc, diags, tail))
        else:
            agree += 1
    ctx.cov["e2e_erg_check"] = {"programs": len(picked), "agree": agree, "disagree": len(bad)}
    if bad:
        r, rc, diags, tail = bad[0]
        ctx.violation({"kind": "end-to-end-disagreement", "what": "`erg check` does not report the HasEffect diagnostics of the in-process "
                       "SideEffectChecker run (or its exit status does not match)", "input": r[1], "impl": r[2], "erg_check_rc": rc,
                       "erg_check_diags": diags, "output_tail": tail})


def run(ctx):
    ctx.cov["rule"] = ("generated Erg programs: 1-3 items, each an effect atom (print!, procedure call, procedural method, mutable read, "
                       "mutable attribute, is!, or a pure control) wrapped in 0..6 (thorough 0..9) layers drawn from 24 wrappers (instant block, "
                       "inner function/procedure, function/procedure lambda, if-do, do-block argument, positional/keyword/*unpacked/**unpacked "
                       "argument, list/tuple/set/dict/record, binop, attribute receiver, default argument) inside a function / procedure / "
                       "top-level / method / lambda context; distinct by source text; non-trivial = a diagnostic or a procedure call present")
    ctx.assumptions = ["programs are lowered by the real front end (HIRBuilder with effect/ownership passes off); programs it rejects are declined",
                       "error kinds are told apart by their English main message (all are ErrorKind::HasEffect)"]
    core.standard_check(ctx, harness_bin=HARNESS, n_quick=300, n_thorough=4000, nontrivial=nontrivial,
                        trusted=["HIR -> mini-HIR projection harness/src/minihir.rs (refuses with out-of-fragment on constructs without a constructor; rate in evidence)",
                                 "erg front end (parser, lowering, type inference) as the producer of the HIR"],
                        search_more=mt.make_search_more(HARNESS), shrink=mt.make_shrinker(HARNESS), post=post)


def replay(ctx, path):
    core.standard_replay(ctx, path, HARNESS)
