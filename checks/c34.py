"""C34 — inferred types describe the values bindings hold at run time.

T-val + T-gen:
 * every run regenerates lean/ErgVerif/Gen/C34ListSig.lean (the length expressions of the dependent List signatures) from
   crates/erg_compiler/context/initialize/classes.rs and lib/core.d/List.d.er; theorem C34_declared_is_spec re-checks them;
 * generated programs (vlib/fraggen.py scalar fragment + list construction / push / concat / + / * / reversed / map / len /
   index + user functions with Nat/Int/interval/enum parameters) are type-checked by the real `erg --mode typecheck` (every
   top-level binding's reported type is read from its `::name(: T) =` line) and compiled + run by the real compiler and
   interpreter (a trailing `print!` of each binding's repr gives the run-time value);
 * the compiled Lean driver `ergmodel_c34` parses each reported type (round-trip checked), and applies the verified membership
   checker `mem` (theorem C34_mem_iff) to (value, reported type); a `false` verdict is a violation with the program as replay.
Types outside the grammar are counted and reported (`out_of_grammar`), never defaulted.
"""
import ast
import decimal
import json
import math
import os
import re
import shutil
import tempfile
import time
from concurrent.futures import ThreadPoolExecutor

from vlib import core, fraggen, fragrun

MANIFEST_ENTRY = {
    "level_claimed": {"category": "proof",
        "text": "Verified validator: a Lean membership checker for the type language `--mode typecheck` prints on the generated family "
                "(scalars, value sets, refinements/intervals, guard types, sized and unsized lists, tuples, unions) is proved exact for "
                "a quantifier-style denotation (C34_mem_iff) and is run on every top-level binding's reported type and run-time value "
                "of generated programs; the dependent list signatures as declared in classes.rs/List.d.er (regenerated each run) are "
                "proved to compute true lengths and element types by induction over list-building expressions (C34_list_len, "
                "C34_index_safe). The inference engine itself is not transcribed: a wrong inferred type is detected and replayed by the "
                "validator, not excluded by a theorem."},
    "level_note": "proved: C34_mem_iff, C34_mem_false, C34_list_len, C34_list_value_in_type, C34_index_safe, C34_declared_is_spec, "
                  "C34_list_len_declared, witnesses C34_witness_concat_after_push / C34_witness_declared_len / C34_witness_enum_minus. "
                  "Only differential: that the checker's reported types follow the declared signatures (Substituter / eval_proj_call_t / "
                  "unification are not modelled) — recorded findings C34-concat-after-push-length (DESIGN #19) and "
                  "C34-enum-minus-inferred-nat. Trusted: the type-text parser (its result is accepted only if it prints back to the same "
                  "token stream), reading run-time values from `repr` via ast.literal_eval, the regex translators of the signature "
                  "tables. The language-server hover path is NOT covered (hover shows the same VarInfo.t; only the CLI printing is read). "
                  "Polymorphic bindings, function types, iterators (`Map(T)`), `Range` are outside the grammar and are counted.",
    "technique": "Lean 4 proof (verified validator + induction over list-building expressions) + regenerated signature table + differential runs of the real checker and interpreter",
}

RULE = ("programs of 4-10 top-level definitions from vlib/fraggen.py (scalars Nat/Int/Float/Str/Bool, if-expressions, comparisons, user "
        "functions and lambdas) extended with list literals, push, concat, +, * k, reversed, list(map), len, index and functions with "
        "interval/enum/list parameters; one case per top-level variable binding; non-trivial = reported type is not a bare scalar class "
        "(singleton/enum/refinement/guard/list/tuple/union)")

GEN_FILE = os.path.join(core.LEAN, "ErgVerif", "Gen", "C34ListSig.lean")


# ---------------------------------------------------------------------------------------------- T-gen: declared signatures

def _balanced_arg(text, start):
    """text[start] is just after an opening parenthesis: return the text up to the matching close"""
    depth, i = 1, start
    while i < len(text) and depth:
        if text[i] == "(":
            depth += 1
        elif text[i] == ")":
            depth -= 1
        i += 1
    return text[start:i - 1]


def _split_top(s, sep=","):
    out, depth, cur = [], 0, ""
    for c in s:
        if c in "([":
            depth += 1
        elif c in ")]":
            depth -= 1
        if c == sep and depth == 0:
            out.append(cur)
            cur = ""
        else:
            cur += c
    if cur.strip():
        out.append(cur)
    return [x.strip() for x in out]


def rust_len_expr(src, n="N", m="M"):
    """`N.clone() + M.clone()`, `N.clone() + value(1usize)`, `N.clone() * M.clone()`, `N.clone() - value(1usize)`,
    and the Erg spelling `M + N` -> Lean LenExpr term; None when not understood"""
    s = src.replace(".clone()", "").strip()
    toks = re.findall(r"value\(\d+usize\)|[A-Za-z_]+|\d+|[-+*]", s)
    if "".join(toks) != re.sub(r"\s+", "", s):
        return None

    def atom(t):
        mm = re.fullmatch(r"value\((\d+)usize\)", t)
        if mm:
            return f"(.lit {mm.group(1)})"
        if t.isdigit():
            return f"(.lit {t})"
        if t == n:
            return ".n"
        if t == m:
            return ".m"
        return None
    if not toks:
        return None
    cur = atom(toks[0])
    i = 1
    while cur and i + 1 < len(toks):
        op = {"+": ".add", "*": ".mul", "-": ".sub"}.get(toks[i])
        rhs = atom(toks[i + 1])
        if not op or not rhs:
            return None
        cur = f"({op} {cur} {rhs})"
        i += 2
    if i != len(toks):
        return None
    return cur.strip("()") if cur in ("(.n)", "(.m)") else cur


def regen_listsig():
    """returns (rows dict, problems)"""
    cls = open(os.path.join(core.REPO, "crates/erg_compiler/context/initialize/classes.rs")).read()
    der = open(os.path.join(core.REPO, "crates/erg_compiler/lib/core.d/List.d.er")).read()
    rows, problems = {}, []
    a = cls.find("/* List */")
    b = cls.find("/* List! */", a) if a >= 0 else -1
    if b < 0:
        b = cls.find("list_.register_marker_trait", a)
    sect = cls[a:b] if a >= 0 and b > a else cls

    def last_out_list_before(marker, what="out_list_t(T.clone(),"):
        i = sect.find(marker)
        if i < 0:
            return None
        j = sect.rfind(what, 0, i)
        if j < 0:
            return None
        inner = _balanced_arg(sect, j + len("out_list_t("))
        parts = _split_top(inner)
        return parts[1] if len(parts) == 2 else None
    spec = [("concat", "list_.register_py_builtin(FUNC_CONCAT"), ("push", "list_.register_builtin_erg_impl(FUNC_PUSH"),
            ("repeat_", "FUNC_REPEAT,")]
    for name, marker in spec:
        e = last_out_list_before(marker)
        t = rust_len_expr(e) if e else None
        if t:
            rows[name] = t
        else:
            problems.append(f"{name}: cannot read the declared length before `{marker}` (got {e!r})")
    # Output of the Add(List(T, M)) impl
    i = sect.find("let mut list_add")
    j = sect.find("list_.register_trait_methods(lis_t.clone(), list_add)", i)
    mo = re.search(r"let out_t = out_list_t\(", sect[i:j]) if i >= 0 and j > i else None
    if mo:
        parts = _split_top(_balanced_arg(sect, i + mo.end()))
        t = rust_len_expr(parts[1]) if len(parts) == 2 else None
        if t:
            rows["addOutput"] = t
        else:
            problems.append(f"addOutput: not understood: {parts!r}")
    else:
        problems.append("addOutput: `let out_t = out_list_t(` not found in the list_add block")
    # __getitem__ index bound
    i = sect.find("let list_getitem_t")
    j = sect.rfind("Predicate::le(var,", 0, i) if i >= 0 else -1
    if j >= 0:
        parts = _split_top(_balanced_arg(sect, j + len("Predicate::le(")))
        t = rust_len_expr(parts[1]) if len(parts) == 2 else None
        if t:
            rows["getitemMax"] = t
        else:
            problems.append(f"getitemMax: not understood: {parts!r}")
    else:
        problems.append("getitemMax: `Predicate::le(var,` not found before list_getitem_t")
    # reversed (List.d.er)
    mo = re.search(r"^\s*reversed:\s*\|[^|]*\|\(self: List\(T, ([A-Z])\)\) -> List\(T, ([^)]*)\)", der, re.M)
    if mo:
        t = rust_len_expr(mo.group(2), n=mo.group(1), m="\0")
        if t:
            rows["reversed"] = t
        else:
            problems.append("reversed: result length not understood: " + mo.group(2))
    else:
        problems.append("reversed: declaration not found in List.d.er")
    # cross-check the documentation signature of concat in List.d.er (evidence only)
    mo = re.search(r"^\s*concat:\s*\|[^|]*\|\(self: List\(T, ([A-Z])\), other: List\(T, ([A-Z])\)\) -> List\(T, ([^)]*)\)", der, re.M)
    doc = rust_len_expr(mo.group(3), n=mo.group(1), m=mo.group(2)) if mo else None
    order = ["concat", "addOutput", "push", "repeat_", "reversed", "getitemMax"]
    body = ["/- GENERATED on every run by checks/c34.py from crates/erg_compiler/context/initialize/classes.rs (List class: concat, the",
            "   Output of the Add impl, push, repeat/__mul__, __getitem__ index bound) and crates/erg_compiler/lib/core.d/List.d.er (reversed).",
            "   Never edit by hand. -/", "import ErgVerif.C34.Model", "namespace ErgVerif.Gen.C34", "open ErgVerif.C34", "",
            "def declared : SigTable := ["]
    body.append(",\n".join(f"  (.{k}, {rows[k]})" for k in order if k in rows))
    body += ["]", "", "end ErgVerif.Gen.C34", ""]
    text = "\n".join(body)
    if not os.path.exists(GEN_FILE) or open(GEN_FILE).read() != text:
        open(GEN_FILE, "w").write(text)
    return rows, problems, doc


# ---------------------------------------------------------------------------------------------- generator

class G34(fraggen.Gen):
    """fraggen's scalar generator + list-building expressions with dependent signatures"""

    def __init__(self, rng, **cfg):
        base = dict(loops=False, patterns=False, bare_expr=False, zero_div=False, hard_strings=False, big_lits=False)
        base.update(cfg)
        super().__init__(rng, **base)

    def expr(self, ty, depth, env=None):
        if isinstance(ty, tuple) and ty[0] == "List":
            return self.list_expr(ty, depth, self.vars if env is None else env)
        return super().expr(ty, depth, env)

    def list_expr(self, ty, depth, env):
        r = self.r
        _, t, n = ty
        vs = self.vars_of(ty, env)
        if vs and r.chance(1, 3):
            return ("var", r.pick(vs)[0], ty)
        if depth <= 0:
            return ("list", [self.expr(t, 0, env) for _ in range(n)], ty)
        d = depth - 1
        k = r.below(12)
        if k < 3 and n >= 2:
            self.features.add("push")
            return ("push", self.list_expr(("List", t, n - 1), d, env), self.expr(t, 1, env), ty)
        if k < 6 and n >= 2:
            a = 1 + r.below(n - 1)
            kind = "bin" if r.chance(2, 3) else "concatm"
            self.features.add("list-concat")
            la, lb = self.list_expr(("List", t, a), d, env), self.list_expr(("List", t, n - a), d, env)
            return ("bin", "+", la, lb, ty) if kind == "bin" else ("concatm", la, lb, ty)
        if k == 6 and n >= 2 and n % 2 == 0:
            self.features.add("list-repeat")
            return ("repeat", self.list_expr(("List", t, n // 2), d, env), 2, ty)
        if k == 7 and n >= 3 and n % 3 == 0:
            self.features.add("list-repeat")
            return ("repeat", self.list_expr(("List", t, n // 3), d, env), 3, ty)
        if k == 8 and n >= 1:
            self.features.add("list-reversed")
            return ("reversed", self.list_expr(ty, d, env), ty)
        if k == 9 and n >= 1 and t in ("Nat", "Int", "Str"):
            self.features.add("list-map")
            t1 = r.pick(["Nat", "Int"]) if t != "Str" else "Str"
            p = self.fresh("q")
            body = self.expr(t, 1, [(p, t1)])
            return ("maplist", self.list_expr(("List", t1, n), d, env), p, body, ty)
        return ("list", [self.expr(t, min(d, 1), env) for _ in range(n)], ty)

    def any_ty(self):
        if self.r.chance(2, 5):
            return ("List", self.r.pick(["Nat", "Nat", "Int", "Str"]), 1 + self.r.below(5))
        return self.scalar_ty()

    def template(self):
        """user functions whose parameter/return types are intervals, enums, unions, lists"""
        r = self.r
        f = self.fresh("h")
        k = r.below(7)
        if k == 0:
            lo = r.below(3)
            hi = lo + 1 + r.below(9)
            self.tfuncs.append((f, "interval", (lo, hi)))
            return ("raw", f"{f}(y: {lo}..{hi}) = y")
        if k == 1:
            vals = sorted({r.below(9) for _ in range(3)})
            self.tfuncs.append((f, "enum", vals))
            return ("raw", f"{f}(y: {{{', '.join(map(str, vals))}}}) = y")
        if k == 2:
            a, b = r.below(5), 5 + r.below(5)
            self.tfuncs.append((f, "nat", None))
            return ("raw", f"{f}(y: Nat) = if y > {r.below(6)}, do({a}), do({b})")
        if k == 3:
            self.tfuncs.append((f, "nat->list", None))
            return ("raw", f"{f}(y: Nat) = [y, y + 1]")
        if k == 4:
            self.tfuncs.append((f, "intstr", None))
            return ("raw", f"{f}(y: Int or Str) = y")
        if k == 5:
            lo = r.below(3)
            hi = lo + 2 + r.below(9)
            self.tfuncs.append((f, "interval-open", (lo, hi)))
            return ("raw", f"{f}(y: {lo}..<{hi}) = y")
        n = 1 + r.below(3)
        self.tfuncs.append((f, "list", n))
        return ("raw", f"{f}(y: List(Nat, {n})) = y.push(7)")

    def template_call(self):
        r = self.r
        if not self.tfuncs:
            return None
        f, kind, arg = r.pick(self.tfuncs)
        name = self.fresh()
        if kind == "interval":
            a = str(arg[0] + r.below(arg[1] - arg[0] + 1))
        elif kind == "interval-open":
            a = str(arg[0] + r.below(arg[1] - arg[0]))
        elif kind == "enum":
            a = str(r.pick(arg))
        elif kind in ("nat", "nat->list"):
            vs = self.vars_of("Nat", self.vars)
            a = r.pick(vs)[0] if vs and r.chance(1, 2) else str(r.below(9))
        elif kind == "intstr":
            a = r.pick(['"a"', "-3", "4", '"xyz"'])
        else:
            a = "[" + ", ".join(str(r.below(9)) for _ in range(arg)) + "]"
        self.rawvars.append(name)
        return ("raw", f"{name} = {f}({a})", name)

    def program34(self):
        r = self.r
        self.tfuncs, self.rawvars = [], []
        lo, hi = self.cfg["n_stmts"]
        n = lo + r.below(hi - lo + 1)
        prog = []
        D = self.cfg["max_depth"]
        for _ in range(n):
            k = r.below(20)
            if k < 12:
                ty = self.any_ty()
                name = self.fresh()
                e = self.expr(ty, D if not isinstance(ty, tuple) else 3)
                annotated = r.chance(1, 4) and not isinstance(ty, tuple)
                self.vars.append((name, ty))
                prog.append(("def", name, ty, e, annotated))
            elif k < 14 and self.cfg["funcs"]:
                self.features.add("func")
                name = self.fresh("f")
                ptys = [self.scalar_ty() for _ in range(1 + r.below(3))]
                params = [(self.fresh("p"), t) for t in ptys]
                ret = self.scalar_ty()
                env = list(params) + [v for v in self.vars if not isinstance(v[1], tuple)]
                res = super().expr(ret, 3, env)
                self.funcs.append((name, ptys, ret))
                prog.append(("func", name, params, ret, [], res))
            elif k == 14 and self.cfg["lambdas"]:
                self.features.add("lambda")
                name = self.fresh("g")
                pt = self.scalar_ty()
                p = self.fresh("p")
                ret = self.scalar_ty()
                body = super().expr(ret, 2, [(p, pt)] + [v for v in self.vars if not isinstance(v[1], tuple)])
                self.funcs.append((name, [pt], ret))
                prog.append(("lambda", name, (p, pt), ret, body))
            elif k < 17:
                prog.append(self.template())
            else:
                c = self.template_call()
                prog.append(c if c else self.template())
        if self.tfuncs and r.chance(2, 3):
            c = self.template_call()
            if c:
                prog.append(c)
        return prog


def emit(prog):
    """Erg source with the trailing value dump; returns (source, [binding names])"""
    lines, names = [], []
    for s in prog:
        if s[0] == "raw":
            lines.append(s[1])
            if len(s) > 2:
                names.append(s[2])
        else:
            lines += fraggen.erg_stmts([s])
            if s[0] == "def":
                names.append(s[1])
    for nme in names:
        lines.append(f'print! "@@{nme}", repr({nme})')
    return "\n".join(lines) + "\n", names


# ---- per-binding analysis: declared shape, finding features

def analyse(prog):
    """-> {name: {"shape": sexp or None, "feats": [..]}} for `def` statements.
    Features (structural, computed from the tree; they select the class of a recorded finding, the failure signature is
    checked by the Lean class predicates):
      concat-after-push : the expression contains (directly or through list variables) a `+` whose left operand is the result
                          of a list method call (push / concat / reversed / list(map)) or of such a `+`, and whose right
                          operand is not a plain variable
      enum-minus        : a `-`, `//` or `%` whose left operand is an if-expression over Nat branches or a variable defined by
                          one (also: `q - k` on the parameter of a lambda mapped over a list)
      not-operand-type  : the expression contains a `not`, or mentions a variable whose definition has this feature
      index-var-self-op : a later expression applies a binary operator to the binding and itself (`x + x`, `x * x`); met for
                          bindings defined by an index expression `l[i]` or an if-expression
      interp-str-in-list: a list literal with an element containing a string interpolation of a Str-typed expression
      index-elem-in-list: a list literal with an element that is an index expression `l[i]`
      if-elem-in-list   : a list literal with an element (or a `push` with an argument) that is an if-expression or a variable
                          defined by one (enum-typed element)
      index-operand-later: a list binding `l` such that some later expression uses `l[i]` directly as an operand of a binary
                          operator or comparison
      guard-int-var     : a comparison whose left operand is Int-typed (its guard type takes the base type of the right operand)
      if-same-var       : an if-expression whose two branches are the same variable (a second way to unify a type variable
                          with itself)"""
    info = {}
    lst = {}        # list variable -> (shape or None, taint)   taint: None | 'meth' | 'bad'
    enum_vars = set()
    not_vars = set()

    def shape_taint(e):
        k = e[0]
        if k == "var":
            return lst.get(e[1], (None, None))
        if k == "list":
            # a literal of plain literals gets a singleton type; any other element makes it a `List(T, N)` type like a method result
            return f"(lit {len(e[1])})", (None if all(x[0] == "lit" for x in e[1]) else "meth")
        if k == "push":
            s, t = shape_taint(e[1])
            return (f"(push {s})" if s else None), ("bad" if t == "bad" else "meth")
        if k in ("bin", "concatm"):
            a, b = (e[2], e[3]) if k == "bin" else (e[1], e[2])
            sa, ta = shape_taint(a)
            sb, tb = shape_taint(b)
            s = f"({'add' if k == 'bin' else 'concat'} {sa} {sb})" if sa and sb else None
            if k == "bin" and ta in ("meth", "bad") and b[0] != "var":
                return s, "bad"
            if "bad" in (ta, tb):
                return s, "bad"
            return s, ("meth" if k == "concatm" or "meth" in (ta, tb) else None)
        if k == "repeat":
            s, t = shape_taint(e[1])
            return (f"(rep {s} {e[2]})" if s else None), t
        if k == "reversed":
            s, t = shape_taint(e[1])
            return (f"(rev {s})" if s else None), ("bad" if t == "bad" else "meth")
        if k == "maplist":
            s, t = shape_taint(e[1])
            return (f"(map {s})" if s else None), ("bad" if t == "bad" else "meth")
        return None, None

    def etype(e):
        k = e[0]
        if k == "lit":
            return e[1]
        if k in ("var", "neg"):
            return e[2]
        if k in ("bin", "if"):
            return e[4]
        if k == "call":
            return e[3]
        if k == "interp":
            return "Str"
        if k in ("cmp", "boolop", "not"):
            return "Bool"
        if k == "len":
            return "Nat"
        if k == "index":
            return e[3]
        return None

    def has_str_interp(e):
        if not isinstance(e, tuple):
            return False
        if e[0] == "interp" and etype(e[2]) == "Str":
            return True
        return any(has_str_interp(x) for x in e[1:] if isinstance(x, tuple)) or \
            any(has_str_interp(y) for x in e[1:] if isinstance(x, list) for y in x)

    def is_enumish(x):
        return x[0] == "if" or (x[0] == "var" and x[1] in enum_vars)

    def param_minus(e, p, acc):
        if not isinstance(e, tuple):
            return
        if e[0] == "bin" and e[1] == "-" and e[2][0] == "var" and e[2][1] == p:
            acc.add(p)
        for x in e[1:]:
            if isinstance(x, tuple):
                param_minus(x, p, acc)
            elif isinstance(x, list):
                for y in x:
                    param_minus(y, p, acc)

    def index_operands(e, acc):
        """list variables L such that `L[i]` is directly an operand of a binary operator or comparison"""
        if not isinstance(e, tuple):
            return
        if e[0] in ("bin", "cmp"):
            for o in (e[2], e[3]):
                if o[0] == "index" and o[1][0] == "var":
                    acc.add(o[1][1])
        for x in e[1:]:
            if isinstance(x, tuple):
                index_operands(x, acc)
            elif isinstance(x, list):
                for y in x:
                    index_operands(y, acc)

    def self_ops(e, acc):
        if not isinstance(e, tuple):
            return
        if e[0] in ("bin", "cmp") and e[2][0] == "var" and e[3][0] == "var" and e[2][1] == e[3][1]:
            acc.add(e[2][1])
        for x in e[1:]:
            if isinstance(x, tuple):
                self_ops(x, acc)
            elif isinstance(x, list):
                for y in x:
                    self_ops(y, acc)

    def is_list_expr(e):
        return isinstance(e, tuple) and e and e[0] in ("var", "list", "push", "bin", "concatm", "repeat", "reversed", "maplist") and \
            isinstance(e[-1], tuple) and e[-1] and e[-1][0] == "List"

    def walk(e, feats):
        if not isinstance(e, tuple):
            return
        if is_list_expr(e):
            _, t = shape_taint(e)
            if t == "bad":
                feats.add("concat-after-push")
        if e[0] == "bin" and e[1] in ("-", "//", "%") and (
                e[2][0] == "if" or (e[2][0] == "var" and e[2][1] in enum_vars)):
            feats.add("enum-minus")
        if e[0] == "neg" and (e[1][0] == "if" or (e[1][0] == "var" and e[1][1] in enum_vars)):
            feats.add("enum-minus")
        if (e[0] == "list" and any(is_enumish(x) for x in e[1])) or (e[0] == "push" and is_enumish(e[2])):
            feats.add("if-elem-in-list")
        if e[0] == "not" or (e[0] == "var" and e[1] in not_vars):
            feats.add("not-operand-type")
        if e[0] == "list" and any(has_str_interp(x) for x in e[1]):
            feats.add("interp-str-in-list")
        if e[0] == "list" and any(x[0] == "index" for x in e[1]):
            feats.add("index-elem-in-list")
        if e[0] == "maplist":
            pminus = set()
            param_minus(e[3], e[2], pminus)
            if pminus:
                feats.add("enum-minus")
        if e[0] == "cmp" and etype(e[2]) == "Int":
            feats.add("guard-int-var")
        if e[0] == "if" and e[2][0] == "var" and e[3][0] == "var" and e[2][1] == e[3][1]:
            feats.add("if-same-var")
        for x in e[1:]:
            if isinstance(x, tuple):
                walk(x, feats)
            elif isinstance(x, list):
                for y in x:
                    walk(y, feats)

    for s in prog:
        if s[0] != "def":
            continue
        name, ty, e = s[1], s[2], s[3]
        feats = set()
        walk(e, feats)
        shape = None
        if isinstance(ty, tuple):
            shape, taint = shape_taint(e)
            lst[name] = (shape, taint)
        elif e[0] == "if" and not s[4]:
            enum_vars.add(name)
        if "not-operand-type" in feats:
            not_vars.add(name)
        info[name] = {"shape": shape, "feats": sorted(feats)}
    selfop, idxop = set(), set()
    for s in prog:
        body = s[3] if s[0] == "def" else s[5] if s[0] == "func" else s[4] if s[0] == "lambda" else None
        if body is not None:
            self_ops(body, selfop)
            index_operands(body, idxop)
    for s in prog:
        if s[0] == "def" and s[1] in idxop:
            info[s[1]]["feats"] = sorted(set(info[s[1]]["feats"]) | {"index-operand-later"})
    for s in prog:
        if s[0] == "def" and s[1] in selfop:
            info[s[1]]["feats"] = sorted(set(info[s[1]]["feats"]) | {"index-var-self-op"})
    return info


# ---------------------------------------------------------------------------------------------- running the real tools

BIND_RE = re.compile(r"^::([A-Za-z_][A-Za-z0-9_]*)\(: (.*)\) =$")
ANSI = re.compile(r"\x1b\[[0-9;]*m")


def reported_types(stdout):
    out = {}
    for l in ANSI.sub("", stdout).split("\n"):
        m = BIND_RE.match(l)
        if m and m.group(1) not in out:
            out[m.group(1)] = m.group(2)
    return out


def run_cli(progs, erg, jobs=4):
    """the CLI path (`erg --mode typecheck`, `erg compile`, interpreter): used for the finding witnesses and a cross-check sample.
    progs: [(id, source)] -> [{id, tc_rc, types, run_class, values, stderr}]"""
    env = core.erg_env()
    python = core.PYTHONS["3.11"]
    work = tempfile.mkdtemp(prefix="c34-")

    def one(p):
        pid, src = p
        d = os.path.join(work, re.sub(r"[^A-Za-z0-9_]", "_", pid))
        os.makedirs(d, exist_ok=True)
        open(os.path.join(d, "m.er"), "w").write(src)
        rc, out, err = fragrun.run_cmd([erg, "--mode", "typecheck", "m.er"], d, env, timeout=120)
        res = {"id": pid, "tc_rc": rc, "types": reported_types(out) if rc == 0 else {},
               "tc_class": fragrun.classify_erg(rc, out, err), "tc_msg": ANSI.sub("", out + err)[-600:] if rc != 0 else ""}
        res["run_class"], res["values"], res["stderr"] = "not-run", {}, ""
        if rc == 0:
            rc2, out2, err2 = fragrun.run_cmd([erg, "--py-command", python, "compile", "m.er"], d, env, timeout=120)
            if rc2 == 0 and os.path.exists(os.path.join(d, "m.pyc")):
                rc3, out3, err3 = fragrun.run_cmd([python, "m.pyc"], d, env, timeout=60)
                res["run_class"] = "ok" if rc3 == 0 else "runtime-exc:" + (fragrun.exc_class(err3) or str(rc3))
                res["stderr"] = err3[-400:]
                for l in out3.split("\n"):
                    if l.startswith("@@"):
                        nm, _, rp = l[2:].partition(" ")
                        res["values"][nm] = rp
            else:
                res["run_class"] = "compile-failed:" + fragrun.classify_erg(rc2, out2, err2)
                res["stderr"] = ANSI.sub("", out2 + err2)[-400:]
        return res
    with ThreadPoolExecutor(max_workers=jobs) as ex:
        results = list(ex.map(one, progs))
    shutil.rmtree(work, ignore_errors=True)
    return results


PAIR_RE = re.compile(r'\("((?:[^"\\]|\\.)*)" "((?:[^"\\]|\\.)*)"\)')


def run_all(progs, bindir):
    """the in-process path: harness `c34 replay` (real Compiler: reported types of the top-level definitions + .pyc) and
    py/c34_runpyc.py (all code objects run in one interpreter). progs: [(id, source)] -> same records as run_cli"""
    work = tempfile.mkdtemp(prefix="c34-")
    env = core.erg_env()
    ids = {}
    for pid, _ in progs:
        ids[re.sub(r"[^A-Za-z0-9_]", "_", pid)] = pid
    inp = "".join(f"{pid}\t(src {core.quote(src)})\n" for pid, src in progs)
    rc, hrows, err = core.run_harness(bindir, "c34", ["replay", "--out", work], stdin=inp, env=env)
    rc2, out, err2 = core.sh([core.PYTHONS["3.11"], os.path.join(core.VERIF, "py", "c34_runpyc.py"), work, os.path.join(env["ERG_PATH"], "lib")],
                             env=env, timeout=1800)
    try:
        ran = json.loads(out)
    except Exception:
        core.log(f"[c34] pyc runner failed rc={rc2}: {err2[-500:]}")
        ran = {}
    by_id = {r[0]: r[2] for r in hrows}
    results = []
    for pid, src in progs:
        impl = by_id.get(pid, "crash(\"no harness output\")")
        res = {"id": pid, "types": {}, "values": {}, "stderr": "", "run_class": "not-run", "tc_msg": ""}
        if impl.startswith("(types"):
            res["tc_class"] = "ok"
            tpart = impl[:impl.rfind("(pyc")] if "(pyc" in impl else impl
            for a, b in PAIR_RE.findall(tpart):
                res["types"].setdefault(unq(a), unq(b))
            rr = ran.get(re.sub(r"[^A-Za-z0-9_]", "_", pid))
            if rr is None:
                res["run_class"] = "no-pyc"
            else:
                res["run_class"] = "ok" if not rr["exc"] else "runtime-exc:" + rr["exc"]
                res["stderr"] = f"{rr['exc']}: {rr['msg']}" if rr["exc"] else ""
                for l in rr["out"].split("\n"):
                    if l.startswith("@@"):
                        nm, _, rp = l[2:].partition(" ")
                        res["values"][nm] = rp
        elif impl.startswith("rejected"):
            res["tc_class"] = "rejected"
            res["tc_msg"] = impl[:300]
        else:
            res["tc_class"] = "crash"
            res["tc_msg"] = impl[:300]
        results.append(res)
    shutil.rmtree(work, ignore_errors=True)
    return results


def norm_ty(t):
    """type text up to the numbering of bound variables and the (hash) order of set members"""
    t = re.sub(r"%v_[A-Za-z_]*\d+", "%v", t)
    return sorted(re.findall(r'"(?:[^"\\]|\\.)*"|[^\s,{}()\[\]]+|[{}()\[\]]', t))


def val_sexp(v):
    if isinstance(v, bool):
        return "(b true)" if v else "(b false)"
    if isinstance(v, int):
        return f"(i {v})"
    if isinstance(v, str):
        return "(s " + core.quote(v) + ")"
    if isinstance(v, float):
        if math.isinf(v) or math.isnan(v):
            raise ValueError("non-finite float")
        sign, digits, exp = decimal.Decimal(repr(v)).as_tuple()
        m = int("".join(map(str, digits))) * (-1 if sign else 1)
        return f"(f {m} {exp})"
    if v is None:
        return "(none)"
    if isinstance(v, list):
        return "(l" + "".join(" " + val_sexp(x) for x in v) + ")"
    if isinstance(v, tuple):
        return "(t" + "".join(" " + val_sexp(x) for x in v) + ")"
    raise ValueError(type(v).__name__)


def repr_to_sexp(rp):
    try:
        return val_sexp(ast.literal_eval(rp))
    except Exception:
        return None


def rows_of(pid, src, res, info):
    """driver rows for one program: one per top-level binding that has both a reported type and a run-time value"""
    rows, skipped = [], 0
    vals = {n: repr_to_sexp(rp) for n, rp in res["values"].items()}
    for name, tytext in res["types"].items():
        if name not in vals:
            continue
        if vals[name] is None:
            skipped += 1
            continue
        parts = [f'(bind {core.quote(name)} {core.quote(tytext)} {vals[name]}']
        if " in " in tytext:
            env = [f"({core.quote(n)} {v})" for n, v in vals.items() if v is not None and n != name]
            parts.append("(env " + " ".join(env) + ")")
        inf = info.get(name, {})
        if inf.get("feats"):
            parts.append("(feat " + " ".join(core.quote(f) for f in inf["feats"]) + ")")
        if inf.get("shape"):
            parts.append(f"(shape {inf['shape']})")
        rows.append((f"{pid}:{name}", " ".join(parts) + ")", "(ty-understood)"))
    # a run stopped by the Nat wrapper: the use-site wrap `Nat(...)` is emitted for expressions whose static type is Nat, so the
    # value in the message was computed for an expression the checker typed Nat
    m = re.search(r"ValueError: Nat can't be negative: (-?\d+)", res.get("stderr", ""))
    if m and res["run_class"].startswith("runtime-exc:ValueError"):
        feats = sorted({f for inf in info.values() for f in inf.get("feats", [])})
        fs = (" (feat " + " ".join(core.quote(f) for f in feats) + ")") if feats else ""
        rows.append((f"{pid}:<nat-wrapper>", f'(bind "<nat-wrapper>" "Nat" (i {m.group(1)}){fs})', "(ty-understood)"))
    return rows, skipped


def unq(s):
    """inverse of core.quote (without the surrounding quotes)"""
    out, i = [], 0
    while i < len(s):
        c = s[i]
        if c == "\\":
            i += 1
            e = s[i]
            if e == "n":
                out.append("\n")
            elif e == "t":
                out.append("\t")
            elif e == "r":
                out.append("\r")
            elif e == "u":
                out.append(chr(int(s[i + 1:i + 5], 16))); i += 4
            elif e == "U":
                out.append(chr(int(s[i + 1:i + 7], 16))); i += 6
            else:
                out.append(e)
        else:
            out.append(c)
        i += 1
    return "".join(out)


SCALARS = {"Nat", "Int", "Float", "Str", "Bool", "Obj"}


def ty_kind(t):
    if t in SCALARS:
        return "scalar-class"
    if t.startswith("List("):
        return "list-unsized" if "_: Nat" in t else "list-sized"
    if t.startswith("Tuple("):
        return "tuple"
    if t.startswith("{") and " in " in t.split("|")[0] and ":" not in t.split(" in ")[0]:
        return "guard"
    if t.startswith("{") and "|" in t:
        return "refinement"
    if t.startswith("{["):
        return "singleton-list"
    if t.startswith("{"):
        return "enum" if "," in t else "singleton"
    if " or " in t:
        return "union"
    return "other:" + re.split(r"[^A-Za-z!]", t)[0]


# ---------------------------------------------------------------------------------------------- the check

def gen_programs(seed, n):
    progs, infos, srcs = [], {}, {}
    for i in range(n):
        g = G34(fraggen.Rng(seed * 1000003 + 34000 + i), floats=(i % 3 != 0), strings=(i % 5 != 4), n_stmts=(4, 10),
                max_depth=3, conds=True, interp=(i % 4 == 0))
        p = g.program34()
        src, names = emit(p)
        pid = f"p{i}"
        progs.append((pid, src))
        infos[pid] = analyse(p)
        srcs[pid] = src
    return progs, infos, srcs


def soak(seed0, nseeds, n):
    """python3 -m checks.c34 soak <first seed> <seeds> <programs per seed>: unexplained violations of the generator's family"""
    ok_h, _, bindir = core.cargo_build(["c34"])
    ctx = core.Ctx("C34", "quick", 0)
    known = {e["id"] for e in ctx.known_findings()}
    groups = {}
    for seed in range(seed0, seed0 + nseeds):
        progs, infos, srcs = gen_programs(seed, n)
        results = run_all(progs, bindir)
        rows = []
        for (pid, src), r in zip(progs, results):
            rows += rows_of(pid, src, r, infos[pid])[0]
        _, mrows, _ = core.run_model("C34", rows)
        res = core.compare(rows, mrows, known)
        for v in res.spec_viol:
            groups.setdefault(re.sub(r"\d+", "N", v[1].split('" ')[1][:50]), []).append((seed, v, srcs[v[0].split(":")[0]]))
        for d in res.disagree:
            groups.setdefault("DISAGREE " + d[3][:40], []).append((seed, d, srcs[d[0].split(":")[0]]))
        crash = [r for r in results if r["tc_class"] == "crash"]
        print(f"seed {seed}: {len(rows)} bindings, known {len(res.known)}, unexplained {len(res.spec_viol)}, disagreements {len(res.disagree)}, "
              f"out-of-grammar {res.out_of_model}, compiler crashes {len(crash)}", flush=True)
    for g, items in groups.items():
        print("=" * 100)
        print(g, len(items))
        seed, v, src = items[0]
        print("seed", seed, v[0], v[1][:500])
        print(src)


def witness_rows(ctx, erg):
    """the recorded findings, replayed end to end on their witness programs (ids k:<finding id>)"""
    rows, meta = [], {}
    for e in [x for x in ctx.known_findings() if x.get("witness_program")]:
        src = e["witness_program"]
        r = run_cli([("k_" + e["id"], src)], erg, jobs=1)[0]
        name = e["witness_binding"]
        info = {name: {"feats": [e["witness_feature"]] if e.get("witness_feature") else [], "shape": e.get("witness_shape")}}
        rr, _ = rows_of("k", src, r, info)
        meta[e["id"]] = {"reported": r["types"].get(name), "value": r["values"].get(name), "run": r["run_class"], "tc": r["tc_class"]}
        for rid, inp, impl in rr:
            if rid == "k:" + name:
                rows.append(("k:" + e["id"], inp, impl))
    return rows, meta


def index_witness(ctx, erg):
    """finding #19's consequence stated in the property: an index the checker accepts is out of range at run time"""
    out = {}
    for e in [x for x in ctx.known_findings() if x.get("index_program")]:
        r = run_cli([("ki_" + e["id"], e["index_program"])], erg, jobs=1)[0]
        out[e["id"]] = {"typecheck": r["tc_class"], "run": r["run_class"]}
    return out


def run(ctx):
    ctx.cov["rule"] = RULE
    ctx.assumptions = ["target interpreter CPython 3.11; run-time values are read from the repr the compiled program prints",
                       "Bool <: Nat <: Int <: Float in the denotation (a Nat binding may hold True, a Float binding an integer)",
                       "a guard type {x in T} denotes the Booleans b such that b = True implies binding x holds a value of T"]
    thorough = ctx.tier == "thorough"
    n = 2500 if thorough else 160
    rows_sig, sig_problems, doc_concat = regen_listsig()
    proof = core.proof_stage(ctx, "C34", ["ErgVerif.C34.Props", "ergmodel_c34"])
    ok_h, hlog, bindir = core.cargo_build(["c34"])
    ok_e, elog, erg = core.erg_binary()
    checker_cmd = "cd lean && lake build ErgVerif.C34.Props ergmodel_c34 && lake env lean Audit/C34.lean"
    extra = {"axioms": proof["axioms"], "theorems": proof["theorems"], "examples": proof["examples"],
             "declared_signatures": rows_sig, "declared_signature_problems": sig_problems, "List_d_er_concat_doc": doc_concat,
             "gen_file_sha": core.hashlib.sha1(open(GEN_FILE, "rb").read()).hexdigest()[:12]}
    if not ok_e or not ok_h:
        ctx.violation({"kind": "build-failed", "erg_log": elog if not ok_e else "", "harness_log": hlog if not ok_h else ""}, no_input=True)
        ctx.write_evidence(proof["obligations"], proof["discharged"], checker_cmd, extra)
        ctx.finish()

    # ------------------------------------------------------------------ programs
    progs, infos, srcs = gen_programs(ctx.seed, n)
    # corpus: programs kept from past disagreements (id \t erg source with \n escaped)
    for cid, inp in core.corpus_rows("C34"):
        if inp.startswith("(src "):
            m = re.match(r'\(src "((?:[^"\\]|\\.)*)"\)$', inp)
            if m:
                src = unq(m.group(1))
                progs.append((cid, src))
                infos[cid] = {}
                srcs[cid] = src
    t0 = time.time()
    results = run_all(progs, bindir)
    core.log(f"[c34] {len(progs)} programs compiled in-process and run in {time.time() - t0:.1f}s")
    # cross-check of the two observation paths on a sample: what `erg --mode typecheck` prints and what the CLI-compiled program
    # holds must be what the in-process harness reported
    ncli = 12 if thorough else 3
    cli = run_cli(progs[:ncli], erg)
    cli_diff, verdict_flaky = [], []
    for (pid, src), a, b in zip(progs[:ncli], results, cli):
        ta = {k: norm_ty(v) for k, v in a["types"].items()}
        tb = {k: norm_ty(v) for k, v in b["types"].items() if k in ta}
        if a["tc_class"] != b["tc_class"]:
            # the checker's verdict on one and the same program differs between two runs (seen for `len([-3, -1] + [2])`:
            # "does not implement Add(GenericList)" in some runs only): a determinism matter (C19), not a reading problem
            verdict_flaky.append({"id": pid, "src": src, "in_process": a["tc_class"], "cli": b["tc_class"], "msg": (a["tc_msg"] + b["tc_msg"])[:300]})
        elif ta != tb or a["values"] != b["values"]:
            cli_diff.append({"id": pid, "src": src, "in_process": [a["tc_class"], ta, a["values"]], "cli": [b["tc_class"], tb, b["values"]]})
    rows = []
    tc_classes, run_classes, kinds = {}, {}, {}
    skipped_values = 0
    for (pid, src), r in zip(progs, results):
        tc_classes[r["tc_class"]] = tc_classes.get(r["tc_class"], 0) + 1
        run_classes[r["run_class"]] = run_classes.get(r["run_class"], 0) + 1
        rr, sk = rows_of(pid, src, r, infos[pid])
        skipped_values += sk
        rows += rr
        for name, t in r["types"].items():
            if name in r["values"]:
                k = ty_kind(t)
                kinds[k] = kinds.get(k, 0) + 1
    wrows, wmeta = witness_rows(ctx, erg)
    rows = wrows + rows
    mrc, mrows, merr = core.run_model("C34", rows)
    res = core.compare(rows, mrows, {e["id"] for e in ctx.known_findings()})
    mm = {m[0]: m for m in mrows}
    oog = {}
    for r_ in rows:
        m = mm.get(r_[0])
        if m and m[1].startswith("out-of-model"):
            why = m[1][len("out-of-model("):-1]
            why = re.sub(r"\d+", "N", why)[:60]
            oog[why] = oog.get(why, 0) + 1
    nontrivial = sum(v for k, v in kinds.items() if k != "scalar-class" and not k.startswith("other:"))
    ctx.cov["evaluations"] = len(rows)
    ctx.cov["distinct_nontrivial"] = nontrivial
    ctx.cov["traces_validated_against_impl"] = res.agree
    ctx.cov["samples"] = [{"program": progs[0][1], "reported": results[0]["types"], "values": results[0]["values"]}] + \
                         [{"input": r_[1][:300], "verdict": mm.get(r_[0], ["", "", ""])[2]} for r_ in rows[:1] + rows[len(rows) // 2:len(rows) // 2 + 2]]
    extra.update({"programs": len(progs), "typecheck_outcomes": tc_classes, "run_outcomes": run_classes, "bindings_checked": len(rows),
                  "reported_type_kinds": kinds, "out_of_grammar": oog, "out_of_grammar_total": res.out_of_model,
                  "values_not_literal": skipped_values, "disagreements": len(res.disagree), "spec_violations": len(res.spec_viol),
                  "in_known_class": len(res.known), "witness_replays": wmeta,
                  "cli_cross_check": {"programs": ncli, "differences": len(cli_diff), "verdict_differs_between_runs": verdict_flaky[:3]}})

    # ------------------------------------------------------------------ known findings
    iw = index_witness(ctx, erg)
    extra["index_witness"] = iw
    for e in ctx.known_findings():
        hits = [k for k in res.known if k[5] == e["id"]]
        wit = [k for k in hits if k[0] == "k:" + e["id"]]
        if wit:
            more = ""
            if e["id"] in iw:
                w = iw[e["id"]]
                more = f"; index program: checker {w['typecheck']}, run {w['run']}"
            ctx.print_known(e, f"{e.get('summary', '')} [witness still fails as recorded: {wit[0][4]}; {len(hits) - 1} generated binding(s) of this class in this run{more}]")
    extra["known_findings_no_longer_reproducing"] = [e["id"] for e in ctx.known_findings() if e["id"] not in ctx.known_printed]

    # ------------------------------------------------------------------ verdict
    if res.spec_viol:
        v = res.spec_viol[0]
        pid = v[0].split(":")[0]
        ctx.violation({"kind": "value-not-in-inferred-type", "case_id": v[0], "input": v[1], "spec": v[4], "inK": v[5],
                       "erg_source": srcs.get(pid, ""), "what": "the run-time value of a top-level binding is not a member of the type "
                       "`erg --mode typecheck` reports for it",
                       "others": [{"id": x[0], "input": x[1][:400], "erg_source": srcs.get(x[0].split(':')[0], "")} for x in res.spec_viol[1:6]]})
    elif res.disagree or not proof["ok"] or mrc != 0 or sig_problems or cli_diff:
        ctx.violation({"kind": "no-longer-shown",
                       "what": "a proof obligation (possibly the regenerated signature table), the signature translator or the type-text "
                               "round trip no longer checks; no binding whose value is outside its reported type was found among "
                               f"{len(rows)} bindings of {len(progs)} programs",
                       "proof_problems": proof["problems"], "signature_problems": sig_problems, "cli_vs_in_process": cli_diff[:3],
                       "build_log_tail": proof["log"][-2500:] if not proof["ok"] else "",
                       "correspondence_disagreements": [dict(id=x[0], input=x[1], impl=x[2], model=x[3]) for x in res.disagree[:6]]},
                      no_input=True)
    ctx.write_evidence(proof["obligations"], proof["discharged"], checker_cmd, extra,
                       trusted=["type-text tokenizer/parser of lean/ErgVerif/C34/Model.lean (accepted only when it prints back to the same token stream)",
                                "run-time values read from `print! repr(x)` through ast.literal_eval (checks/c34.py)",
                                "regex translators of classes.rs / List.d.er length expressions (checks/c34.py regen_listsig)",
                                "CPython 3.11 as the run-time"])
    ctx.finish()


def replay(ctx, path):
    rp = json.load(open(path))
    ok_e, _, erg = core.erg_binary()
    core.lake_build(["ergmodel_c34"])
    if rp.get("erg_source"):
        r = run_cli([("r", rp["erg_source"])], erg, jobs=1)[0]
        rows, _ = rows_of("r", rp["erg_source"], r, {})
        _, mrows, _ = core.run_model("C34", rows)
        bad = 0
        for r_, m_ in zip(rows, mrows):
            print(r_[0], r_[1][:200], "->", m_[2])
            bad += m_[2].startswith("viol")
        print("still failing" if bad else "no longer failing")
        raise SystemExit(1 if bad else 0)
    print("replay file names no program:", json.dumps(rp.get("proof_problems", rp.get("what", "")))[:2000])
    raise SystemExit(1)


if __name__ == "__main__":
    import sys
    if len(sys.argv) >= 5 and sys.argv[1] == "soak":
        soak(int(sys.argv[2]), int(sys.argv[3]), int(sys.argv[4]))
