"""C25 — REPL framing and lock step: Lean theorems for every message list, every history and every splitting of the byte
streams (C25_rust_rx, C25_py_rx, C25_rust_tx, C25_py_tx, C25_lockstep, ...), tied to src/dummy.rs through the
erg::verif_hooks over an in-memory stream with adversarial chunk schedules, to src/scripts/repl_server.py by running its
MessageStream class under the installed interpreters against a fake socket with the same schedules, to both Inst code tables
by regeneration (T-gen), and end to end through DummyVM::eval against a real server process."""
import hashlib
import json
import os
import re
import sys
import time

from vlib import core

PROP = "C25"
FINDING_BIG = "C25-payload-over-65535"
NAMES = ["UNKNOWN", "PRINT", "LOAD", "EXCEPTION", "INITIALIZE", "EXIT", "EXECUTE"]
MISSING = 999999
PINNED = "affbfc8a"

MANIFEST_ENTRY = {
    "level_claimed": {"category": "proof",
        "text": "Lean theorems over every message list, every eval history and every splitting of the byte streams into reads and "
                "writes: the Rust receiver returns exactly what the Python server sent (C25_rust_rx), the repaired Python receiver returns "
                "exactly what the Rust client sent (C25_py_rx), both senders put the whole frame on the wire under every write schedule "
                "(C25_rust_tx, C25_py_tx), and the n-th eval result answers the n-th input (C25_lockstep) - all for payloads up to 65535 "
                "bytes; above that the statement is proved false for the whole class (C25_witness_big_payload, C25_witness_lockstep_big; "
                "recorded finding). The model transcribes src/dummy.rs Message/MessageStream and repl_server.py MessageStream and is tied "
                "to both ends on every run."},
    "level_note": "trusted: Lean kernel + {propext, Quot.sound, Classical.choice}. Modelled, not verified: blocking read/recv/write/send on a "
                  "byte stream (a call returns a non-empty prefix unless the stream ended); CPython's strict UTF-8 decoder (Lean spec, compared "
                  "with the real decoder on every case). The transcription of both ends is checked by differential runs - Rust through "
                  "cfg(erg_verif) hooks over an in-memory Read+Write with generated chunk schedules, Python by executing the class text of "
                  "repl_server.py under the installed interpreters against a fake socket with the same schedules, and each end's receiver on "
                  "the bytes the other end really wrote - not verified. C25_lockstep is about the abstract request/response machine (server "
                  "dispatch transcribed, exec abstract, sends appended whole as C25_rust_tx/C25_py_tx justify); real TCP, process start-up, "
                  "time-outs and the compiler inside DummyVM::eval are only exercised by end-to-end histories against a real server process "
                  "(quick: 4 histories, thorough: 10 fixed + 20 generated, scripts up to ~60 KB and answers up to exactly 65535 bytes). Payloads above 65535 bytes "
                  "desynchronise the stream (Rust size field saturates, Python to_bytes raises): recorded finding " + FINDING_BIG +
                  ", needs a protocol change; its end-to-end witness runs in a child process because the client exits on it.",
    "technique": "Lean 4 proof (induction over fuelled read/write loops, message lists and histories) + differential correspondence on both "
                 "ends with adversarial chunk schedules + regenerated instruction tables (decide) + end-to-end REPL histories",
}


# ------------------------------------------------------------------------------------------------- T-gen

def parse_rust_tables(src):
    m = re.search(r"enum\s+Inst\s*\{(.*?)\n\}", src, re.S)
    if not m:
        raise ValueError("enum Inst not found in src/dummy.rs")
    enum = {}
    for nm, val in re.findall(r"^\s*([A-Za-z_]\w*)\s*=\s*(0x[0-9a-fA-F]+|\d+)\s*,", m.group(1), re.M):
        enum[nm.upper()] = int(val, 0)
    m = re.search(r"impl\s+From<u8>\s+for\s+Inst\s*\{(.*?)\n\}", src, re.S)
    if not m:
        raise ValueError("impl From<u8> for Inst not found in src/dummy.rs")
    arms = []
    for val, nm in re.findall(r"(0x[0-9a-fA-F]+|\d+)\s*=>\s*Inst::(\w+)", m.group(1)):
        arms.append((int(val, 0), nm.upper()))
    d = re.search(r"_\s*=>\s*Inst::(\w+)", m.group(1))
    default = d.group(1).upper() if d else None
    return enum, arms, default


def py_tables(server_py):
    rc, out, err = core.sh([core.PYTHONS["3.11"], os.path.join(core.VERIF, "py", "c25_fake_socket.py"), server_py, "tables"])
    if rc != 0:
        raise ValueError("cannot load INST from repl_server.py: " + err[-300:])
    return json.loads(out)


def regen_inst_tables():
    """write lean/ErgVerif/Gen/C25Inst.lean from src/dummy.rs and src/scripts/repl_server.py; returns the tables"""
    enum, arms, default = parse_rust_tables(open(os.path.join(core.REPO, "src", "dummy.rs"), encoding="utf-8").read())
    py = py_tables(os.path.join(core.REPO, "src", "scripts", "repl_server.py"))

    def row(tbl):
        return "[" + ", ".join(str(tbl.get(n, MISSING)) for n in NAMES) + "]"
    arm_rows = ", ".join("(%d, %d)" % (b, enum.get(nm, MISSING)) for b, nm in arms)
    text = "\n".join([
        "/- GENERATED by checks/c25.py from src/dummy.rs (`enum Inst`, `impl From<u8> for Inst`) and src/scripts/repl_server.py",
        "   (`class INST`, read from the executed class). Do not edit. Codes in the order " + " ".join(NAMES) + ";",
        "   %d marks a name the file does not define. -/" % MISSING,
        "namespace ErgVerif.Gen.C25Inst",
        "def rustEnum : List Nat := " + row(enum),
        "def pyInst : List Nat := " + row(py),
        "/-- match arms of `Inst::from`: (byte, code of the variant it yields) -/",
        "def rustFromArms : List (Nat × Nat) := [" + arm_rows + "]",
        "def rustFromDefault : Nat := " + str(enum.get(default, MISSING)),
        "/-- number of names outside the seven -/",
        "def extraRust : Nat := " + str(len([n for n in enum if n not in NAMES])),
        "def extraPy : Nat := " + str(len([n for n in py if n not in NAMES])),
        "end ErgVerif.Gen.C25Inst", ""])
    path = os.path.join(core.LEAN, "ErgVerif", "Gen", "C25Inst.lean")
    os.makedirs(os.path.dirname(path), exist_ok=True)
    if not os.path.exists(path) or open(path, encoding="utf-8").read() != text:
        open(path, "w", encoding="utf-8").write(text)
    return {"rust_enum": enum, "rust_from": arms, "rust_from_default": default, "py": py,
            "sha1": hashlib.sha1(text.encode()).hexdigest()[:12]}


def table_mismatch(tables):
    """concrete rows on which the two files (or a file and the model) disagree"""
    model = dict(zip(NAMES, range(7)))
    rows = []
    for n in sorted(set(NAMES) | set(tables["rust_enum"]) | set(tables["py"])):
        r, p, m = tables["rust_enum"].get(n), tables["py"].get(n), model.get(n)
        if not (r == p == m):
            rows.append({"name": n, "rust": r, "python": p, "model": m})
    enum = tables["rust_enum"]
    for b, nm in tables["rust_from"]:
        if enum.get(nm) != b:
            rows.append({"from_arm": b, "yields": nm, "whose_code_is": enum.get(nm)})
    armed = {nm for _, nm in tables["rust_from"]}
    for n, c in enum.items():
        if n not in armed and n != tables["rust_from_default"]:
            rows.append({"name": n, "code": c, "problem": "no arm in Inst::from: a received %d decodes as %s" % (c, tables["rust_from_default"])})
    return rows


# ------------------------------------------------------------------------------------------------- Python end

def server_py():
    return os.path.join(core.REPO, "src", "scripts", "repl_server.py")


def run_python_rows(ver, rows, script=None):
    """rows: (id, input) -> output rows (id, input, impl) incl. chain rows `c:<id>` with impl `?`"""
    text = "".join(f"{a}\t{b}\n" for a, b in rows)
    rc, out, err = core.sh([core.PYTHONS[ver], os.path.join(core.VERIF, "py", "c25_fake_socket.py"), script or server_py(), "run"],
                           input=text, timeout=3600)
    if rc != 0:
        core.log(f"[py {ver}] rc={rc}: {err[-600:]}")
    return rc, core.parse_lines(out, 3), err


def pinned_server_py(ctx):
    """the pinned-commit repl_server.py (for the tie of the legacy model); None when git cannot produce it"""
    rc, out, err = core.sh(["git", "-C", core.REPO, "show", PINNED + ":src/scripts/repl_server.py"])
    if rc != 0 or "class MessageStream" not in out:
        return None
    d = os.path.join(core.harness_dir(), "target", "c25-work")     # git-ignored build area
    os.makedirs(d, exist_ok=True)
    p = os.path.join(d, "repl_server_pinned.py")
    open(p, "w", encoding="utf-8").write(out)
    return p


def to_legacy(inp):
    return inp.replace("(prx ", "(prx-legacy ", 1).replace("(ptx ", "(ptx-legacy ", 1)


# ------------------------------------------------------------------------------------------------- end to end

E2E_QUICK = [
    ("3.11", ["out:5", "out:0", "src:10", "out:300"]),
    ("3.11", ["out:20000", "out:1", "src:3000", "out:65000", "out:2"]),
    ("3.8", ["src:12000", "out:40000", "out:7"]),
    ("3.10", ["out:65526", "out:1", "out:65527", "src:15000", "out:2"]),     # answers of 65534 and 65535 bytes (tag 3 + n + 5)
]
E2E_THOROUGH = E2E_QUICK + [
    ("3.7", ["out:1", "out:65000", "out:65000", "src:15000", "out:3"]),
    ("3.9", ["out:255", "out:256", "out:65279", "out:0", "src:255", "src:256"]),
    ("3.10", ["src:15000", "src:15000", "out:60000", "src:1", "out:1"]),
    ("3.11", ["out:65526", "out:1", "out:65527", "out:2"]),     # answers of 65534 and 65535 bytes (tag 3 + n + 5)
    ("3.11", ["out:1000"] * 12),
    ("3.11", ["src:100", "out:100", "src:14000", "out:64000", "src:100", "out:100", "src:14000", "out:64000"]),
]
# the recorded finding, end to end (child process: the client calls process::exit on a desynchronised stream)
E2E_KNOWN = [
    ("3.11", ["out:5", "out:70000", "out:6"], "output of 70 000 bytes: the server cannot send it (OverflowError), the client exits"),
    ("3.11", ["out:5", "src:17000", "out:6"], "17 000-character literal: the script exceeds 65535 bytes, the server executes a truncated script"),
]


def run_e2e(bindir, ver, steps, timeout=120):
    t = time.time()
    rc, out, err = core.sh([os.path.join(bindir, "c25"), "e2e", "--py", core.PYTHONS[ver]] + steps, env=core.erg_env(), timeout=timeout)
    lines = [l for l in out.split("\n") if l.startswith("step ")]
    done = "done" in out.split("\n")
    return {"py": ver, "steps": steps, "rc": rc, "done": done, "lines": lines, "stderr_tail": err[-400:], "wall_s": round(time.time() - t, 1)}


# ------------------------------------------------------------------------------------------------- the check

def nontrivial(row):
    # a case is non-trivial when a byte stream is actually split: a non-empty schedule and at least 4 bytes of traffic
    inp = row[1]
    m = re.search(r"\((?:rsched|wsched) ([0-9 ]+)\)", inp)
    return bool(m and m.group(1).strip()) and ('(rep ' in inp or len(inp) > 60)


def kind_of(inp):
    m = re.match(r"\(([\w-]+)", inp)
    return m.group(1) if m else "?"


def run(ctx):
    ctx.cov["rule"] = ("cases: Rust send (rtx) / Rust receive (rrx) through the hooks, Python send (ptx) / receive (prx) through the "
                       "extracted class, each under generated read/write chunk schedules (none, all 1, small random, with zeros, "
                       "header-splitting, huge, [2 8 3 8]); payload sizes 0..12, {0,1,2,3,255,256,257}, 100..2000, 65534, 65535, 65536, "
                       "65537, 70000, 131071, 200000; ASCII / multi-byte UTF-8 / raw bytes; 1..4 frames per stream, 10% truncated, 10% "
                       "with trailing bytes, 10% unstructured; every send is chained into the other end's receiver on the bytes really "
                       "written; distinct by input; non-trivial = non-empty schedule and a payload")
    ctx.assumptions = ["a read/recv on a stream returns a non-empty prefix of the bytes in flight unless the stream ended; a write/send accepts a non-empty prefix",
                       "the client only sends valid UTF-8 (eval sends a String)",
                       "payloads of at most 65535 bytes (above: recorded finding " + FINDING_BIG + ")"]
    trusted = ["model of blocking byte-stream reads/writes (ErgVerif.C25.Sock/WSock), mirrored by harness ChunkStream and py/c25_fake_socket.py FakeSocket",
               "Lean spec of CPython's strict UTF-8 decoder (utf8Valid), compared with bytes.decode on every prx case",
               "regex extraction of enum Inst / impl From<u8> from src/dummy.rs; INST read from the executed class text of repl_server.py"]
    prop = ctx.prop
    thorough = ctx.tier == "thorough"
    # ---- T-gen
    tables, tgen_err = None, None
    try:
        tables = regen_inst_tables()
    except Exception as e:      # noqa: reported below
        tgen_err = str(e)
    # ---- proofs, harness
    proof = core.proof_stage(ctx, prop, [f"ErgVerif.{prop}.Props", "ergmodel_c25"])
    ok_h, hlog, bindir = core.cargo_build(["c25"])
    checker_cmd = f"cd lean && lake build ErgVerif.{prop}.Props ergmodel_c25 && lake env lean Audit/{prop}.lean"
    extra = {"axioms": proof["axioms"], "theorems": proof["theorems"], "examples": proof["examples"],
             "gen_tables": {"C25Inst": tables} if tables else {"error": tgen_err}}
    if not ok_h:
        ctx.violation({"kind": "harness-build-failed", "what": "the correspondence harness no longer builds against the working tree "
                       "(erg::verif_hooks or the Message API changed), so the tie cannot be checked", "log": hlog}, no_input=True)
        ctx.write_evidence(proof["obligations"], proof["discharged"], checker_cmd, extra, trusted)
        ctx.finish()
    table_reported = False
    if tgen_err or (tables and table_mismatch(tables)):
        table_reported = True
        rows = table_mismatch(tables) if tables else []
        ctx.violation({"kind": "inst-table-mismatch", "what": "the instruction code tables of src/dummy.rs and repl_server.py no longer agree "
                       "with each other / with the model: a message with such an instruction is understood differently by the two ends",
                       "rows": rows, "error": tgen_err, "tables": tables}, no_input=not rows)
    # ---- stage 1: generator + Rust end
    n = 24000 if thorough else 1200
    rows = []
    crow = core.corpus_rows(prop)
    if crow:
        _, r, _ = core.run_harness(bindir, "c25", ["replay"], stdin="".join(f"{a}\t{b}\n" for a, b in crow))
        rows += r
    rc, r, err = core.run_harness(bindir, "c25", ["gen", "--seed", str(ctx.seed), "--n", str(n), "--tier", ctx.tier])
    rows += r
    if rc != 0:
        ctx.violation({"kind": "harness-run-failed", "stderr": err[-3000:]}, no_input=True)
    done = [x for x in rows if x[2] != "?"]
    pending = [(x[0], x[1]) for x in rows if x[2] == "?"]
    # ---- stage 2: Python end under the interpreters
    vers = list(core.PYTHONS) if thorough else ["3.7", "3.11", "3.13"]
    py_counts = {}
    chain_rrx = []
    for vi, ver in enumerate(vers):
        # quick: every interpreter runs the corpus, the chains and a third of the generated Python cases (3.11 runs all)
        sel = [p for i, p in enumerate(pending) if thorough or ver == "3.11" or not p[0].startswith("g") or i % 3 == vi % 3]
        prc, prow, perr = run_python_rows(ver, sel)
        if prc != 0:
            ctx.violation({"kind": "python-helper-failed", "python": ver, "stderr": perr[-2000:],
                           "what": "py/c25_fake_socket.py could not load or run the MessageStream class of repl_server.py"}, no_input=True)
        py_counts[ver] = len(prow)
        for x in prow:
            if x[2] == "?":
                if ver == "3.11":
                    chain_rrx.append((x[0], x[1]))
            else:
                done.append([x[0] + "@" + ver, x[1], x[2]])
    # ---- stage 2b: the pinned-commit Python end against the legacy model (keeps the witnesses tied to what the code was)
    pinned = pinned_server_py(ctx)
    legacy_rows = 0
    if pinned:
        sel = [(a, to_legacy(b)) for a, b in pending[:400] if b.startswith("(prx ") or b.startswith("(ptx ")]
        sel.append(("legacy-witness", '(prx-legacy (wire "0600087072696e742831290600087072696e74283229") (rsched 2 8 3 8) (n 2))'))
        # the helper dispatches on ptx/prx: strip the suffix for it, put it back for the driver
        prc, prow, _ = run_python_rows("3.11", [(a, b.replace("-legacy", "", 1)) for a, b in sel], script=pinned)
        for x in prow:
            if x[2] != "?":
                done.append(["L:" + x[0], to_legacy(x[1]), x[2]])
                legacy_rows += 1
    # ---- stage 3: Rust receiver on the bytes Python really wrote
    if chain_rrx:
        _, r, _ = core.run_harness(bindir, "c25", ["replay"], stdin="".join(f"{a}\t{b}\n" for a, b in chain_rrx))
        done += r
    # ---- model
    res = core.Result()
    if os.path.exists(os.path.join(core.LEAN, ".lake", "build", "bin", "ergmodel_c25")):
        mrc, mrows, merr = core.run_model(prop, done)
        res = core.compare(done, mrows, {e["id"] for e in ctx.known_findings()})
        if mrc != 0:
            ctx.violation({"kind": "model-driver-failed", "stderr": merr[-3000:]}, no_input=True)
        bad = [m for m in mrows if m[1] == "bad-input"]
        if bad:
            ctx.violation({"kind": "driver-rejected-input", "ids": [b[0] for b in bad[:10]]}, no_input=True)
    # ---- coverage
    seen, nt, kinds, sizes = set(), 0, {}, {"<=12": 0, "13..2000": 0, "65534..65535": 0, ">65535": 0}
    for x in done:
        k = kind_of(x[1])
        kinds[k] = kinds.get(k, 0) + 1
        if x[1] not in seen:
            seen.add(x[1])
            if nontrivial(x):
                nt += 1
            reps = [int(v) for v in re.findall(r"\(rep (\d+) ", x[1])]
            big = max(reps) if reps else 0
            sizes[">65535" if big > 65535 else "65534..65535" if big >= 65000 else "13..2000" if big > 12 else "<=12"] += 1
    ctx.cov["evaluations"] = len(done)
    ctx.cov["distinct_nontrivial"] = nt
    ctx.cov["traces_validated_against_impl"] = res.agree
    ctx.cov["samples"] = [{"input": x[1][:300], "impl": x[2][:300]} for x in done[:2] + done[len(done)//3:len(done)//3+2] + done[-2:]]
    ctx.cov["case_kinds"] = kinds
    ctx.cov["payload_size_classes"] = sizes
    ctx.cov["python_rows"] = py_counts
    ctx.cov["chain_rows_py_to_rust"] = len(chain_rrx)
    ctx.cov["chain_rows_rust_to_py"] = len([x for x in done if x[0].startswith("c:g") and "(prx " in x[1]])
    ctx.cov["legacy_rows_against_pinned_commit"] = legacy_rows
    extra.update({"disagreements": len(res.disagree), "spec_violations": len(res.spec_viol), "in_known_class": len(res.known),
                  "out_of_model": res.out_of_model, "corpus_cases": len(crow)})
    # ---- end to end
    e2e = []
    e2e_bad = None
    hists = list(E2E_THOROUGH if thorough else E2E_QUICK)
    if thorough:
        import random
        rnd = random.Random(ctx.seed)
        pool_out = [0, 1, 2, 100, 255, 256, 1000, 20000, 65000, 65526, 65527]
        pool_src = [0, 1, 100, 3000, 12000, 15000]
        for _ in range(20):
            steps = []
            for _ in range(rnd.randint(2, 9)):
                steps.append("out:%d" % rnd.choice(pool_out) if rnd.random() < 0.7 else "src:%d" % rnd.choice(pool_src))
            hists.append((rnd.choice(list(core.PYTHONS)[:5]), steps))      # 3.7 .. 3.11: the code generator's targets
    for ver, steps in hists:
        r = run_e2e(bindir, ver, steps)
        e2e.append(r)
        okl = [l for l in r["lines"] if l.endswith("\tok")]
        if not (r["done"] and len(okl) == len(steps)) and e2e_bad is None:
            # one retry: server start-up on a loaded machine (connection retries, 10 s read time-out)
            r2 = run_e2e(bindir, ver, steps)
            e2e.append(r2)
            okl2 = [l for l in r2["lines"] if l.endswith("\tok")]
            if not (r2["done"] and len(okl2) == len(steps)):
                e2e_bad = r2
    ctx.cov["e2e_histories"] = [{"py": r["py"], "steps": r["steps"], "ok_steps": len([l for l in r["lines"] if l.endswith("\tok")]),
                                 "done": r["done"], "wall_s": r["wall_s"]} for r in e2e]
    if e2e_bad:
        ctx.violation({"kind": "end-to-end-history-out-of-step", "what": "DummyVM::eval against a real repl_server.py process: a result does not "
                       "answer its input (or the REPL died) on a history whose scripts and outputs all fit the size field",
                       "python": e2e_bad["py"], "steps": e2e_bad["steps"], "lines": e2e_bad["lines"], "stderr_tail": e2e_bad["stderr_tail"],
                       "input": "e2e --py " + e2e_bad["py"] + " " + " ".join(e2e_bad["steps"])})
    # ---- known findings
    for e in ctx.known_findings():
        hits = [k for k in res.known if k[5] == e["id"]]
        wit = [k for k in hits if k[0].split("@")[0] == "k:" + e["id"]]
        e2e_k = []
        if e["id"] == FINDING_BIG:
            for ver, steps, what in E2E_KNOWN[: (2 if thorough else 1)]:
                r = run_e2e(bindir, ver, steps, timeout=90)
                okl = [l for l in r["lines"] if l.endswith("\tok")]
                e2e_k.append({"steps": steps, "what": what, "ok_steps": len(okl), "done": r["done"], "lines": [l[:200] for l in r["lines"]],
                              "stderr_tail": r["stderr_tail"][-200:]})
            ctx.cov["e2e_known_finding"] = e2e_k
        if wit:
            tail = ""
            if e2e_k:
                k0 = e2e_k[0]
                tail = f"; end to end {k0['steps']}: {k0['ok_steps']} of {len(k0['steps'])} results in step, REPL {'survived' if k0['done'] else 'died'}"
            ctx.print_known(e, f"{e.get('summary', '')} [witness {wit[0][1][:100]} still fails as the model predicts; {len(hits)} case(s) of this class in this run{tail}]")
        elif hits:
            ctx.print_known(e, f"{e.get('summary', '')} [{len(hits)} case(s) of this class in this run]")
    # ---- verdict
    if res.spec_viol:
        # prefer a failing input outside the recorded class, and a short one
        known_ids = {e["id"] for e in ctx.known_findings()}
        res.spec_viol.sort(key=lambda x: (x[5] in known_ids, len(x[1])))
        v = shrink(ctx, res.spec_viol[0], bindir) or res.spec_viol[0]
        ctx.violation({"kind": "implementation-violates-spec", "case_id": v[0], "input": v[1], "impl": v[2], "model": v[3], "spec": v[4],
                       "inK": v[5], "others": [x[1][:2000] for x in res.spec_viol[1:6]],
                       "model_disagreements": [list(x)[:4] for x in res.disagree[:5]]})
    elif res.disagree or (not proof["ok"] and not table_reported):
        found = search_more(ctx, res, bindir)
        if found:
            ctx.violation(found)
        else:
            ctx.violation({"kind": "no-longer-shown", "what": "a proof obligation or the model/implementation correspondence no longer checks; "
                           "no input on which the implementation violates the specification was found",
                           "proof_problems": proof["problems"], "build_log_tail": proof["log"][-3000:] if not proof["ok"] else "",
                           "correspondence_disagreements": [dict(id=x[0], input=x[1][:4000], impl=x[2], model=x[3]) for x in res.disagree[:10]]},
                          no_input=True)
    ctx.write_evidence(proof["obligations"], proof["discharged"], checker_cmd, extra, trusted)
    ctx.finish()


# ------------------------------------------------------------------------------------------------- search / shrink

def eval_rows(bindir, rows):
    """(id, input) rows of any kind -> compare() result, running whichever end the case needs (Python 3.11)"""
    _, r, _ = core.run_harness(bindir, "c25", ["replay"], stdin="".join(f"{a}\t{b}\n" for a, b in rows))
    done = [x for x in r if x[2] != "?"]
    pend = [(x[0], x[1]) for x in r if x[2] == "?"]
    if pend:
        _, prow, _ = run_python_rows("3.11", pend)
        done += [x for x in prow if x[2] != "?"]
    _, mrows, _ = core.run_model(PROP, done)
    return done, mrows


def shrink(ctx, v, bindir):
    """shorten the schedule of a failing case while it keeps failing the specification"""
    cid, inp = v[0].split("@")[0], v[1]
    m = re.search(r"\((rsched|wsched) ([0-9 ]*)\)", inp)
    if not m:
        return None
    sched = m.group(2).split()
    best = None
    for _ in range(40):
        cands = [sched[:i] + sched[i + 1:] for i in range(len(sched))] + [sched[:i] + ["1"] + sched[i + 1:] for i in range(len(sched)) if sched[i] != "1"]
        progressed = False
        for k, c in enumerate(cands[:24]):
            ninp = inp[:m.start(2)] + " ".join(c) + inp[m.end(2):]
            done, mrows = eval_rows(bindir, [("s", ninp)])
            res = core.compare(done, mrows, {e["id"] for e in ctx.known_findings()})
            if res.spec_viol:
                x = res.spec_viol[0]
                best = (cid + "-shrunk", x[1], x[2], x[3], x[4], x[5])
                sched, inp = c, ninp
                m = re.search(r"\((rsched|wsched) ([0-9 ]*)\)", inp)
                progressed = True
                break
        if not progressed:
            break
    return best


def search_more(ctx, res, bindir):
    """model and implementation disagree (or a proof broke) without a spec violation among the generated cases: look for an
    input on which the implementation violates the specification - around the disagreeing cases (same wire, every single-size
    schedule and the classic splits), and on a fixed battery of two-message streams under every schedule of up to 3 entries from {1,2,3,8}"""
    cands = []
    for x in res.disagree[:20]:
        inp = x[1]
        m = re.search(r"\((rsched|wsched) ([0-9 ]*)\)", inp)
        if not m:
            continue
        for sch in (["1"] * 30, ["2"] * 20, ["3"] * 12, ["2", "8", "3", "8"], [], ["1", "2", "65535"]):
            ninp = inp[:m.start(2)] + " ".join(sch) + inp[m.end(2):]
            if "(sent " in ninp or ninp.startswith("(rtx") or ninp.startswith("(ptx"):
                cands.append((f"near-{x[0]}-{len(cands)}", ninp))
    msgs = [(6, "7072696e74283129"), (1, ""), (3, "53797374656d45786974")]
    wire_r = "".join("%02x%04x%s" % (i, len(d) // 2, d) for i, d in msgs)
    sent = " ".join('(%d "%s")' % (i, d) for i, d in msgs)
    vals = ["1", "2", "3", "8"]
    scheds = [[]] + [[a] for a in vals] + [[a, b] for a in vals for b in vals] + [[a, b, c] for a in vals for b in vals for c in vals]
    for k, sch in enumerate(scheds):
        for kind in ("prx", "rrx"):
            cands.append((f"bat-{kind}-{k}", f'({kind} (wire "{wire_r}") (rsched {" ".join(sch)}) (n 3) (sent {sent}))'))
        cands.append((f"bat-rtx-{k}", f'(rtx (inst 6) (data "7072696e74283129") (wsched {" ".join(sch)}))'))
        cands.append((f"bat-ptx-{k}", f'(ptx (inst 1) (text "68656c6c6f") (wsched {" ".join(sch)}))'))
    done, mrows = eval_rows(bindir, cands)
    r2 = core.compare(done, mrows, {e["id"] for e in ctx.known_findings()})
    if r2.spec_viol:
        r2.spec_viol.sort(key=lambda x: len(x[1]))
        v = shrink(ctx, r2.spec_viol[0], bindir) or r2.spec_viol[0]
        return {"kind": "implementation-violates-spec", "found_by": "search around the disagreeing cases / fixed battery", "case_id": v[0],
                "input": v[1], "impl": v[2], "model": v[3], "spec": v[4], "inK": v[5],
                "model_disagreements": [list(x)[:4] for x in res.disagree[:5]]}
    return None


# ------------------------------------------------------------------------------------------------- replay

def replay(ctx, path):
    rp = json.load(open(path))
    ok_h, hlog, bindir = core.cargo_build(["c25"])
    core.lake_build(["ergmodel_c25"])
    if rp.get("kind") == "inst-table-mismatch":
        rows = table_mismatch(regen_inst_tables())
        print(json.dumps(rows, indent=1))
        print("still failing" if rows else "no longer failing")
        sys.exit(1 if rows else 0)
    if rp.get("kind") == "end-to-end-history-out-of-step":
        r = run_e2e(bindir, rp["python"], rp["steps"])
        print("\n".join(r["lines"]))
        bad = not (r["done"] and all(l.endswith("\tok") for l in r["lines"]) and len(r["lines"]) == len(rp["steps"]))
        print("still failing" if bad else "no longer failing")
        sys.exit(1 if bad else 0)
    cases = []
    if "input" in rp:
        cases.append((rp.get("case_id", "r0").split("@")[0], rp["input"]))
    for i, o in enumerate(rp.get("others", [])):
        cases.append((f"o{i}", o))
    for i, d in enumerate(rp.get("correspondence_disagreements", [])):
        cases.append((d.get("id", f"d{i}").split("@")[0], d["input"]))
    if not cases:
        print("replay file names no input:", json.dumps(rp.get("proof_problems", rp.get("what", "")))[:2000])
        sys.exit(1)
    done, mrows = eval_rows(bindir, cases)
    res = core.compare(done, mrows, {e["id"] for e in ctx.known_findings()})
    mm = {m[0]: m for m in mrows}
    for r_ in done:
        m_ = mm.get(r_[0], ["", "", "", ""])
        print("input:", r_[1][:1000])
        print("  impl :", r_[2][:1000])
        print("  model:", m_[1][:1000])
        print("  spec :", m_[2], " inK:", m_[3])
    bad = len(res.disagree) + len(res.spec_viol)
    print("still failing" if bad else "no longer failing")
    sys.exit(1 if bad else 0)
