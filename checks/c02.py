"""C02 — type-checked programs do not fail with run-time type errors (partial: inference is not transcribed).

Lean: `C02_sound` — type soundness of a specification-level type system for the Nat/Int/Bool expression fragment against the
runtime-class model of C26 (method tables regenerated from _erg_*.py) plus the code generator's use-site wrap, by induction
resting on one row lemma per operator signature (`C02_row_sound`); `gen_sig_subset` ties the operator signatures REGENERATED
from the real checker (harness `c26 dump`) to the hand-written table, the unsound `**` rows being recorded.
Tie (verdict correspondence), three streams run through the real checker and the produced bytecode:
  frag  expression programs over annotated Nat/Int/Bool variables: checker verdict and run-time outcome must equal the Lean
        model's (typeOf/eval with the regenerated signatures), and an accepted program must not end in a type-related error;
  rows  one operator application per declared signature row of ALL classes (Float, Str, mutable variants): executed only;
  enum  literal integer enums with mixed signs in both orders (list literals, if-expressions, for-loops): the selected member must
        be printed unchanged (expected output computed from the literals), no type-related error;
  gen   programs of the shared fragment generator (functions, lists, loops, method calls): executed only.
An accepted program ending in TypeError/AttributeError/NameError/wrapper ValueError is a violation unless it falls in the class
of a recorded finding; ZeroDivisionError, IndexError, AssertionError, SystemExit are legitimate."""
import json
import os
import re

from vlib import core
from vlib import fraggen, fragrun
from checks import c26

PROP = "C02"
MANIFEST_ENTRY = {
    "level_claimed": {"category": "proof",
        "text": "Lean type-soundness theorem (induction over expressions, one lemma per operator row, all integer values) for a "
                "specification-level type system of the Nat/Int/Bool operator fragment whose operator signatures are regenerated from the "
                "real checker, evaluated on the runtime-class model regenerated from _erg_*.py plus the code generator's use-site wrap; "
                "the real checker is tied by the signature-subset obligation and by verdict correspondence on generated programs."},
    "level_note": "PARTIAL: the inference engine (lower.rs/inquire.rs/compare.rs) is not transcribed; the theorem is about the spec type system of "
                  "a small fragment (no functions, lists, floats, strings, mutable values) and rests on C26's dispatch model (validated "
                  "differentially). Programs outside the fragment (row stream over all builtin classes, shared generator) are only executed. "
                  "The checker's `Int ** Int: Nat` rows are unsound and recorded (machine-checked witness).",
    "technique": "Lean 4 proof (row soundness by static plan check + induction) over regenerated signature/method tables + verdict correspondence",
}

GEN_SIG = os.path.join(core.LEAN, "ErgVerif", "Gen", "C02Sig.lean")
TY = {"Nat": ".Nat", "Int": ".Int", "Bool": ".Bool"}
TYPE_ERR = ("TypeError", "AttributeError", "NameError", "ValueError", "UnboundLocalError")
LEGIT = ("ZeroDivisionError", "IndexError", "AssertionError", "SystemExit", "KeyError", "OverflowError")
SYM = {"add": "+", "sub": "-", "mul": "*", "truediv": "/", "floordiv": "//", "mod": "%", "pow": "**", "eq": "==", "ne": "!=",
       "lt": "<", "le": "<=", "gt": ">", "ge": ">="}
NAT_POOL = [0, 1, 2, 3, 5, 7, 10, 255, 65536, 2**31 - 1, 2**31, 2**32, 2**63, 2**64 - 1]   # Nat literals are u64
INT_POOL = [-1, -2, -3, -7, -10, -255, -65536, -(2**31) + 1, -(2**30), 0, 1, 2, 7]   # negative Int literals are i32


def regen_sig(decl):
    rows = []
    for k, res in sorted(decl.items()):
        kind, op, a, b = k.split(" ")
        if kind == "bin" and op in c26.LEAN_OPS and a in TY and b in TY and res in TY:
            rows.append("  (.%s, %s, %s, %s)" % (op, TY[a], TY[b], TY[res]))
    text = ("/- GENERATED on every run by checks/c02.py from the real checker (harness `c26 dump`): operator signatures on the fragment types\n"
            "   Nat/Int/Bool. Never edit by hand. -/\nimport ErgVerif.C02.Model\nnamespace ErgVerif.Gen.C02\nopen ErgVerif.C26 ErgVerif.C02\n\n"
            "def binopSig : List SigRow := [\n%s\n]\n\nend ErgVerif.Gen.C02\n" % ",\n".join(rows))
    return len(rows), c26.write_if_changed(GEN_SIG, text)


# ------------------------------------------------------------------------------------------------ generators

def lit_erg(ty, v):
    if ty == "Bool":
        return "True" if v else "False"
    return str(v) if v >= 0 else "(%d)" % v


def gen_value(rng, ty, small=False):
    if ty == "Bool":
        return rng.below(2)
    if ty == "Nat":
        return rng.pick(NAT_POOL[:7] if small else NAT_POOL)
    return rng.pick(INT_POOL[:5] + INT_POOL[-4:] if small else INT_POOL + NAT_POOL[:6])


def gen_frag(rng, decl, idx):
    """(id, input s-expression, erg source): 2-4 annotated variables, one printed operator expression, type-directed from the
    checker's own signature table so that most programs are accepted; a fifth are deliberately ill-typed or use `**`."""
    nv = 2 + rng.below(3)
    tys = [rng.pick(["Nat", "Int", "Int", "Bool", "Nat"]) for _ in range(nv)]
    vals = [gen_value(rng, t) for t in tys]
    powmode = rng.chance(1, 6)

    def sig(op, a, b):
        r = decl.get("bin %s %s %s" % (op, a, b), "-")
        return None if r == "-" else r

    def expr(depth, want=None):
        """returns (sexp, erg, type or None)"""
        if depth == 0 or rng.chance(1, 4):
            if rng.chance(1, 6):
                t = rng.pick(["Nat", "Int"])
                v = gen_value(rng, t, small=True)
                if t == "Nat" or v >= 0:
                    t = "Nat"
                return "(lit %s %d)" % (t, v), lit_erg(t, v), t
            i = rng.below(nv)
            return "(var %d)" % i, "v%d" % i, tys[i]
        ops = ["add", "sub", "mul", "floordiv", "mod", "eq", "ne", "lt", "le", "gt", "ge", "add", "mul", "sub"]
        if powmode:
            ops = ["pow", "pow", "add", "mul"]
        op = rng.pick(ops)
        ls, le, lt = expr(depth - 1)
        rs, re_, rt = expr(depth - 1)
        if op == "pow":
            # keep the exponent small: a literal or a small variable
            e = rng.pick([0, 1, 2, 3, 5])
            rs, re_, rt = "(lit Nat %d)" % e, str(e), "Nat"
            if rng.chance(1, 2):
                cands = [i for i in range(nv) if tys[i] in ("Nat", "Int") and abs(vals[i]) <= 7]
                if cands:
                    i = rng.pick(cands)
                    rs, re_, rt = "(var %d)" % i, "v%d" % i, tys[i]
            if lt is not None and isinstance(lt, str):
                pass
        t = sig(op, lt, rt) if lt and rt else None
        return "(bin %s %s %s)" % (op, ls, rs), "(%s %s %s)" % (le, SYM[op], re_), t

    s, e, _ = expr(1 + rng.below(3))
    if powmode:
        # bases of ** small as well
        vals = [v if abs(v) <= 10 else (v % 7) * (1 if v > 0 else -1) for v in vals]
        vals = [abs(v) if t == "Nat" else v for v, t in zip(vals, tys)]
    env = " ".join("(%s %d)" % (t, v) for t, v in zip(tys, vals))
    src = "".join("v%d: %s = %s\n" % (i, t, lit_erg(t, v)) for i, (t, v) in enumerate(zip(tys, vals)))
    src += "print! %s\n" % e
    return "f%d" % idx, "(prog (env %s) %s)" % (env, s), src


MUT_LIT = {"Nat!": lambda v: "!%d" % abs(v), "Int!": lambda v: "!(%d)" % (-abs(v) - 1), "Bool!": lambda v: "!True" if v % 2 else "!False",
           "Float!": lambda v: "!%s.5" % abs(v), "Str!": lambda v: '!"s%d"' % abs(v)}


def row_operand(rng, cls, name):
    """(definition line, printable description) of a variable of the class"""
    v = rng.pick([0, 1, 2, 3, 5, 7, 10, 255])
    if cls in MUT_LIT:
        return "%s = %s\n" % (name, MUT_LIT[cls](v))
    if cls == "Nat":
        return "%s: Nat = %d\n" % (name, v)
    if cls == "Int":
        return "%s: Int = %s\n" % (name, lit_erg("Int", rng.pick([-1, -2, -7, -10, 3, 0, -255])))
    if cls == "Bool":
        return "%s: Bool = %s\n" % (name, "True" if v % 2 else "False")
    if cls == "Float":
        return "%s: Float = %s\n" % (name, rng.pick(["0.0", "1.5", "2.25", "0.5", "100.0"]))
    if cls == "Str":
        return '%s: Str = "%s"\n' % (name, rng.pick(["", "a", "abc", "x y"]))
    return None


def gen_rows(rng, decl, n, start):
    keys = sorted(k for k, r in decl.items() if r != "-" and k.startswith("bin "))
    out = []
    for j in range(n):
        k = keys[(start + j * 37) % len(keys)] if j % 2 == 0 else rng.pick(keys)
        _, op, a, b = k.split(" ")
        da, db = row_operand(rng, a, "a"), row_operand(rng, b, "b")
        if da is None or db is None:
            continue
        if op == "pow":
            db = "b: Nat = %d\n" % rng.pick([0, 1, 2, 3]) if b in ("Nat", "Int") else db
        src = da + db + "print! (a %s b)\n" % SYM[op]
        out.append(("r%d" % j, '(row %s %s %s)' % (op, c26_quote(a), c26_quote(b)), src))
    return out


ENUM_POOL = [0, 1, 2, 3, 5, 7, 255, 65536, -1, -2, -7, -255, -65536]


def gen_enum(rng, idx):
    """literal integer enums with mixed signs in both orders (list literals, if-expressions at top level and in a function, a
    for-loop over a list literal), each member selected in some program; optionally `+ k` / `* k` on the selected value.
    returns (id, input, source, expected stdout)"""
    n = 2 + rng.below(2)
    vals = [rng.pick(ENUM_POOL) for _ in range(n)]
    if rng.chance(2, 3):
        # force a mixed-sign enum; the order (non-negative first / negative first) is random
        vals[0] = rng.pick([0, 1, 3, 7, 255])
        vals[1] = rng.pick([-1, -2, -7, -255])
        if rng.chance(1, 2):
            vals[0], vals[1] = vals[1], vals[0]
    lit = lambda v: str(v)
    shape = rng.pick(["if-top", "if-func", "list-index", "list-for", "if-arith", "list-arith"])
    if shape.startswith("if"):
        vals = vals[:2]
        c = rng.below(2)
        pick = vals[0] if c else vals[1]
        cs = "True" if c else "False"
        if shape == "if-top":
            src = "c = %s\nx = if(c, do(%s), do(%s))\nprint! x\n" % (cs, lit(vals[0]), lit(vals[1]))
            exp = [pick]
        elif shape == "if-func":
            src = "pick(c: Bool) = if c, do %s, do %s\nprint! pick(%s)\nprint! pick(%s)\n" % (lit(vals[0]), lit(vals[1]), cs, "False" if c else "True")
            exp = [pick, vals[1] if c else vals[0]]
        else:
            k = rng.pick([0, 1, 2, 10])
            op = rng.pick(["+", "*"])
            src = "c = %s\nx = if(c, do(%s), do(%s))\nprint! (x %s %d)\n" % (cs, lit(vals[0]), lit(vals[1]), op, k)
            exp = [pick + k if op == "+" else pick * k]
    else:
        i = rng.below(len(vals))
        ls = "[" + ", ".join(lit(v) for v in vals) + "]"
        if shape == "list-index":
            src = "xs = %s\nprint! xs[%d]\n" % (ls, i)
            exp = [vals[i]]
        elif shape == "list-for":
            src = "xs = %s\nfor! xs, x =>\n    print! x\n" % ls
            exp = list(vals)
        else:
            k = rng.pick([0, 1, 2, 10])
            src = "xs = %s\nf(i: Int): Int = i * %d\nprint! f(xs[%d])\n" % (ls, k, i)
            exp = [vals[i] * k]
    return "e%d" % idx, "(enum %s (%s))" % (shape, " ".join(str(v) for v in vals)), src, "\\n".join(str(v) for v in exp)


def c26_quote(s):
    return '"' + s + '"'


def known_class(kind, inp, src, exc, stderr=""):
    """id of the recorded C02 finding an accepted program ending in a type-related error falls in (row stream / generator stream):
    a structural feature of the program AND the failure signature"""
    if kind == "gen":
        feats = inp[1:-1].split(" ")[1:]
        if "enum-minus" in feats and exc == "ValueError" and "Nat can't be negative" in stderr:
            return "C02-enum-minus-inferred-nat"
        return None
    if kind == "row":
        m = re.match(r'^\(row (\S+) "([^"]+)" "([^"]+)"\)$', inp)
        if not m:
            return None
        op, a, b = m.groups()
        if exc == "TypeError" and "Str!" in (a, b):
            return "C02-strmut-missing-operators"
        if exc == "TypeError" and not a.endswith("!") and b.endswith("!") and op in ("add", "sub", "mul", "floordiv", "truediv"):
            return "C02-imm-op-mut-typeerror"
        if exc == "ValueError" and op in ("add", "mul", "truediv", "pow") and (a in ("Nat!", "Bool!") or (b in ("Nat!", "Bool!") and op in ("add", "mul"))):
            return "C02-natmut-rewrap"
        if exc == "ValueError" and op == "pow":
            return "C02-int-pow-declared-nat"
        if exc == "TypeError" and op == "pow" and ("Float" in (a, b) or "Float!" in (a, b)) and re.search(r"^a.*= *\(?-", src):
            return "C02-pow-complex-result"
    return None


# ------------------------------------------------------------------------------------------------ run

def canon_impl(r):
    cls = r["erg_class"]
    if cls == "ok":
        return "ok " + r["erg_out"].strip().replace("\n", "\\n")
    if cls.startswith("runtime-exc:"):
        return "exc:" + cls.split(":", 1)[1]
    if cls in ("rejected", "crash"):
        # `crash` = a compiler-bug diagnostic or a panic while checking: the program was not accepted (C07's subject, counted apart)
        return "rejected"
    return "other(" + cls + ")"


def run(ctx, replay_cases=None):
    nf, nr, ng = (900, 900, 300) if ctx.tier == "thorough" else (90, 70, 20)
    ne = 400 if ctx.tier == "thorough" else 48
    expected = {}
    ctx.cov["rule"] = ("frag: 2-4 annotated Nat/Int/Bool variables with boundary-pool values (negative, mixed sign, >= 2^31, 2^63, 10^20) and one "
                       "printed operator expression of depth 1-3 built type-directed from the checker's own signature table (1/6 with `**`); "
                       "rows: one operator application per declared signature row over all 10 builtin classes incl. mutable; gen: shared "
                       "fragment generator; non-trivial = accepted by the checker and containing an operator; distinct by input")
    ctx.assumptions = ["a program 'type-checks' when `erg compile` exits 0 and writes the .pyc; it is then run with python3.11",
                       "use-site wrapping as emitted by the code generator (should_wrap) is part of the evaluator of the theorem"]
    ok_h, hlog, bindir = core.cargo_build(["c26"])
    checker_cmd = "cd lean && lake build ErgVerif.C02.Props ergmodel_c02 && lake env lean Audit/C02.lean"
    dsum, err = (None, hlog) if not ok_h else c26.regen_declared(ctx, bindir)
    if dsum is None:
        proof = core.proof_stage(ctx, PROP, ["ErgVerif.C02.Props"])
        ctx.violation({"kind": "generator-failed", "what": "harness `c26 dump` failed; the signature table cannot be regenerated", "log": err[-3000:]},
                      no_input=True)
        ctx.write_evidence(proof["obligations"], 0, checker_cmd, {}, [])
        ctx.finish()
    decl = dsum.pop("table")
    nrows, sha = regen_sig(decl)
    proof = core.proof_stage(ctx, PROP, ["ErgVerif.C02.Props", "ergmodel_c02"])
    if not proof["ok"]:
        core.lake_build(["ergmodel_c02"])
    ok_e, elog, erg = core.erg_binary()
    if not ok_e:
        ctx.violation({"kind": "erg-build-failed", "log": elog}, no_input=True)
        ctx.write_evidence(proof["obligations"], proof["discharged"], checker_cmd, {}, [])
        ctx.finish()
    rng = fraggen.Rng(ctx.seed * 7919 + 17)
    cases = []      # (id, input, source, kind)
    if replay_cases is not None:
        cases = replay_cases
    else:
        for cid, inp in core.corpus_rows(PROP):
            src = json.loads(inp[inp.index("(src ") + 5:-1]) if inp.startswith("(src ") else None
            if src is not None:
                cases.append((cid, inp, src, "src"))
        corp = os.path.join(core.VERIF, "corpus", PROP, "frag.json")
        if os.path.exists(corp):
            for c in json.load(open(corp)):
                cases.append((c["id"], c["input"], c["src"], c.get("kind", "frag")))
                if "expect" in c:
                    expected[c["id"]] = c["expect"]
        for i in range(nf):
            cid, inp, src = gen_frag(rng, decl, i)
            cases.append((cid, inp, src, "frag"))
        for cid, inp, src in gen_rows(rng, decl, nr, ctx.seed * 101):
            cases.append((cid, inp, src, "row"))
        for i in range(ne):
            cid, inp, src, exp = gen_enum(rng, i)
            cases.append((cid, inp, src, "enum"))
            expected[cid] = exp
        for pid, prog, feats in fragrun.gen_programs(ctx.seed + 4242, ng, zero_div=True):
            feats = sorted(set(feats) | fraggen.tree_features(prog))
            cases.append(("g" + pid, "(gen %s)" % " ".join(feats), fraggen.to_erg(prog), "gen"))
    res = fragrun.run_programs([(c[0], c[2], None) for c in cases], erg, jobs=10)
    # a loaded machine makes `erg compile` exceed the per-program timeout now and then: retry those alone, then leave them out
    late = [i for i, r in enumerate(res) if r["erg_class"] == "timeout"]
    if late:
        again = fragrun.run_programs([(cases[i][0], cases[i][2], None) for i in late], erg, jobs=2)
        for i, r in zip(late, again):
            res[i] = r
    inconclusive = [i for i, r in enumerate(res) if r["erg_class"] == "timeout"]
    if inconclusive:
        keep = [i for i in range(len(cases)) if i not in set(inconclusive)]
        cases = [cases[i] for i in keep]
        res = [res[i] for i in keep]
    rows = [(c[0], c[1], canon_impl(r)) for c, r in zip(cases, res)]
    r_res = {c[0]: r["erg_class"] for c, r in zip(cases, res)}
    r_err = {c[0]: r.get("erg_err", "") for c, r in zip(cases, res)}
    known_ids = {e["id"] for e in ctx.known_findings()}
    mrc, mrows, merr = core.run_model(PROP, rows)
    cmp_ = core.compare(rows, mrows, known_ids)
    if mrc != 0:
        ctx.violation({"kind": "model-driver-failed", "stderr": merr[-3000:]}, no_input=True)
    # executed-only streams: python-side verdict
    srcs = {c[0]: c for c in cases}
    py_viol, py_known, verd = [], [], {}
    mmap = {m[0]: m for m in mrows}
    for (cid, inp, impl), c in zip(rows, cases):
        kind = c[3]
        key = kind + ":" + (impl.split(" ")[0] if not impl.startswith("exc:") else impl)
        if r_res[cid] == "crash":
            key = kind + ":checker-crash(counted as rejected)"
        verd[key] = verd.get(key, 0) + 1
        if kind == "frag":
            # fragment rows the Lean model leaves (float result of `**`): still judged, with the driver's class column
            m_ = mmap.get(cid)
            if m_ and m_[1].startswith("out-of-model") and impl.startswith("exc:") and impl[4:] in TYPE_ERR:
                k = m_[3] if m_[3] not in ("-", "0", "") else None
                (py_known if k in known_ids else py_viol).append((cid, inp, impl, c[2], k))
            continue
        if impl.startswith("exc:") and impl[4:] in TYPE_ERR:
            k = known_class(kind, inp, c[2], impl[4:], r_err.get(cid, ""))
            (py_known if k in known_ids else py_viol).append((cid, inp, impl, c[2], k))
        elif kind == "enum" and impl != "rejected" and impl != "ok " + expected.get(cid, ""):
            # the selected member of a literal enum must come out unchanged (no class is recorded for this stream)
            py_viol.append((cid, inp, impl + " (expected: ok " + expected.get(cid, "?") + ")", c[2], None))
        elif impl.startswith("crash"):
            pass        # crashes of the checker are C07's subject
    nt = len({r_[1] for r_ in rows if not r_[2].startswith("rejected") and ("bin" in r_[1] or "row" in r_[1] or "gen" in r_[1])})
    ctx.cov.update({"evaluations": len(rows), "distinct_nontrivial": nt, "traces_validated_against_impl": cmp_.agree,
                    "samples": [{"input": r_[1], "impl": r_[2][:200], "source": srcs[r_[0]][2][:300]} for r_ in rows[:2] + rows[len(rows) // 2:len(rows) // 2 + 2]],
                    "outcome_histogram": dict(sorted(verd.items(), key=lambda kv: -kv[1])[:40])})
    extra = {"axioms": proof["axioms"], "theorems": proof["theorems"], "examples": proof["examples"],
             "gen_tables": {"C02Sig.lean": {"rows": nrows, "sha": sha}, "C26 dump": dsum},
             "timeouts_retried": len(late), "timeouts_left_out": len(inconclusive),
             "disagreements": len(cmp_.disagree), "spec_violations": len(cmp_.spec_viol), "in_known_class": len(cmp_.known),
             "executed_only_rows": cmp_.out_of_model, "executed_only_violations": len(py_viol), "executed_only_known": len(py_known)}
    for e in ctx.known_findings():
        hits = [k for k in cmp_.known if k[5] == e["id"]] + [k for k in py_known if k[4] == e["id"]]
        wit = [k for k in hits if k[0] == "k:" + e["id"]]
        if wit:
            ctx.print_known(e, f"{e.get('summary', '')} [witness still fails as recorded; {len(hits)} case(s) of this class in this run]")
        elif hits:
            ctx.print_known(e, f"{e.get('summary', '')} [{len(hits)} case(s) of this class in this run]")
    if len(inconclusive) * 5 > len(cases) + len(inconclusive):
        ctx.violation({"kind": "too-many-timeouts", "left_out": len(inconclusive)}, no_input=True)
    if cmp_.spec_viol:
        v = cmp_.spec_viol[0]
        ctx.violation({"kind": "accepted-program-fails-with-type-error", "case_id": v[0], "input": v[1], "impl": v[2], "model": v[3], "spec": v[4],
                       "inK": v[5], "source": srcs[v[0]][2], "others": [x[1] for x in cmp_.spec_viol[1:6]],
                       "model_disagreements": [list(x) for x in cmp_.disagree[:5]]})
    elif py_viol:
        v = py_viol[0]
        ctx.violation({"kind": "accepted-program-fails-with-type-error", "case_id": v[0], "input": v[1], "impl": v[2], "source": v[3],
                       "others": [x[3] for x in py_viol[1:6]]})
    elif cmp_.disagree or not proof["ok"]:
        ctx.violation({"kind": "no-longer-shown", "what": "a proof obligation (gen_sig_subset: the checker declares an operator signature the "
                       "specification does not know; spec_rows_checked: a row is no longer sound for the regenerated runtime tables) or the "
                       "verdict correspondence no longer checks; no accepted program ending in a type-related error was found in this run",
                       "proof_problems": proof["problems"], "build_log_tail": proof["log"][-3000:] if not proof["ok"] else "",
                       "correspondence_disagreements": [dict(id=x[0], input=x[1], impl=x[2], model=x[3], source=srcs[x[0]][2]) for x in cmp_.disagree[:10]]},
                      no_input=True)
    ctx.write_evidence(proof["obligations"], proof["discharged"], checker_cmd, extra,
                       ["C26's dispatch model and regenerated method tables (validated by C26's tie)",
                        "harness `c26 dump` (operator signatures read from the real checker)",
                        "vlib/fragrun.py (runs `erg compile` + the .pyc, classifies the exception class from the traceback)"])
    ctx.finish()


def replay(ctx, path):
    rp = json.load(open(path))
    cases = []
    if "source" in rp:
        cases.append((rp.get("case_id", "r0"), rp.get("input", "(src)"), rp["source"], "frag" if rp.get("input", "").startswith("(prog") else "row"))
    for d in rp.get("correspondence_disagreements", []):
        cases.append((d["id"], d["input"], d["source"], "frag"))
    if not cases:
        print("replay file names no input:", json.dumps(rp.get("proof_problems", rp.get("what", "")))[:2000])
        raise SystemExit(1)
    ok_e, elog, erg = core.erg_binary()
    core.lake_build(["ergmodel_c02"])
    res = fragrun.run_programs([(c[0], c[2], None) for c in cases], erg, jobs=4)
    rows = [(c[0], c[1], canon_impl(r)) for c, r in zip(cases, res)]
    _, mrows, _ = core.run_model(PROP, rows)
    bad = 0
    for r_, m_, c in zip(rows, mrows, cases):
        print("source:\n" + c[2])
        print("  impl :", r_[2])
        print("  model:", m_[1], " spec:", m_[2], " inK:", m_[3])
        te = r_[2].startswith("exc:") and r_[2][4:] in TYPE_ERR
        if te or (not m_[1].startswith("out-of-model") and m_[1] != r_[2]):
            bad += 1
    print("still failing" if bad else "no longer failing")
    raise SystemExit(1 if bad else 0)
