"""C18 — the JSON transpile target emits valid JSON with the bound values.
Lean: RFC 8259 parser `Json.parse` (spec) + transcription of `JsonGenerator` (`jsonGen`) + theorems in ErgVerif/C18/Props.lean;
tie: T-corr on the emitted text (the real front end builds the HIR, the harness projects it and runs the real JsonGenerator on it),
T-val: Python's json.loads re-parses every emitted text and must agree with `Json.parse`; float literals are executed (bits)."""
import json
import struct

from vlib import core

MANIFEST_ENTRY = {
    "level_claimed": {"category": "proof",
        "text": "Lean theorem C18_full: for every module of constant bindings (integers, floats as grammatical number texts, strings "
                "over all characters, booleans, None, lists, tuples, records, string-keyed dicts; any nesting depth; private bindings "
                "anywhere) the text emitted by the transcribed JsonGenerator parses, with an RFC 8259 parser written in Lean, to exactly "
                "the object that maps each public binding to the value its initialiser spells; the transcription is tied to the Rust "
                "code by a correspondence on the emitted text over HIRs built by the real front end, and the Lean parser is "
                "cross-checked against Python's json.loads on every emitted text."},
    "level_note": "trusted: Lean kernel + {propext, Quot.sound, Classical.choice}; the transcription of JsonGenerator is checked by "
                  "differential runs, not verified; float literals: the theorem treats the value's shortest round-trip text (Rust {:?}) as "
                  "the number, that this text denotes the literal's f64 is executed per case (Python float() bits), not proved; references "
                  "to bound names and folded binary operations are in the model and the tie but outside the theorem (and outside the "
                  "property's quantifier); the literal's value is assumed to be what its token spells (hypothesis litOk, checked on every "
                  "case; it fails for the recorded finding C18-str-quote-trim: ValueObj::from_str mis-trims quotes); type checking of the "
                  "module by the front end is outside the model.",
    "technique": "Lean 4 proof (parser/printer round trip by mutual structural induction, layout-parametrised) + differential "
                 "correspondence on the real HIR + Python json.loads cross-check",
}


def nontrivial(row):
    # a module is non-trivial when it has a container or a string with an escaped character
    return "(list" in row[1] or "(tuple" in row[1] or "(record" in row[1] or "(dict" in row[1] or "\\\\" in row[1]


# ---- Python re-serialisation in the format of Lean's `Json.print` (compact; escapes: \" \\ \n \r \t \u00XX only)

class RawNum:
    def __init__(self, s):
        self.s = s


def esc(s):
    o = []
    for c in s:
        n = ord(c)
        if c == '"':
            o.append('\\"')
        elif c == "\\":
            o.append("\\\\")
        elif c == "\n":
            o.append("\\n")
        elif c == "\r":
            o.append("\\r")
        elif c == "\t":
            o.append("\\t")
        elif n < 32:
            o.append("\\u%04x" % n)
        else:
            o.append(c)
    return '"' + "".join(o) + '"'


def dump(v):
    if v is None:
        return "null"
    if v is True:
        return "true"
    if v is False:
        return "false"
    if isinstance(v, int):
        return str(v)
    if isinstance(v, RawNum):
        return v.s
    if isinstance(v, str):
        return esc(v)
    if isinstance(v, list) and v and isinstance(v[0], tuple) and v[0] and v[0][0] == "\0member":
        return "{" + ",".join(esc(k) + ":" + dump(x) for _, k, x in v) + "}"
    if isinstance(v, list):
        return "[" + ",".join(dump(x) for x in v) + "]"
    if isinstance(v, dict) and not v:
        return "{}"
    raise ValueError(type(v))


def pairs_hook(pairs):
    if not pairs:
        return {}
    return [("\0member", k, x) for k, x in pairs]


def py_parse(text):
    return json.loads(text, object_pairs_hook=pairs_hook, parse_float=RawNum, parse_int=int,
                      parse_constant=lambda s: (_ for _ in ()).throw(ValueError("constant " + s)))


def sexp_unquote(s):
    """inverse of the harness `quote` (\\uXXXX, \\UXXXXXX, \\n \\t \\r, \\x = x)"""
    o, i = [], 0
    while i < len(s):
        c = s[i]
        if c == "\\":
            e = s[i + 1]
            if e == "n":
                o.append("\n")
            elif e == "t":
                o.append("\t")
            elif e == "r":
                o.append("\r")
            elif e == "u":
                o.append(chr(int(s[i + 2:i + 6], 16)))
                i += 4
            elif e == "U":
                o.append(chr(int(s[i + 2:i + 8], 16)))
                i += 6
            else:
                o.append(e)
            i += 2
        else:
            o.append(c)
            i += 1
    return "".join(o)


def quoted_after(s, prefix):
    """the quoted string that follows `prefix` at the start of `s` (raw, still escaped), or None"""
    if not s.startswith(prefix + '"'):
        return None
    i = len(prefix) + 1
    while i < len(s):
        if s[i] == "\\":
            i += 2
            continue
        if s[i] == '"':
            return s[len(prefix) + 1:i]
        i += 1
    return None


def float_checks(inp):
    """every `(lit RatioLit "<token>" (float "<repr>" <bits>))` of the projection: Python reads the token and the repr"""
    import re
    bad = []
    n = 0
    for m in re.finditer(r'\(lit RatioLit "([^"]*)" \(float "([^"]*)" ([0-9a-f]{16})\)\)', inp):
        tok, rep, bits = m.group(1), m.group(2), m.group(3)
        n += 1
        try:
            b_tok = struct.pack(">d", float(tok.replace("_", ""))).hex()
            b_rep = struct.pack(">d", float(rep)).hex()
        except ValueError:
            bad.append((tok, rep, bits, "unreadable"))
            continue
        if b_tok != bits or b_rep != bits:
            bad.append((tok, rep, bits, f"token->{b_tok} repr->{b_rep}"))
    return n, bad


def post(ctx, rows, res, bindir):
    """T-val: json.loads on every emitted text must agree with Lean's Json.parse; float literals executed"""
    _, mrows, _ = core.run_model(ctx.prop, rows)
    m = {r[0]: r for r in mrows}
    agree = rejected_both = 0
    floats = 0
    kinds = {}
    for r in rows:
        cid, inp, impl = r[0], r[1], r[2]
        head = impl.split("(")[1].split(" ")[0].split(")")[0] if "(" in impl else impl[:12]
        kinds[head] = kinds.get(head, 0) + 1
        nf, bad = float_checks(inp)
        floats += nf
        if bad:
            ctx.violation({"kind": "float-literal-not-preserved", "case_id": cid, "input": inp, "impl": impl, "details": bad[:5],
                           "what": "the f64 of a float literal, its token read by Python, or its emitted text read by Python differ"})
            return
        raw = quoted_after(impl, "(ok ")
        if raw is None:
            continue
        text = sexp_unquote(raw)
        try:
            py = dump(py_parse(text))
        except (ValueError, RecursionError) as e:
            py = None
        spec = m.get(cid, ["", "", "", ""])[2]
        lean = None
        for pref in ("ok ", "viol:literal-value-differs-from-token "):
            q = quoted_after(spec, pref)
            if q is not None:
                lean = sexp_unquote(q)
        if spec.startswith("viol:not-json"):
            lean = None
        elif lean is None and not spec.startswith("viol:wrong-value"):
            continue
        if spec.startswith("viol:wrong-value"):
            continue
        if py == lean:
            if py is None:
                rejected_both += 1
            else:
                agree += 1
        else:
            ctx.violation({"kind": "spec-parser-disagrees-with-json.loads", "case_id": cid, "input": inp, "impl": impl,
                           "lean_parse": lean, "python_parse": py,
                           "what": "Json.parse (the Lean specification of JSON) and Python's json.loads disagree on an emitted text"},
                          no_input=False)
            return
    ctx.cov["python_json_loads_agree"] = agree
    ctx.cov["python_and_lean_both_reject"] = rejected_both
    ctx.cov["float_literals_executed"] = floats
    ctx.cov["impl_outcomes"] = kinds


def search_more(ctx, res, proof, bindir):
    """a model/implementation disagreement: look for a case where the implementation's text is not what the module denotes"""
    for (cid, inp, impl, model) in res.disagree:
        raw = quoted_after(impl, "(ok ")
        if raw is None:
            continue
        try:
            py_parse(sexp_unquote(raw))
        except (ValueError, RecursionError):
            return {"kind": "implementation-violates-spec", "case_id": cid, "input": inp, "impl": impl, "model": model,
                    "spec": "json.loads rejects the emitted text"}
    return None


def run(ctx):
    ctx.cov["rule"] = ("modules of 1..6 bindings (public/private mix or all public), initialisers from a type-directed generator: Nat in "
                       "decimal/underscore/0x/0o/0b spellings incl. 2^31..2^64-1, negative Int, floats from a boundary pool, strings over a "
                       "pool of quotes, backslashes, braces, NUL, C0/C1 controls, DEL, BMP/astral, U+2028, BOM; lists, tuples, records, "
                       "string-keyed dicts nested to depth 3 (thorough 4); references to earlier bindings and folded binary operations in the "
                       "mixed modules; non-trivial = has a container or an escaped character")
    ctx.assumptions = ["the module type-checks (modules the front end rejects are counted as out-of-model)",
                       "string literals are single-line literals (the generator writes no triple-quoted literal)",
                       "a float's JSON text is Rust's shortest round-trip repr; that it denotes the literal's f64 is executed with Python, not proved"]
    core.standard_check(ctx, harness_bin="c18", n_quick=260, n_thorough=3000, nontrivial=nontrivial, post=post, search_more=search_more,
                        trusted=["Python json.loads as cross-check of the Lean JSON parser (every emitted text)",
                                 "harness projection of the HIR (token content, literal value, def_loc, visibility) — refuses unknown constructs",
                                 "ValueObj::try_binary results for folded operations are taken from the real code (value arithmetic is C04's)"])


def replay(ctx, path):
    core.standard_replay(ctx, path, "c18")
