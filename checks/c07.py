"""C07 — the checker and code generator never crash on a well-formed program.

Three parts:
 1. Lean (lean/ErgVerif/C07): for the transcribed code generator (C01's stage-1 model) the one reachable crash site
    (`fill_jump`'s `u16::try_from(arg).unwrap()`) is characterised exactly (C07_codegen_total / C07_codegen_crash_iff), the
    static stack counter never takes its `crash()` arm (C07_stack_counter_*), the model machine never gets stuck on
    compiled code (C07_machine_never_stuck).
 2. T-gen: `site_list()` below lists every panic-capable macro/method occurrence in the transcribed functions of
    crates/erg_compiler/codegen.rs (names read from the header of lean/ErgVerif/C01/Model.lean + the helpers they call),
    writes lean/ErgVerif/Gen/C07Sites.lean; `C07_sites_reviewed` proves the generated list equal to the hand-reviewed
    `Spec.sites` (each with its disposition). A new site breaks that one obligation and the replay names it.
 3. Tie (differential; the ONLY evidence for lower.rs / inquire.rs / instantiate.rs / generalize.rs, which have no
    transcription): outcome classes of the real `erg check` / `erg compile` at -o 0..3 on
      W  well-typed programs of vlib/fraggen.py,
      M  the same trees after one typed mutation (swap operand types, drop/add a call argument, rename a reference,
         use an undefined attribute, untyped parameters),
      T  token-level mutations of /repo/tests/should_ok/*.er, /repo/tests/should_err/*.er, /repo/examples/*.er,
      L  layout stress (definitions split over lines after gaps of blank lines);
      K  user-class templates: 2-3 classes sharing method/attribute names, used on receivers of every kind (mostly ill-typed);
    allowed outcomes: success or ordinary diagnostics. Panics, 'this is a bug of the Erg compiler', 'This may be a bug of
    Erg compiler', aborts, stack overflows, timeouts are violations unless they fall in the class of a listed finding
    (failure signature AND structural feature, as in checks/c01.py).
    Stage-1 programs additionally go through the in-process harness `c01` (real front end + real code generator under
    catch_unwind) and the model driver `ergmodel_c07`, which evaluates the theorems' hypotheses/conclusions on the real HIR
    and the real instruction list (model compiles, counter fine, machine not stuck) — `crash(...)` there is a violation.
"""
import json
import os
import re
import time

from vlib import core, fraggen, fragrun

MANIFEST_ENTRY = {
    "level_claimed": {"category": "proof",
        "text": "Partial. Proved in Lean for the transcribed stage-1 code generator (C01's model of codegen.rs, target 3.11): the only "
                "crash site it can reach is fill_jump's u16 conversion, reached exactly when the right operand of an and/or compiles to "
                ">= 131072 bytes; the generator's static stack counter never underflows nor ends above 1; the model machine never gets "
                "stuck on compiled code. Every panic-capable macro occurrence in the transcribed functions is regenerated from the source "
                "on each run and proved equal to a hand-reviewed list with dispositions. For type checking/inference (lower.rs, inquire.rs, "
                "instantiate.rs, generalize.rs), the optimiser and the untranscribed parts of codegen.rs the evidence is differential only: "
                "outcome classes of the real CLI at -o 0..3 on generated well-typed, mutated ill-typed and token-mutated corpus programs."},
    "level_note": "proved: C07_codegen_total, C07_codegen_crash_iff, C07_witness_fill_jump_overflow, C07_stack_counter_expr, "
                  "C07_stack_counter_prog, C07_machine_never_stuck, C07_vmRun_never_stuck, C07_sites_reviewed (T-gen, decide). "
                  "Dispositions `unreachable`/`untranscribed` in Spec.sites are reviewed by hand, not machine-checked. Differential only: "
                  "all of lowering/inference/effect+ownership checks/optimiser, codegen outside stage 1, other targets. Recorded findings: "
                  "see known_findings.json (C07-*).",
    "technique": "Lean 4 crash-site unreachability on the transcribed pass + regenerated site list (T-gen) + differential outcome-class runs of the real CLI",
}

CODEGEN = "crates/erg_compiler/codegen.rs"
# helpers called by the functions named in C01's Model.lean header (closure on the fragment's paths)
HELPERS = ["cur_block", "mut_cur_block", "cur_block_codeobj", "mut_cur_block_codeobj", "toplevel_block", "stack_len", "lasti",
           "write_instr", "write_arg", "write_bytes", "extend_arg", "stack_inc", "stack_dec", "stack_inc_n", "stack_dec_n",
           "register_const", "local_search", "rec_search", "register_name", "select_load_instr", "select_store_instr",
           "emit_load_name_instr", "emit_store_instr", "emit_pop_top", "crash", "emit_def", "emit_push_null", "emit_call_instr",
           "emit_call", "emit_binop_instr", "emit_binop_instr_307", "emit_binop_instr_309", "push_lnotab"]
PATS = [("unwrap", r"\.unwrap\(\)"), ("expect", r"\.expect\("), ("panic", r"\bpanic!"), ("todo", r"\btodo!"),
        ("unreachable", r"\bunreachable!"), ("unimplemented", r"\bunimplemented!"), ("enum_unwrap", r"\benum_unwrap!"),
        ("crash", r"\.crash\("), ("assume_unreachable", r"\bassume_unreachable!"),
        ("debug_assert", r"\bdebug_(?:power_)?assert\w*!"), ("assert", r"(?<![_\w])(?:power_)?assert\w*!"),
        # unsigned subtraction: an overflow check (panic) in the debug build, a wrap-around in release builds
        ("sub", r" -=? ")]


def fn_spans(lines):
    """methods at impl level (4 spaces): name -> (first line, last line), 1-based, in source order"""
    out = {}
    i = 0
    while i < len(lines):
        m = re.match(r"^    (?:#\[[^\]]*\]\s*)?(?:pub(?:\([a-z]+\))? )?fn (\w+)", lines[i])
        if m:
            j = i
            while j < len(lines) and not re.match(r"^    \}\s*$", lines[j]):
                j += 1
            out.setdefault(m.group(1), (i + 1, j + 1))
            i = j
        i += 1
    return out


def strip_rust(l):
    l = re.sub(r'"(?:[^"\\]|\\.)*"', '""', l)
    return re.sub(r"//.*$", "", l)


def site_functions(spans):
    hdr = open(os.path.join(core.LEAN, "ErgVerif", "C07", "Stage1", "Model.lean")).read().split("-/")[0]
    named = [n for n in re.findall(r"`([a-z_0-9]+)`", hdr) if n in spans]
    fns = []
    for n in named + HELPERS:
        if n not in fns:
            fns.append(n)
    return fns


def site_list():
    """[(fn, kind, nth, line, text)] in source order + list of requested functions that no longer exist"""
    lines = open(os.path.join(core.REPO, CODEGEN)).read().split("\n")
    spans = fn_spans(lines)
    fns = site_functions(spans)
    missing = [n for n in HELPERS if n not in spans]
    sites = []
    for n in sorted(fns, key=lambda f: spans.get(f, (0, 0))[0]):
        if n not in spans:
            continue
        s, e = spans[n]
        count = {}
        for k in range(s - 1, e):
            l = strip_rust(lines[k])
            hits = []
            for kind, p in PATS:
                for m in re.finditer(p, l):
                    hits.append((m.start(), kind))
            for _, kind in sorted(hits):
                count[kind] = count.get(kind, 0) + 1
                sites.append((n, kind, count[kind], k + 1, lines[k].strip()))
    return sites, missing, fns


def write_gen(sites, missing):
    rows = [f'  ("{fn}", "{kind}", {nth})' for fn, kind, nth, _, _ in sites] + [f'  ("<missing function>", "{m}", 0)' for m in missing]
    txt = ("/- GENERATED by checks/c07.py from crates/erg_compiler/codegen.rs on every run — do not edit.\n"
           "   Every panic-capable macro/method occurrence (function, kind, occurrence number) in the transcribed functions. -/\n"
           "namespace ErgVerif.Gen.C07Sites\n\n"
           "def sites : List (String × String × Nat) := [\n" + ",\n".join(rows) + "\n]\n\nend ErgVerif.Gen.C07Sites\n")
    f = os.path.join(core.LEAN, "ErgVerif", "Gen", "C07Sites.lean")
    if not os.path.exists(f) or open(f).read() != txt:
        open(f, "w").write(txt)
    return f


def spec_sites():
    src = open(os.path.join(core.LEAN, "ErgVerif", "C07", "Model.lean")).read()
    return [(a, b, int(c)) for a, b, c in re.findall(r'⟨"([^"]+)", "([^"]+)", (\d+), \.', src)]


# ---------------------------------------------------------------------------------------------- mutation operators

def _map_expr(e, f):
    """apply f bottom-up to every expression node of a fraggen tree"""
    if not isinstance(e, tuple):
        return e
    out = []
    for x in e:
        if isinstance(x, tuple) and x and isinstance(x[0], str) and x[0] in EXPR_KINDS:
            out.append(_map_expr(x, f))
        elif isinstance(x, list):
            out.append([_map_expr(y, f) if isinstance(y, tuple) else y for y in x])
        else:
            out.append(x)
    return f(tuple(out))


EXPR_KINDS = {"lit", "var", "bin", "neg", "cmp", "boolop", "not", "if", "len", "index", "list", "call", "interp"}


def _exprs_of_stmt(s):
    k = s[0]
    if k == "def":
        return [("def", 3)]
    return []


def mutate_tree(prog, r):
    """one typed mutation of a fraggen program; returns (new prog, operator name) — the result is usually ill-typed"""
    nodes = []

    def collect(e):
        def f(x):
            nodes.append(x)
            return x
        _map_expr(e, f)

    def walk_stmts(ss):
        for s in ss:
            k = s[0]
            if k == "def":
                collect(s[3])
            elif k == "print":
                for x in s[1]:
                    collect(x)
            elif k == "func":
                walk_stmts(s[4]); collect(s[5])
            elif k == "lambda":
                collect(s[4])
            elif k == "for":
                walk_stmts(s[4])
            elif k == "while":
                walk_stmts(s[3])
            elif k == "ifstmt":
                collect(s[1]); walk_stmts(s[2]); walk_stmts(s[3])
            elif k == "tupdef":
                for x in s[2]:
                    collect(x)
            elif k == "exprstmt":
                collect(s[1])
    walk_stmts(prog)
    cands = {
        "swap-type": [n for n in nodes if n[0] in ("bin", "cmp", "boolop")],
        "drop-arg": [n for n in nodes if n[0] == "call" and n[2]],
        "add-arg": [n for n in nodes if n[0] == "call"],
        "rename-ref": [n for n in nodes if n[0] == "var"],
        "undef-attr": [n for n in nodes if n[0] in ("var", "lit", "call")],
        "wrong-lit": [n for n in nodes if n[0] == "lit"],
        "untyped-params": [s for s in prog if s[0] == "func"],
    }
    avail = [o for o in ["swap-type", "drop-arg", "add-arg", "rename-ref", "undef-attr", "untyped-params", "wrong-lit"] if cands[o]]
    if not avail:
        return prog, "none"
    op = r.pick(avail)
    if op == "untyped-params":
        i = r.pick([i for i, s in enumerate(prog) if s[0] == "func"])
        return prog[:i] + [("ufunc",) + prog[i][1:]] + prog[i + 1:], op
    target = r.pick(cands[op])
    # the 4th component marks the literal the mutation put in (ignored by the emitters)
    other = {"Nat": ("lit", "Str", "zz", "MUT"), "Int": ("lit", "Str", "zz", "MUT"), "Str": ("lit", "Nat", 3, "MUT"),
             "Bool": ("lit", "Str", "b", "MUT"), "Float": ("lit", "Str", "f", "MUT")}
    done = [False]

    def f(x):
        if done[0] or x is not target and x != target:
            return x
        done[0] = True
        if op == "swap-type":
            # replace the right operand by a literal of another type
            rhs = x[3]
            ty = rhs[1] if rhs[0] == "lit" else (rhs[-1] if isinstance(rhs[-1], str) else "Nat")
            repl = other.get(ty, ("lit", "Str", "zz", "MUT"))
            return x[:3] + (repl,) + x[4:]
        if op == "drop-arg":
            return x[:2] + (x[2][:-1],) + x[3:]
        if op == "add-arg":
            return x[:2] + (x[2] + [("lit", "Nat", 1)],) + x[3:]
        if op == "rename-ref":
            return ("var", x[1] + "_undefined") + x[2:]
        if op == "undef-attr":
            return ("attr", x, r.pick(["nope", "foo_bar", "real", "x"]))
        if op == "wrong-lit":
            return other.get(x[1], ("lit", "Nat", 3, "MUT"))
        return x

    def on_stmts(ss):
        out = []
        for s in ss:
            k = s[0]
            if k == "def":
                out.append(s[:3] + (_map_expr(s[3], f),) + s[4:])
            elif k == "print":
                out.append(("print", [_map_expr(x, f) for x in s[1]]))
            elif k == "func":
                out.append(s[:4] + (on_stmts(s[4]), _map_expr(s[5], f)))
            elif k == "lambda":
                out.append(s[:4] + (_map_expr(s[4], f),))
            elif k == "for":
                out.append(s[:4] + (on_stmts(s[4]),))
            elif k == "while":
                out.append(s[:3] + (on_stmts(s[3]),))
            elif k == "ifstmt":
                out.append(("ifstmt", _map_expr(s[1], f), on_stmts(s[2]), on_stmts(s[3])))
            elif k == "tupdef":
                out.append(("tupdef", s[1], [_map_expr(x, f) for x in s[2]]))
            elif k == "exprstmt":
                out.append(("exprstmt", _map_expr(s[1], f)))
            else:
                out.append(s)
        return out
    return on_stmts(prog), op


ARITH = ("+", "-", "*", "//", "%", "/", "**")


def mutant_features(prog):
    """structural features of a mutated tree:
       list-concat-elem-op-over-failed-op : a `+` of list literals one of whose elements is such an expression
       op-over-failed-op : an arithmetic operator or unary minus has an operand that is itself an operator expression which
                           (directly, or through further operator expressions) has an operand that cannot be typed: the literal of
                           the wrong type the mutation put in, a reference to an undefined name, an undefined attribute"""
    feats = set()
    # variables whose whole initialiser is the literal the mutation put in carry the wrong type to their uses
    bad_vars = set()

    def collect_bad(ss):
        for st in ss:
            if st[0] == "def" and isinstance(st[3], tuple) and st[3][0] == "lit" and len(st[3]) > 3 and st[3][3] == "MUT":
                bad_vars.add(st[1])
            elif st[0] in ("func", "ufunc"):
                collect_bad(st[4])
            elif st[0] in ("for",):
                collect_bad(st[4])
            elif st[0] == "while":
                collect_bad(st[3])
            elif st[0] == "ifstmt":
                collect_bad(st[2]); collect_bad(st[3])
    collect_bad(prog)

    def failed_leaf(x):
        if not isinstance(x, tuple):
            return False
        if x[0] == "lit" and len(x) > 3 and x[3] == "MUT":
            return True
        if x[0] == "var" and (str(x[1]).endswith("_undefined") or x[1] in bad_vars):
            return True
        return x[0] == "attr"

    def operands(c):
        if c[0] in ("bin", "cmp"):
            return [c[2], c[3]]
        if c[0] == "neg":
            return [c[1]]
        return []

    def failed_op(c):
        if not isinstance(c, tuple) or c[0] not in ("bin", "cmp", "neg"):
            return False
        return any(failed_leaf(x) or failed_op(x) for x in operands(c))

    def walk(e):
        if not isinstance(e, tuple):
            return
        if ((e[0] == "bin" and e[1] in ARITH) or e[0] == "neg") and any(failed_op(x) for x in operands(e)):
            feats.add("op-over-failed-op")
        if e[0] == "bin" and e[1] == "+" and any(isinstance(o, tuple) and o[0] == "list" and any(
                isinstance(x, tuple) and ((x[0] == "bin" and x[1] in ARITH) or x[0] == "neg") and any(failed_op(y) for y in operands(x))
                for x in o[1]) for o in operands(e)):
            feats.add("list-concat-elem-op-over-failed-op")
        for x in e[1:]:
            if isinstance(x, tuple):
                walk(x)
            elif isinstance(x, list):
                for y in x:
                    walk(y)

    def stmts(ss):
        for st in ss:
            k = st[0]
            if k == "def":
                walk(st[3])
            elif k == "print":
                for x in st[1]:
                    walk(x)
            elif k in ("func", "ufunc"):
                stmts(st[4]); walk(st[5])
            elif k == "lambda":
                walk(st[4])
            elif k == "for":
                stmts(st[4])
            elif k == "while":
                stmts(st[3])
            elif k == "ifstmt":
                walk(st[1]); stmts(st[2]); stmts(st[3])
            elif k == "tupdef":
                for x in st[2]:
                    walk(x)
            elif k == "exprstmt":
                walk(st[1])
    stmts(prog)
    return sorted(feats)


def erg_of_mutant(prog):
    """fraggen.to_erg extended with the two node kinds the mutation operators introduce"""
    old_expr, old_stmts = fraggen.erg_expr, fraggen.erg_stmts

    def expr(e):
        if e[0] == "attr":
            return f"{expr(e[1])}.{e[2]}"
        return old_expr(e)

    def stmts(ss, ind=0):
        out = []
        for s in ss:
            if s[0] == "ufunc":
                p = "    " * ind
                out.append(f"{p}{s[1]} " + ", ".join(n for n, _ in s[2]) + " =")
                out += stmts(s[4], ind + 1)
                out.append(f"{p}    {expr(s[5])}")
            else:
                out += old_stmts([s], ind)
        return out
    fraggen.erg_expr, fraggen.erg_stmts = expr, stmts
    try:
        return "\n".join(stmts(prog)) + "\n"
    finally:
        fraggen.erg_expr, fraggen.erg_stmts = old_expr, old_stmts


TOKEN_RE = re.compile(r'"(?:[^"\\\n]|\\.)*"|#[^\n]*|[A-Za-z_][A-Za-z0-9_]*[!?]?|\d+(?:\.\d+)?|\.\.<|<\.\.|\.\.|->|=>|:=|==|!=|<=|>=|\*\*|//|[^\sA-Za-z0-9_]')


def mutate_tokens(src, r):
    """one token-level mutation of an Erg source file (layout kept: only the chosen token is touched)"""
    toks = [m for m in TOKEN_RE.finditer(src) if not m.group(0).startswith("#")]
    if len(toks) < 3:
        return src, "none"
    op = r.pick(["delete", "duplicate", "swap", "ident", "literal", "operator", "ident", "literal"])
    idents = [m for m in toks if re.match(r"[A-Za-z_]", m.group(0))]
    lits = [m for m in toks if re.match(r"\d|\"", m.group(0))]
    ops = [m for m in toks if m.group(0) in ("+", "-", "*", "/", "//", "%", "**", "==", "!=", "<", "<=", ">", ">=", "and", "or", "in", "..", "..<")]
    def repl(m, text):
        return src[:m.start()] + text + src[m.end():]
    if op == "delete":
        m = r.pick(toks)
        return repl(m, ""), op
    if op == "duplicate":
        m = r.pick(toks)
        return repl(m, m.group(0) + " " + m.group(0)), op
    if op == "swap":
        i = r.below(len(toks) - 1)
        a, b = toks[i], toks[i + 1]
        return src[:a.start()] + b.group(0) + src[a.end():b.start()] + a.group(0) + src[b.end():], op
    if op == "ident" and idents:
        m = r.pick(idents)
        o = r.pick(idents).group(0)
        return repl(m, o), op
    if op == "literal" and lits:
        m = r.pick(lits)
        return repl(m, r.pick(["0", "1", "-1", "2147483648", "1.5", '"s"', "True", "None", "[1, 2]", "{1: 2}", "(1, 2)", "x"])), op
    if op == "operator" and ops:
        m = r.pick(ops)
        return repl(m, r.pick(["+", "-", "*", "//", "%", "==", "<", "and", "or", "**", "/"])), op
    m = r.pick(toks)
    return repl(m, ""), "delete"


def corpus_files():
    out = []
    for d in ("tests/should_ok", "tests/should_err", "examples"):
        p = os.path.join(core.REPO, d)
        if os.path.isdir(p):
            for fn in sorted(os.listdir(p)):
                if fn.endswith(".er"):
                    out.append(os.path.join(p, fn))
    return out


def class_programs(r, n):
    """ill-typed (mostly) programs over 2-3 user classes that share method/attribute names with different arities and types:
    calls and attribute accesses of those names on receivers of every scalar type, on instances of the other class, on lists,
    with wrong arity (the method-resolution / ambiguity diagnostics of inquire.rs)"""
    header = ("C = Class { .x = Int }\nC.\n    foo self = self.x\n    bar self, k: Int = self.x + k\n"
              "D = Class { .y = Str }\nD.\n    foo self, z: Int = self.y + str z\n    bar self = self.y\n")
    third = "E = Class { .x = Str; .n = Nat }\nE.\n    foo self, a: Str, b: Str = a + b + self.x\n    baz self = self.n\n"
    insts = 'c = C.new { .x = 1 }\nd = D.new { .y = "s" }\n'
    recv = ["1", '"s"', "True", "1.5", "[1, 2]", "c", "d", "None", "(1, 2)", "C", "-3"]
    names = ["foo", "bar", "x", "y", "baz", "n", "nope"]
    out = []
    for i in range(n):
        with_e = r.chance(1, 2)
        src = header + (third if with_e else "") + insts + ('e = E.new { .x = "t"; .n = 2 }\n' if with_e else "")
        uses = []
        if i == 0:
            # every scalar receiver with the name both classes define, in one program per run
            uses = [f"r{k} = {rv}.foo()" for k, rv in enumerate(recv[:5])]
        if i == 1:
            # one well-typed program per run: the class machinery itself must check and compile
            out.append((f"k{i}", src + 'print! c.foo(), c.bar(2), d.foo(3), d.bar()\n', ["classes", "well-typed"]))
            continue
        for k in range(2 + r.below(3)):
            rv = r.pick(recv + (["e"] if with_e else []))
            nm = r.pick(names)
            form = r.below(6)
            use = [f"{rv}.{nm}()", f"{rv}.{nm}(1)", f'{rv}.{nm}(1, "a")', f"{rv}.{nm}", f'{rv}.{nm} "a"', f"{rv}.{nm}(c)"][form]
            uses.append(f"print! {use}" if r.chance(1, 2) else f"u{k} = {use}")
        out.append((f"k{i}", src + "\n".join(uses) + "\n", ["classes"] + (["three-classes"] if with_e else [])))
    return out


def layout_programs(r, n):
    """well-formed programs that stress the line table: definitions whose body starts on a later line, after gaps of blank lines"""
    out = []
    for i in range(n):
        gap1 = r.pick([0, 1, 5, 26, 27, 60, 100, 126, 127, 128, 200, 260])
        gap2 = r.pick([0, 1, 5, 26, 27, 28, 49, 60, 100, 127, 128, 260])
        kind = r.below(3)
        if kind == 0:
            src = "x = 1\n" + "\n" * gap1 + "y =\n" + "\n" * gap2 + "    2\nprint! x + y\n"
        elif kind == 1:
            src = "f x =\n" + "    # c\n" * gap2 + "    x + 1\n" + "\n" * gap1 + "print! f 2\n"
        else:
            src = "x = 1\n" + "\n" * gap1 + "print!(\n" + "\n" * gap2 + "    x)\n"
        out.append((f"l{i}", src, ["layout", f"layout-kind{kind}"] + (["multiline-def-after-gap"] if kind == 0 else [])))
    return out


# ---------------------------------------------------------------------------------------------- running

def unq(s):
    """inverse of core.quote (without the surrounding quotes)"""
    out, i = [], 0
    while i < len(s):
        c = s[i]
        if c == "\\":
            i += 1
            e = s[i]
            if e == "n":
                out.append("\n")
            elif e == "t":
                out.append("\t")
            elif e == "r":
                out.append("\r")
            elif e == "u":
                out.append(chr(int(s[i + 1:i + 5], 16))); i += 4
            elif e == "U":
                out.append(chr(int(s[i + 1:i + 7], 16))); i += 6
            else:
                out.append(e)
        else:
            out.append(c)
        i += 1
    return "".join(out)


BUG_PAT = re.compile(r"panicked at|Thread panicked|this is a bug of the Erg compiler|This may be a bug of Erg compiler|"
                     r"stack overflow|SIGSEGV|SIGABRT|internal error:")


def outcome(r):
    """success / diagnostics / crash:<signature> / timeout"""
    rc, out, err = r["erg_rc"], r["erg_out"], r["erg_err"]
    if rc == 124:
        return "timeout"
    txt = err + "\n" + out
    m = BUG_PAT.search(txt)
    if m or rc < 0 or rc in (134, 139):
        return "crash"
    return "success" if rc == 0 else "diagnostics"


def signature(r):
    """a short, stable failure signature: panic location + message, or the internal-error sentence + the error line"""
    txt = re.sub(r"\x1b\[[0-9;]*m", "", r["erg_err"] + "\n" + r["erg_out"])
    m = re.search(r"panicked at ([^\n]*?):(\d+):\d+:\n([^\n]*)", txt)
    if m:
        return f"panic {m.group(1)}: {m.group(3).strip()[:120]}"
    m = re.search(r"(This may be a bug of Erg compiler|this is a bug of the Erg compiler)[^\n]*\n+([^\n]*)", txt)
    if m:
        line = re.sub(r"\?[A-Za-z0-9_]+", "?T", m.group(2).strip())
        return f"internal-error: {line[:120]}"
    m = re.search(r"internal error: ([^\n]*)", txt)
    if m:
        return "internal error: " + m.group(1)[:120]
    if "stack overflow" in txt:
        return "stack overflow"
    return "rc=%s" % r["erg_rc"]


def run_cli(erg, items, jobs):
    """items: (id, src, mode, opt) -> result dicts (same order). One child process per item, 180 s timeout."""
    import subprocess
    import tempfile
    import shutil
    from concurrent.futures import ThreadPoolExecutor
    env = core.erg_env()
    work = tempfile.mkdtemp(prefix="c07-")
    py = core.PYTHONS["3.11"]

    def one(it):
        cid, src, mode, opt = it
        d = os.path.join(work, re.sub(r"[^A-Za-z0-9_]", "_", cid))
        os.makedirs(d, exist_ok=True)
        open(os.path.join(d, "m.er"), "w").write(src)
        cmd = [erg, "--py-command", py, "-o", str(opt), mode, "m.er"]
        t = time.time()
        rc, out, err = fragrun.run_cmd(cmd, d, env, timeout=180)
        if rc == 124:
            # under heavy machine load a slow run is not a hang: once more, alone-ish, with a long limit
            rc, out, err = fragrun.run_cmd(cmd, d, env, timeout=900)
        return {"id": cid, "erg_rc": rc, "erg_out": out[-3000:], "erg_err": err[-3000:], "wall": round(time.time() - t, 1)}

    with ThreadPoolExecutor(max_workers=jobs) as ex:
        res = list(ex.map(one, items))
    shutil.rmtree(work, ignore_errors=True)
    return res


def parses(erg, src):
    """is the text syntactically valid (the property's domain)? decided by the real parser (`erg parse`)"""
    r = run_cli(erg, [("parse", src, "parse", 0)], 1)[0]
    return outcome(r) == "success"


def known_match(ctx, feats, sig):
    for e in ctx.known_findings():
        m = e.get("match", {})
        if m.get("feature") and m["feature"] not in feats:
            continue
        if m.get("feature_any") and not any(f in feats for f in m["feature_any"]):
            continue
        if m.get("signature_contains") and m["signature_contains"] not in sig:
            continue
        return e
    return None


def derived_features(src, r=None):
    """structural features read off the source text (used together with the failure signature to attribute a crash)"""
    feats = []
    lines = src.split("\n")
    if r is not None:
        # token-mutated files have no tree: `op-over-failed-op(text)` = the source line the internal error points at carries at
        # least two operator tokens and an ordinary diagnostic (Type/Name/Attribute error) was reported for the same line first
        txt = re.sub(r"\x1b\[[0-9;]*m", "", r["erg_err"] + "\n" + r["erg_out"])
        blocks = re.split(r"\n(?=Error\[#\d+\])", txt)
        ordinary, internal = set(), set()
        for b in blocks:
            m = re.search(r"File [^\n,]*, line (\d+)", b)
            if not m:
                continue
            if "bug of" in b:
                internal.add(int(m.group(1)))
            elif re.search(r"\n(TypeError|NameError|AttributeError)", b):
                ordinary.add(int(m.group(1)))
        for ln in internal & ordinary:
            if 1 <= ln <= len(lines):
                code = re.sub(r'"(?:[^"\\]|\\.)*"', '""', lines[ln - 1])
                if len(re.findall(r"(?:\*\*|//|[-+*/%])", code)) >= 2:
                    feats.append("op-over-failed-op(text)")
    # a subroutine definition with at least one parameter without a type annotation, whose body applies an operator to it
    for i, l in enumerate(lines):
        m = re.match(r"^\s*([a-z_][A-Za-z0-9_]*!?)\s+([a-z_][A-Za-z0-9_]*(?:\s*,\s*[a-z_][A-Za-z0-9_]*)*)\s*=\s*(.*)$", l)
        if m and m.group(1) not in ("print!", "assert", "if", "for!", "while!", "not", "return"):
            params = [p.strip() for p in m.group(2).split(",")]
            body = m.group(3) + " " + " ".join(lines[i + 1:i + 4])
            if any(re.search(r"\b" + re.escape(p) + r"\b\s*(\*\*|\*|\+|-|//|%|/)|(\*\*|\*|\+|-|//|%|/)\s*\b" + re.escape(p) + r"\b", body) for p in params):
                feats.append("untyped-param-arith")
    # `[..] + [..]` on a line that carries at least two more operator tokens (text form of list-concat-elem-op-over-failed-op)
    for l in lines:
        code = re.sub(r'"(?:[^"\\]|\\.)*"', '""', l)
        if re.search(r"\]\s*\+\s*\[", code) and len(re.findall(r"(?:\*\*|//|[-+*/%])", code)) >= 3:
            feats.append("list-concat-elem-op(text)")
            break
    # a line with >= 100 binary operator tokens or >= 100 unclosed opening brackets
    for l in lines:
        code = re.sub(r'"(?:[^"\\]|\\.)*"', '""', l)
        nops = len(re.findall(r"\s(?:\+|-|\*\*|\*|//|/|%|==|!=|<=|>=|<|>|and|or|in)\s", code))
        depth = mx = 0
        for ch in code:
            if ch in "([{":
                depth += 1
                mx = max(mx, depth)
            elif ch in ")]}":
                depth -= 1
        if nops >= 100 or mx >= 100:
            feats.append("deep-expression")
            break
    # a definition whose body starts on a later line, preceded by a gap of blank lines
    blank = 0
    for i, l in enumerate(lines):
        if l.strip() == "":
            blank += 1
            continue
        if re.match(r"^\S.*=\s*$", l) and blank >= 1:
            j = i + 1
            g = 0
            while j < len(lines) and lines[j].strip() == "":
                g += 1
                j += 1
            if g >= 1:
                feats.append("multiline-def-after-gap")
        blank = 0
    return feats


def run(ctx):
    thorough = ctx.tier == "thorough"
    jobs = int(os.environ.get("VERIF_JOBS", "10"))
    ctx.assumptions = ["the CLI is the debug build of the working tree (debug assertions and overflow checks are ON: they are crash sites of the binary under test)",
                       "a run that exceeds 180 s is retried with 900 s before it counts as a hang (machine load)",
                       "syntactic validity (the property's domain) of token-mutated files is decided by the real parser (`erg parse`)"]
    ctx.cov["rule"] = ("W: fraggen programs (full fragment, boundary literals); M: one typed mutation each; T: one token mutation of a corpus "
                       "file; L: layout/size stress; every program at the listed (mode, -o) pairs; non-trivial = outcome success or "
                       "diagnostics other than a syntax error")
    # ---------------------------------------------------------------- T-gen
    sites, missing, fns = site_list()
    write_gen(sites, missing)
    gen_keys = [(a, b, c) for a, b, c, _, _ in sites]
    spec = spec_sites()
    proof = core.proof_stage(ctx, "C07", ["ErgVerif.C07.Props", "ergmodel_c07"])
    checker_cmd = "cd lean && lake build ErgVerif.C07.Props ergmodel_c07 && lake env lean Audit/C07.lean"
    extra = {"axioms": proof["axioms"], "theorems": proof["theorems"], "examples": proof["examples"],
             "site_functions": fns, "sites_generated": len(sites), "sites_reviewed": len(spec),
             "site_kinds": {k: sum(1 for s in sites if s[1] == k) for k in sorted({s[1] for s in sites})}}
    new_sites = [s for s in sites if (s[0], s[1], s[2]) not in spec]
    gone_sites = [s for s in spec if s not in gen_keys]
    ok_e, elog, erg = core.erg_binary()
    ok_h, hlog, bindir = core.cargo_build(["c01"])
    if not ok_e or not ok_h:
        ctx.violation({"kind": "build-failed", "erg_log": elog if not ok_e else "", "harness_log": hlog if not ok_h else ""}, no_input=True)
        ctx.write_evidence(proof["obligations"], proof["discharged"], checker_cmd, extra)
        ctx.finish()

    # ---------------------------------------------------------------- programs
    nW, nM, nT, nL = (40, 60, 150, 10) if thorough else (5, 10, 12, 3)
    r0 = fraggen.Rng(ctx.seed * 65537 + 7)
    progs = []      # (id, src, feats, stream)
    trees = []
    for i in range(max(nW, nM)):
        g = fraggen.Gen(fraggen.Rng(ctx.seed * 15485863 + i), big_lits=(i % 2 == 0), hard_strings=(i % 3 == 0), zero_div=(i % 5 == 0))
        p = g.program()
        trees.append(p)
        if i < nW:
            progs.append((f"w{i}", fraggen.to_erg(p), sorted(g.features | fraggen.tree_features(p)), "W"))
    mut_ops = {}
    for i in range(nM):
        mp, op = mutate_tree(trees[i % len(trees)], fraggen.Rng(ctx.seed * 31337 + i))
        mut_ops[op] = mut_ops.get(op, 0) + 1
        progs.append((f"m{i}", erg_of_mutant(mp), ["mut:" + op] + mutant_features(mp), "M"))
    files = corpus_files()
    tok_ops = {}
    for i in range(nT):
        f = files[(ctx.seed * 131 + i * 7) % len(files)] if files else None
        if not f:
            break
        src = open(f, encoding="utf-8", errors="replace").read()
        ms, op = mutate_tokens(src, fraggen.Rng(ctx.seed * 99991 + i))
        tok_ops[op] = tok_ops.get(op, 0) + 1
        progs.append((f"t{i}", ms, ["tok:" + op, "file:" + os.path.relpath(f, core.REPO)], "T"))
    progs += [(a, b, c, "L") for a, b, c in layout_programs(fraggen.Rng(ctx.seed * 577 + 3), nL)]
    nK = 20 if thorough else 5
    progs += [(a, b, c, "K") for a, b, c in class_programs(fraggen.Rng(ctx.seed * 4099 + 11), nK)]
    # corpus: witnesses of the listed findings and minimised past crashes
    for cid, inp in core.corpus_rows("C07"):
        m = re.match(r'^\(src "(.*)"\)$', inp)
        if m:
            progs.append((cid, unq(m.group(1)), ["corpus"], "C"))
    items = []
    for k, (pid, src, feats, stream) in enumerate(progs):
        if thorough or pid.startswith("k:"):
            pairs = [(m, o) for m in ("check", "compile") for o in range(4)]
        elif stream == "C":
            pairs = [("compile", k % 4), ("check", (k + 1) % 4)]
        else:
            # quick: every program is compiled at two levels and checked at one (levels rotate)
            pairs = [("compile", k % 4), ("compile", (k + 2) % 4), ("check", (k + 1) % 4)]
        for mode, o in pairs:
            items.append((f"{pid}@{mode}-o{o}", src, mode, o))
    t = time.time()
    results = run_cli(erg, items, jobs)
    extra["cli_runs"] = len(items)
    extra["cli_wall_s"] = round(time.time() - t, 1)
    by_prog = {}
    for it, r in zip(items, results):
        by_prog.setdefault(it[0].split("@")[0], []).append((it, r))
    classes = {}
    stream_classes = {}
    crashes = []
    nontrivial = 0
    for pid, src, feats, stream in progs:
        for it, r in by_prog.get(pid, []):
            oc = outcome(r)
            classes[oc] = classes.get(oc, 0) + 1
            stream_classes.setdefault(stream, {})
            stream_classes[stream][oc] = stream_classes[stream].get(oc, 0) + 1
            if oc in ("crash", "timeout"):
                crashes.append((pid, src, feats, stream, it, r, oc))
            elif oc == "success" or "SyntaxError" not in r["erg_err"]:
                nontrivial += 1
    extra.update({"programs_by_stream": {"W": nW, "M": nM, "T": len([p for p in progs if p[3] == "T"]), "L": nL,
                               "corpus": len([p for p in progs if p[3] == "C"])},
                  "outcome_classes": classes, "outcome_classes_by_stream": stream_classes,
                  "tree_mutation_operators": mut_ops, "token_mutation_operators": tok_ops})

    # ---------------------------------------------------------------- stage-1 programs through harness c01 + model driver
    nS = 100 if thorough else 30
    progsS = []
    for i in range(nS):
        # the frozen stage-1 model has no if-expressions / loops: keep the generator on the straight-line fragment
        g = fraggen.Gen(fraggen.Rng(ctx.seed * 7907 + i), stage1=True, zero_div=(i % 4 == 0), big_lits=(i % 3 == 0), conds=False, loops=False)
        p = g.program()
        if i % 3 == 2:
            p, _ = mutate_tree(p, fraggen.Rng(ctx.seed * 7 + i))
            progsS.append((f"s{i}", erg_of_mutant(p)))
        else:
            progsS.append((f"s{i}", fraggen.to_erg(p)))
    _, rows, herr = core.run_harness(bindir, "c01", ["replay"], stdin="".join(f"{a}\t(src {core.quote(b)})\n" for a, b in progsS))
    mrc, mrows, merr = core.run_model("C07", rows)
    mm = {m[0]: m for m in mrows}
    inproc = {"in-model": 0, "rejected": 0, "out-of-model": 0, "crash": 0}
    model_viol = []
    for rrow in rows:
        impl = rrow[2]
        k = "in-model" if impl.startswith("(hir") else ("crash" if impl.startswith("crash") else impl.split("(")[0])
        inproc[k] = inproc.get(k, 0) + 1
        m = mm.get(rrow[0])
        if impl.startswith("crash") or (m and m[2].startswith("viol")) or m is None:
            model_viol.append({"id": rrow[0], "input": rrow[1], "impl": impl[:600], "model": (m or ["", "<no model output>", "", ""])[1:3]})
    extra["inprocess_stage1"] = inproc
    ctx.cov["traces_validated_against_impl"] = inproc.get("in-model", 0)
    ctx.cov["evaluations"] = len(items) + len(rows)
    ctx.cov["distinct_nontrivial"] = nontrivial
    ctx.cov["samples"] = [{"id": it[0], "mode": it[2], "opt": it[3], "src": it[1][:300], "outcome": outcome(r)} for it, r in list(zip(items, results))[:4]]

    # ---------------------------------------------------------------- attribute crashes
    known_hits = {}
    unexplained = []
    out_of_domain = []
    for pid, src, feats, stream, it, r, oc in crashes:
        sig = signature(r) if oc == "crash" else "timeout"
        e = known_match(ctx, list(feats) + derived_features(src, r), sig)
        if e:
            known_hits.setdefault(e["id"], []).append(it[0])
            continue
        if stream == "T" and not parses(erg, src):
            out_of_domain.append({"id": it[0], "signature": sig, "file": [f for f in feats if f.startswith("file:")]})
            continue
        unexplained.append((pid, src, feats, stream, it, r, sig))
    extra["crashes_known"] = {k: len(v) for k, v in known_hits.items()}
    extra["crashes_outside_domain_not_syntactically_valid"] = out_of_domain[:20]
    extra["crashes_unexplained"] = len(unexplained)
    # listed findings: the witness is the corpus row `k:<id>`; the line is printed when it still fails with the recorded
    # signature and feature at some (mode, -o) pair
    gone = []
    for e in ctx.known_findings():
        still = []
        for x in crashes:
            if x[0] != "k:" + e["id"]:
                continue
            sig = signature(x[5]) if x[6] == "crash" else "timeout"
            k = known_match(ctx, list(x[2]) + derived_features(x[1], x[5]), sig)
            if k is not None and k["id"] == e["id"]:
                still.append((x, sig))
        if still:
            ctx.print_known(e, f"{e.get('summary', '')} [witness still fails as recorded at {len(still)} (mode, -o) pair(s): {still[0][1]}; "
                               f"{len(known_hits.get(e['id'], [])) - len(still)} generated case(s) of this class in this run]")
        else:
            gone.append(e["id"])
    extra["known_findings_no_longer_reproducing"] = gone

    # ---------------------------------------------------------------- verdict
    if unexplained:
        pid, src, feats, stream, it, r, sig = unexplained[0]
        ctx.violation({"kind": "compiler-crash-on-well-formed-program", "case_id": it[0], "erg_source": src, "mode": it[2], "opt": it[3],
                       "features": feats, "signature": sig, "stdout_tail": r["erg_out"][-800:], "stderr_tail": r["erg_err"][-1500:],
                       "others": [{"id": u[4][0], "signature": u[6], "erg_source": u[1][:2000], "mode": u[4][2], "opt": u[4][3]} for u in unexplained[1:6]]})
    elif model_viol:
        v = model_viol[0]
        ctx.violation({"kind": "crash-or-model-violation-in-process", "case_id": v["id"], "input": v["input"], "impl": v["impl"], "model": v["model"],
                       "others": model_viol[1:5]})
    elif new_sites or gone_sites or missing or not proof["ok"] or mrc != 0:
        ctx.violation({"kind": "no-longer-shown",
                       "what": "the list of panic-capable sites in the transcribed functions of codegen.rs differs from the reviewed list, or a proof "
                               f"obligation fails; no crashing program was found among {len(progs)} programs / {len(items)} CLI runs",
                       "new_sites": [{"function": s[0], "kind": s[1], "occurrence": s[2], "where": f"{CODEGEN}:{s[3]}", "text": s[4]} for s in new_sites],
                       "sites_no_longer_present": [list(s) for s in gone_sites], "functions_no_longer_present": missing,
                       "proof_problems": proof["problems"], "build_log_tail": proof["log"][-2500:] if not proof["ok"] else ""}, no_input=True)
    ctx.write_evidence(proof["obligations"], proof["discharged"], checker_cmd, extra,
                       trusted=["site translator (regex over codegen.rs, function spans by indentation) in checks/c07.py",
                                "dispositions `unreachable`/`untranscribed` of Spec.sites (hand review)",
                                "outcome classifier (stderr/stdout patterns, exit status) in checks/c07.py",
                                "for lowering/inference/optimiser: differential evidence only"])
    ctx.finish()


def replay(ctx, path):
    rp = json.load(open(path))
    ok_e, _, erg = core.erg_binary()
    if "erg_source" in rp:
        bad = 0
        for mode, o in ([(rp["mode"], rp["opt"])] if "mode" in rp else [(m, o) for m in ("check", "compile") for o in range(4)]):
            r = run_cli(erg, [("r", rp["erg_source"], mode, o)], 1)[0]
            oc = outcome(r)
            print(f"{mode} -o {o}: {oc}" + (f"  [{signature(r)}]" if oc == "crash" else ""))
            bad += oc in ("crash", "timeout")
        print("still failing" if bad else "no longer failing")
        raise SystemExit(1 if bad else 0)
    print("replay file names no input:", json.dumps({k: rp.get(k) for k in ("what", "new_sites", "sites_no_longer_present", "proof_problems")}, indent=1)[:3000])
    raise SystemExit(1)
