"""C32 — refinement predicate combinators denote set operations: Lean theorems C32_and/or/not/gt/lt/tree on a transcription of
Predicate::and/or/invert/gt/lt, tied to the Rust constructors by structural correspondence on generated construction trees;
the implementation's structure is additionally compared semantically with the expression by a Lean-verified exact oracle."""
from vlib import core, predcheck

MANIFEST_ENTRY = {
    "level_claimed": {"category": "proof",
        "text": "Lean theorems for every predicate tree (any depth, any integer constants) and every integer: Predicate::and / or / "
                "invert denote intersection / union / complement, gt/lt are the strict comparisons, and (C32_tree) whatever the "
                "constructors build bottom-up satisfies exactly the integers of the Boolean reading of the tree; the model transcribes "
                "the constructors (including the And-absorption, Or-set and same-bound arms) and is tied to the Rust code by comparing "
                "the built structures on generated trees (exhaustive over small atoms, random to depth 4)."},
    "level_note": "trusted: Lean kernel + {propext, Quot.sound, Classical.choice}; the transcription is checked by differential runs, "
                  "not verified; Or(Set) is modelled as a canonically sorted member list (set equality = structural equality); "
                  "General*/Call/Attr predicates and non-constant right-hand sides are outside the model; the semantic comparison of "
                  "the implementation's structure uses the oracle proved exact in C32_oracle_exact (critical points c-1,c,c+1), no SMT.",
    "technique": "Lean 4 proof (functional induction over the constructors) + differential correspondence + verified exact oracle",
}


def nontrivial(row):
    # a tree with at least one binary combinator and two atoms
    s = row[1]
    return ("(and " in s or "(or " in s or "(rand " in s or "(ror " in s) and s.count("(") >= 3


def post(ctx, rows, res, bindir):
    # input distribution
    hist = {"depth": {}, "root": {}, "impl_root": {}}
    raw = wide = 0
    for r in rows:
        s = r[1]
        d = 0
        m = 0
        for ch in s:
            if ch == "(":
                d += 1
                m = max(m, d)
            elif ch == ")":
                d -= 1
        hist["depth"][str(m - 1)] = hist["depth"].get(str(m - 1), 0) + 1
        k = s[1:].split(" ")[0].rstrip(")")
        hist["root"][k] = hist["root"].get(k, 0) + 1
        k2 = r[2][1:].split(" ")[0].rstrip(")") if r[2].startswith("(") else r[2][:12]
        hist["impl_root"][k2] = hist["impl_root"].get(k2, 0) + 1
        raw += ("(rand " in s or "(ror" in s or "(rnot " in s)
        wide += any(len(t.strip("()-")) > 3 and t.strip("()-").isdigit() for t in s.split(" "))
    ctx.cov["input_distribution"] = {"cases": len(rows), "with_bare_variants": raw, "with_boundary_constants": wide, **hist}


def shrink(ctx, v, bindir):
    return predcheck.shrink(ctx, v, bindir, "c32", lambda r: r[3].startswith("viol"))


def search_more(ctx, res, proof, bindir):
    return predcheck.search_more(ctx, bindir, "c32", set())


def run(ctx):
    ctx.cov["rule"] = ("construction trees of depth 0..4 over atoms ==,!=,<,<=,>,>= with constants -3..3 (1/8 of the cases: boundary "
                       "pool up to 2^64-1), built through Predicate::and/or/invert/gt/lt (1/5 of the cases mix in bare And/Or/Not "
                       "variants); exhaustive over all not/and/or of atoms over {0,1}; distinct by expression; non-trivial = has a "
                       "binary combinator")
    ctx.assumptions = ["one subject variable `I`; right-hand sides are integer constants built as the front end does "
                       "(Nat for c>=0, Int for c<0)"]
    core.standard_check(ctx, harness_bin="c32", n_quick=4000, n_thorough=60000, nontrivial=nontrivial, post=post, shrink=shrink, search_more=search_more,
                        trusted=["Rust-side printer of Predicate (harness/src/predx.rs) and Lean-side reader (Util/PredIO.lean)"])


def replay(ctx, path):
    core.standard_replay(ctx, path, "c32")
