"""C09 — the parser is total and never exhausts the stack (partial by design).
Ladders of nested ( [ { calls, indices, prefix operators, lambdas, blocks are parsed in a thread created by
erg_common::spawn::exec_new_thread (STACK_SIZE) inside a CHILD PROCESS (an abort is an outcome); random token sequences and
truncated/mutated programs are parsed in-process under catch_unwind (totality). The harness canonicalises
`overflow(signal-N)` to `overflow` here before the diff (which signal kills the child is not part of the model)."""
from vlib import core

MANIFEST_ENTRY = {
    "level_claimed": {"category": "proof",
        "text": "Lean theorems: the raw Vec<ExprOrOp> operator stack of parse.rs reaches none of its enum_unwrap!/compiler_bug sites for "
                "any operand sequence and equals the typed stack of the C11 model (C09_total_stack); the parser model is a total "
                "function (C09_result); the stack-budget model satisfies the property outside the recorded overflow class "
                "(C09_partial) and violates it at 200 nested parentheses (C09_witness_overflow). The real parser's totality and "
                "stack use are MEASURED by the tie: nesting ladders 1..1000 in a child process with the analysis-thread stack size, "
                "random token sequences and mutated programs under catch_unwind."},
    "level_note": "partial by design: only the operator stack and the C11 expression fragment are transcribed; the per-level stack cost "
                  "(costLo/costHi) is a measured parameter of the debug build, not derived from the code; whole-grammar totality is "
                  "differential only. Finding #18 (stack overflow below 100 nesting levels in the debug profile; the property demands "
                  "200) is RECORDED as C09-nesting-overflow; a panic on `f|)` found by the totality stream is FIXED in /repo.",
    "technique": "Lean 4 proof (simulation raw stack -> typed stack) + measured nesting ladders in child processes + fuzzed totality stream",
}


def canon(rows):
    out = []
    for r in rows:
        r = list(r)
        if r[2].startswith("overflow("):
            r.append(r[2])
            r[2] = "overflow"
        out.append(r)
    return out


def nontrivial(row):
    return row[1].startswith("(ladder") or len(row[1]) > 20


def post(ctx, rows, res, bindir):
    hist = {}
    lad = {}
    for r in rows:
        key = ("ladder:" if r[1].startswith("(ladder") else "text:") + r[2].split("(")[0]
        hist[key] = hist.get(key, 0) + 1
        if r[1].startswith("(ladder"):
            _, k, d = r[1].strip("()").split(" ")
            lad.setdefault(k, []).append((int(d), r[2]))
    ctx.cov["input_distribution"] = hist
    ctx.cov["ladder_thresholds_measured"] = {
        k: {"deepest_handled": max([d for d, o in v if o in ("ok", "err")] or [0]),
            "shallowest_overflow": min([d for d, o in v if o == "overflow"] or [0])} for k, v in lad.items()}


def run(ctx):
    ctx.cov["rule"] = ("ladders: 9 kinds x depths 1..1000 (quick: 17 depths, thorough: 95 depths), each in a child process, thread stack = "
                       "erg_common::spawn STACK_SIZE; texts: half one third random token sequences from an 80-token "
                       "pool, one third 1-3 mutations (truncation, span deletion, token insertion, bracket/quote replacement, line "
                       "range) of the repo's .er files (parser tests, examples, tests/should_ok, tests/should_err), one third "
                       "structured programs over type specifications and patterns (type ascriptions, declarations, parameter/return "
                       "annotations with nested function types, `_`, `*args`/`**kwargs`, defaults, list/tuple/record/literal "
                       "patterns, multi-clause definitions, lambdas, match/for! arms), half of them with one token-level mutation; "
                       "every text goes through Lexer -> Parser -> Desugarer")
    ctx.assumptions = ["stack cost per nesting level is measured for the harness build profile (debug, opt-level 0)",
                       "a child killed by a signal or exiting non-zero without output is counted as a stack overflow"]
    orig = core.run_harness

    def patched(bindir, binname, args, stdin=None, timeout=3600, env=None):
        env = dict(env or core.erg_env(), ERG_REPO=core.REPO)
        rc, rows, err = orig(bindir, binname, args, stdin=stdin, timeout=timeout, env=env)
        return rc, canon(rows), err
    core.run_harness = patched
    try:
        core.standard_check(ctx, harness_bin="c09", n_quick=2500, n_thorough=40000, nontrivial=nontrivial, post=post,
                            trusted=["measured stack-cost bounds costLo/costHi (Model.lean) — parameters, not theorems",
                                     "child-process classification of aborts (harness/src/bin/c09.rs)"])
    finally:
        core.run_harness = orig


def replay(ctx, path):
    orig = core.run_harness

    def patched(bindir, binname, args, stdin=None, timeout=3600, env=None):
        env = dict(env or core.erg_env(), ERG_REPO=core.REPO)
        rc, rows, err = orig(bindir, binname, args, stdin=stdin, timeout=timeout, env=env)
        return rc, canon(rows), err
    core.run_harness = patched
    core.standard_replay(ctx, path, "c09")
