"""C23 — a moved mutable value cannot be used again: Lean theorems about a transcription of ownercheck.rs (move recorded and
every later access reported, references do not move, shadowing shields, no panic on such accesses) tied to the real
OwnershipChecker by correspondence on generated move sequences, plus an end-to-end `erg check` stream."""
import re

from vlib import core
from vlib import minihir_tie as mt

MANIFEST_ENTRY = {
    "level_claimed": {"category": "proof",
        "text": "Lean theorems for every scope stack: an owned non-chunk access of an alive mutable variable succeeds without panic and records the "
                "move, every later access of that name (any ownership, same or inner scope) is reported with that move site, reference/immutable/"
                "chunk accesses move nothing, a definition in a nearer scope shields a moved outer name; the walker around these steps "
                "(all arms of check_expr, argument/ownership pairing, scopes) is transcribed and tied to the real OwnershipChecker by "
                "correspondence on generated programs; the whole-program statement is decided per case against a reference walker."},
    "level_note": "partial: the program-level soundness/completeness statement is not proved as one theorem — it is false of the code today "
                  "(recorded finding C23-receiver-not-checked: a moved variable used as the receiver of a method call or subscript is accepted; "
                  "witness theorem C23_witness_receiver) and is otherwise exercised differentially against the `ideal` walker. The state-level laws "
                  "are proved for all states. trusted: Lean kernel + {propext, Quot.sound, Classical.choice}; projection; args_ownership() is an "
                  "input of the model (computed by the real type).",
    "technique": "Lean 4 proof (induction over the scope stack) + kernel-evaluated witnesses + differential correspondence + end-to-end `erg check`",
}

HARNESS = "c23"


def nontrivial(row):
    return row[2].startswith("(errs (") or row[2].startswith("crash")


def post(ctx, rows, res, bindir):
    st = mt.input_stats(rows)
    ctx.cov["input_distribution"] = st
    ctx.cov["refusal_rate"] = st["refusal_rate"]
    exe = mt.erg_cli(ctx)
    if not exe:
        return
    n = 120 if ctx.tier == "thorough" else 15
    cand = [r for r in rows if r[2].startswith("(errs")]
    picked = cand[:: max(len(cand) // n, 1)][:n]
    agree, bad = 0, []
    for r in picked:
        src = mt.src_of(r[1])
        want = sorted(int(l) for l in re.findall(r"\(move \"[^\"]*\" (\d+) \d+ \d+\)", r[2]))
        rc, diags, tail = mt.erg_check_diags(exe, src)
        got = sorted(l for k, l in diags if k == "MoveError")
        other = [d for d in diags if d[0] != "MoveError"]
        if other:
            agree += 1   # an earlier pass (effect check) stopped the pipeline before the ownership pass
            continue
        if got != want or (rc == 0) != (not want):
            bad.append((r, rc, diags, tail))
        else:
            agree += 1
    ctx.cov["e2e_erg_check"] = {"programs": len(picked), "agree": agree, "disagree": len(bad)}
    if bad:
        r, rc, diags, tail = bad[0]
        ctx.violation({"kind": "end-to-end-disagreement", "what": "`erg check` does not report the MoveError diagnostics of the in-process "
                       "OwnershipChecker run", "input": r[1], "impl": r[2], "erg_check_rc": rc, "erg_check_diags": diags, "output_tail": tail})


def run(ctx):
    ctx.cov["rule"] = ("generated move sequences (3..10 statements, nested function/procedure scopes to depth 2): new mutable lists, rebinding "
                       "(inline, one-expression block, two-statement block), placement in list/tuple/dict/record, calls with mutable / Ref / "
                       "immutable / generic / keyword / second-position parameters, procedure calls, uses (print!, method receiver, subscript, "
                       "comparison, bare statement), lambdas with mutable parameters and captures, inner definitions shadowing an outer name; "
                       "non-trivial = at least one MoveError or a crash")
    ctx.assumptions = ["programs are lowered by the real front end with the effect/ownership passes off, then OwnershipChecker::check runs alone",
                       "name and move line of a MoveError are read from its English message"]
    core.standard_check(ctx, harness_bin=HARNESS, n_quick=300, n_thorough=4000, nontrivial=nontrivial,
                        trusted=["HIR -> mini-HIR projection harness/src/minihir.rs (args_ownership() of the callee's type is projected, not modelled)"],
                        search_more=mt.make_search_more(HARNESS), shrink=mt.make_shrinker(HARNESS), post=post)


def replay(ctx, path):
    core.standard_replay(ctx, path, HARNESS)
