"""C20 — multi-module analysis terminates and resolves every import graph.
Lean: model of `register`/`resolve` (graph effects, inlining), of the `build_deps_and_module` worklist and of the promise
protocol, with termination / each-once / topological-order / deadlock-freedom theorems (ErgVerif/C20/Props.lean).
Tie: generated projects compiled by the real compiler in a child process with the cfg(erg_verif) `sched_point` observer
(resolution result and the main thread's scheduling events compared with the model, T-corr), the produced .pyc run under Python,
and the same projects run through the real `erg run` CLI (behavioural)."""
import os
import re
import shutil
import tempfile
from concurrent.futures import ThreadPoolExecutor

from vlib import core

MANIFEST_ENTRY = {
    "level_claimed": {"category": "proof",
        "text": "Lean theorems on a transcription of import resolution (register/resolve: graph effects, cycle inlining), of the "
                "build_deps_and_module worklist and of the promise protocol: the resolved graph is acyclic for every project; the "
                "worklist terminates for every acyclic graph and every hash-iteration order, starts each parsed module exactly once "
                "and only after everything it depends on; the join protocol cannot deadlock and every thread finishes under fair "
                "scheduling. Tied to the real code by correspondence on generated import graphs (resolution result + scheduling "
                "events through a cfg(erg_verif) observer) and by running the generated projects through the compiler, Python and "
                "the erg CLI."},
    "level_note": "partial by design (DESIGN §8 C20): proved for the model = graph/worklist/promise core; Context::import_erg_mod, "
                  "lowering of inlined modules and HIRLinker are only exercised behaviourally (markers once, declared values visible, "
                  "mistyped use rejected). resolve's recursion-depth bound is a theorem hypothesis-free only for the fuel stated in the "
                  "model (checked on every case by the driver); real thread scheduling is outside the model. Four recorded findings "
                  "(cycle-variable #23, inlined-import race, cycle-function, entry-cycle) restrict the behavioural statement.",
    "technique": "Lean 4 proof (invariants over the C21 graph refinement, measure + sink lemma for the worklist, rank argument for the "
                 "protocol) + differential correspondence through an observer hook + CLI runs of generated projects",
}

ANSI = re.compile(r"\x1b\[[0-9;]*m")


def nontrivial(row):
    # a project is non-trivial when it has at least 3 modules and at least one use of an imported name
    return row[1].count("(m ") >= 3 and re.search(r"\(u[vf] \d", row[1]) is not None


def parse_cli_diags(text):
    """(kind file line "first line of message") rows from the CLI's rendered diagnostics"""
    text = ANSI.sub("", text)
    out = []
    cur = None
    for l in text.splitlines():
        m = re.match(r"^(Error|Warning)\[#\d+\]: File (.*?), line (\d+)", l)
        if m:
            cur = (m.group(1), os.path.basename(m.group(2)), m.group(3))
            continue
        m = re.match(r"^([A-Za-z]+(?:Error|Warning)): (.*)$", l)
        if m and cur:
            tag = "e" if cur[0] == "Error" else "w"
            out.append("(%s:%s %s %s %s)" % (tag, m.group(1), cur[1], cur[2], core.quote(m.group(2).strip())))
            cur = None
    return sorted(out)


def cli_stage(ctx, bindir, n):
    """the same generator, `erg run m0.er` in the project directory with a timeout; judged by the driver's spec verdict"""
    ok, blog, erg = core.erg_binary()
    if not ok:
        ctx.violation({"kind": "erg-cli-build-failed", "log": blog}, no_input=True)
        return
    rc, out, err = core.sh([os.path.join(bindir, "c20"), "gen", "--seed", str(ctx.seed + 7919), "--n", str(n), "--tier", ctx.tier,
                            "--list"], env=core.erg_env())
    cases = [l.split("\t") for l in out.splitlines() if l]
    cases += [(a, b) for a, b in core.corpus_rows("C20") if a.startswith("k:") and "delay" not in b]
    work = tempfile.mkdtemp(prefix="c20cli-")
    env = core.erg_env()
    timeout = int(os.environ.get("VERIF_MM_TIMEOUT", "420"))

    def one(c):
        cid, inp = c[0], c[1]
        d = os.path.join(work, re.sub(r"[^A-Za-z0-9]", "_", cid))
        core.sh([os.path.join(bindir, "c20"), "emit", d], input=f"{cid}\t{inp}\n", env=env)
        rc, out, err = core.sh([erg, "run", "m0.er"], cwd=d, env=env, timeout=timeout)
        text = ANSI.sub("", out + "\n" + err)
        diags = parse_cli_diags(text)
        has_err = any(x.startswith("(e:") for x in diags)
        if rc == 124:
            status = "timeout"
        elif re.search(r"panicked at|this is a bug of the Erg compiler", text):
            status = "crash"
        else:
            status = "err" if has_err else "ok"
        lines = sorted(core.quote(l) for l in ANSI.sub("", out).splitlines() if re.match(r"^[MVF]:m\d", l))
        obs = "(compile %s) (diag%s)" % (status, "".join(" " + x for x in diags))
        if status == "ok":
            last = [l for l in ANSI.sub("", err).splitlines() if l.strip()]
            obs += " (run %d%s%s)" % (rc, "".join(" " + x for x in lines),
                                      (" (stderr %s)" % core.quote(last[-1].strip())) if rc != 0 and last else "")
        else:
            obs += " (run -)"
        return ["cli:" + cid, inp, "(core -) (obs %s)" % obs]

    with ThreadPoolExecutor(max_workers=int(os.environ.get("VERIF_MM_JOBS", "4"))) as ex:
        rows = list(ex.map(one, cases))
    shutil.rmtree(work, ignore_errors=True)
    _, mrows, _ = core.run_model("C20", rows)
    known = {e["id"] for e in ctx.known_findings()}
    verd = {}
    bad = []
    for r, m in zip(rows, mrows):
        v, k = m[2], m[3]
        verd[v.split(" ")[0] + ("" if k in ("0", "-") else "[" + k + "]")] = verd.get(v.split(" ")[0] + ("" if k in ("0", "-") else "[" + k + "]"), 0) + 1
        if v != "ok" and not (k in known or (k == "-" and cli_entry_cycle_shape(r))):
            bad.append((r, m))
    ctx.cov["cli_runs"] = len(rows)
    ctx.cov["cli_verdicts"] = verd
    ctx.cov["cli_sample"] = rows[0][2][:300] if rows else ""
    if bad:
        r, m = bad[0]
        ctx.violation({"kind": "implementation-violates-spec", "stage": "erg run (CLI)", "case_id": r[0], "input": r[1], "impl": r[2],
                       "spec": m[2], "inK": m[3], "others": [x[0][1] for x in bad[1:6]]})


def cli_entry_cycle_shape(row):
    """`erg run m0.er` on a project in which a module imports the entry module fails in invocation-dependent ways (recorded as
    C20-entry-cycle-runs-twice): with a relative entry path the cycle through the entry is not recognised and the entry module is
    analysed a second time as `m0` (AttributeError on a module of that cycle); with `erg run` the import of `m0` at run time finds no
    file. Accept exactly those two shapes, and only for projects of that class."""
    inp, impl = row[1], row[2]
    mods = re.findall(r"\(m (\d+) \w \d \(imp([ \d]*)\)", inp)
    root = mods[0][0]
    if not any(i != root and root in imps.split() for i, imps in mods):
        return False
    if "ModuleNotFoundError: No module named 'm%s'" % root in impl:
        return True
    if "(compile ok)" in impl and "AttributeError: module '__main__' has no attribute" in impl:
        # the entry, analysed a second time as `m<root>`, is looked up in `__main__` at run time
        return True
    errs = re.findall(r"\(e:(\w+) ", impl)
    return bool(errs) and all(e == "AttributeError" for e in errs)


def run(ctx):
    ctx.cov["rule"] = ("import graphs over 2..6 (thorough 2..8) modules: DAGs, chains, diamonds, self-imports, 2-/3-cycles, cycles through "
                       "the entry, cycles with an importer from outside; typed public variable + function per module, uses printed; a mistyped "
                       "use in ~1 of 6 projects; distinct by project; non-trivial = at least 3 modules and one use of an imported name")
    ctx.assumptions = ["flat module names in one directory (the `foo/bar` package branch of register is outside the model)",
                       "CPython 3.11 runs the produced bytecode", "the observer hook does not change the scheduling decisions it reports"]
    n_cli = 24 if ctx.tier == "thorough" else 5

    def pre(c, bindir):
        dist = {}
        rc, out, err = core.sh([os.path.join(bindir, "c20"), "gen", "--seed", str(c.seed), "--n", str(400 if c.tier == "thorough" else 40),
                                "--tier", c.tier, "--list"], env=core.erg_env())
        for kv in err.strip().split():
            if ":" in kv:
                k, v = kv.rsplit(":", 1)
                dist[k] = int(v) if v.isdigit() else v
        c.cov["input_distribution"] = dist

    def post(c, rows, res, bindir):
        ev = {}
        for r in rows:
            for t in re.findall(r"\((start|inlined|rotate|settled|recurse|joined|enter) ", r[2]):
                ev[t] = ev.get(t, 0) + 1
            st = re.search(r"\(compile (\w+)", r[2])
            ev["compile:" + (st.group(1) if st else "?")] = ev.get("compile:" + (st.group(1) if st else "?"), 0) + 1
        c.cov["model_branches_hit"] = ev
        cli_stage(c, bindir, n_cli)

    core.standard_check(ctx, harness_bin="c20", n_quick=40, n_thorough=400, nontrivial=nontrivial, pre=pre, post=post,
                        extra_audit_modules=(),
                        trusted=["the observer's event log and its projection to module numbers (harness/src/bin/c20.rs)",
                                 "spec verdict on the observation computed by the driver (Driver/C20.lean: expectedLines, verdict)",
                                 "CPython 3.11 executing the produced .pyc"])


def replay(ctx, path):
    core.standard_replay(ctx, path, "c20")
