"""C24 — diagnostics point inside the source at the offending construct; rendering never crashes.
Lean: Location::concat/left_main_concat/stream + the arithmetic of format_context/format_code_and_pointer/reread_lines (usize underflow = crash):
C24_concat_inside, C24_stream_inside, C24_render_total, C24_token_span (+ witnesses); ties: (a) the public erg_common API on generated location
pairs, (b) end-to-end programs with one undefined name after arbitrary same-line text, compiled in-process; the expected location of the name
comes from the LEXER MODEL (Shared/Lex) so the tie is model-vs-implementation as well as implementation-vs-spec."""
from vlib import core
from checks import c08

MANIFEST_ENTRY = {
    "level_claimed": {"category": "proof",
        "text": "Lean theorems on a transcription of the location calculus and renderer arithmetic of erg_common/error.rs: concat/stream of ordered ranges "
                "inside the source is inside and covers both (C24_concat_inside, C24_stream_inside), every location inside the source renders without a "
                "usize underflow or failed assertion (C24_render_total), a token whose source span has no line break ends at column col+len (C24_token_span); "
                "tied by correspondence on generated location pairs through the public API and end-to-end on generated programs (name-error location = "
                "location predicted by the lexer model, every CompileError inside the source and rendered under catch_unwind)."},
    "level_note": "partial (tier E): proved = location calculus + renderer totality for all locations/sources; 'every diagnostic the compiler reports' is only exercised "
                  "(undefined-name programs with escaped strings, Unicode, literal tabs, comments before the name; all their errors checked inside+rendered). Which AST "
                  "node a diagnostic chooses is not modelled. C24_token_loc in full (token location = true source span) inherits C08's unproved position statement: "
                  "witness theorems for the legacy drift, the fixed behaviour and the recorded multi-line finding (C24-multiline-token-line). Renderer colours/gutters are "
                  "not modelled (model = returns-or-crashes + marker arithmetic).",
    "technique": "Lean 4 proof (arithmetic on locations) + differential correspondence through erg_common and HIRBuilder",
}


def nontrivial(row):
    i = row[1]
    if i.startswith("(prog"):
        return "\\\\" in i or "\\u" in i or "\\t" in i
    return i.count("(r ") == 2


def run(ctx):
    ctx.cov["rule"] = ("90% location pairs (ranges mostly well-formed, 10% inverted/line 0/beyond the text, Line/LineRange/Unknown) over 4 sources; 10% programs "
                       "`print!/list/call/second statement` with 0-3 prefix expressions from a pool of escaped strings, Unicode, literal tabs, interpolations, "
                       "multi-line strings, then the undefined name; optional indentation in a function body, trailing comment; non-trivial = two ranges, or a "
                       "program with an escape / non-ASCII / tab before the name")
    ctx.assumptions = ["input kind Str (reread_lines of a string input)", "harness built with the default (English, non-unicode) feature set"]
    core.standard_check(ctx, harness_bin="c24", n_quick=6000, n_thorough=60000, nontrivial=nontrivial, pre=c08.regen_xid,
                        trusted=["harness-side `inside`/slice computation (checked against the model's verdict on the same rows)"])


def replay(ctx, path):
    core.standard_replay(ctx, path, "c24")
