"""C04 — compile-time evaluation agrees with run time and never crashes.

Lean theorems over a transcription of ValueObj::try_* / Context::eval_bin / eval_unary_val with machine widths (C04_agree,
C04_total, C04_expr_total at full strength for Int/Nat/Bool; C04_agree_unary_partial / C04_expr_agree_partial + witness for the
recorded `~Bool` finding), tied to the Rust code by three streams: hooked evaluators on boundary-pool operand trees, the real
front end (`N = e`: the singleton type the checker assigns), and `x: {N} = v` acceptance with v from CPython.
Float rows are executed (Float.ofBits in the driver) and compared bit-for-bit with the implementation and with CPython 3.11."""
import os
import re

from vlib import core

MANIFEST_ENTRY = {
    "level_claimed": {"category": "proof",
        "text": "Lean theorems for every operator and every pair of well-formed Int/Nat/Bool operands (i32/u64/i128 machine "
                "semantics, debug-profile overflow = crash): a value answered at compile time is the value Python computes "
                "(unbounded ints, floor division, bool subtype), nothing is answered where Python raises, and no operator or "
                "expression tree panics (floats included in totality); lifted to expression trees by induction. The model "
                "transcribes ValueObj::try_*/eval_bin/eval_unary_val after five repairs and is tied to the Rust code by "
                "correspondence on boundary-pool trees (hooked evaluators + the real front end + `x: {N} = v` acceptance)."},
    "level_note": "trusted: Lean kernel + {propext, Quot.sound, Classical.choice}; Rust std integer operations (checked_*, "
                  "try_from, i128 arithmetic) are modelled by their documented semantics; the transcription is checked by "
                  "differential runs, not verified. Float rows have NO theorem: they are executed in the driver and compared "
                  "bit-for-bit with the implementation and with CPython 3.11 (recorded finding C04-float-semantics covers "
                  "float %, //, ** and >2^53 integer/float mixing). Unary `~` on Bool is a recorded finding "
                  "(C04_agree_unary_partial carries the hypothesis). Bitwise operators on integers are transcribed and "
                  "differentially checked only. Constant evaluation of calls, containers and type-level eval_bin_tp beyond "
                  "`N = e` is not covered. The Lean spec of Python int/bool arithmetic is cross-checked against CPython on every case.",
    "technique": "Lean 4 proof (case analysis per try_* row, floor/truncation lemmas, induction over expression trees) + "
                 "differential correspondence (in-process evaluators and front end) + CPython oracle",
}

ORACLE = os.path.join(core.VERIF, "py", "c04_oracle.py")
FLOAT_FINDING = "C04-float-semantics"


def nontrivial(row):
    # an expression with at least one operator whose implementation answer is a value
    return ("(bin " in row[1] or "(un " in row[1]) and (row[2].startswith("(ok") or row[2].startswith("(folded") or row[2] == "accepted")


def oracle(rows):
    text = "".join(f"{r[0]}\t{r[1]}\n" for r in rows)
    rc, out, err = core.sh([core.PYTHONS["3.11"], ORACLE], input=text, timeout=1800)
    if rc != 0:
        core.log("[oracle] rc=%s %s" % (rc, err[-500:]))
    return {l.split("\t")[0]: l.split("\t")[1] for l in out.split("\n") if "\t" in l}


def impl_value(impl):
    m = re.match(r"\((?:ok|folded) (.*)\)$", impl)
    return m.group(1) if m else None


def py_as_value(py):
    """CPython's answer in the notation of implementation values (Nat and Int are both `int`)"""
    if py.startswith("(val (bool"):
        return py[5:-1]
    if py.startswith("(val (int"):
        return "(int " + py[10:-2] + ")"
    return py


def lean_expected(spec):
    m = re.search(r"(?:^ok |^- | expected )(\(val .*\)|raises|nonInt|huge|noDemand)$", spec)
    return m.group(1) if m else None


def literal_of(py):
    """an (accept ..) literal for a CPython value, or None when it has no literal form"""
    m = re.match(r"\(val \(int (-?\d+)\)\)$", py)
    if m:
        if len(m.group(1)) > 24:
            return None
        n = int(m.group(1))
        if 0 <= n <= 18446744073709551615:
            return "(nat %d)" % n, n
        if -2147483648 <= n < 0:
            return "(int %d)" % n, n
        return None
    m = re.match(r"\(val \(bool (\w+)\)\)$", py)
    if m:
        return "(bool %s)" % m.group(1), m.group(1) == "true"
    return None


def lit_int(n):
    if 0 <= n <= 18446744073709551615:
        return "(nat %d)" % n
    if -2147483648 <= n < 0:
        return "(int %d)" % n
    return None


def post(ctx, rows, res, bindir):
    known_ids = {e["id"] for e in ctx.known_findings()}
    entries = {e["id"]: e for e in ctx.known_findings()}
    _, mrows, _ = core.run_model(ctx.prop, rows)
    m = {r[0]: r for r in mrows}
    py = oracle(rows)
    # ---- (1) the Lean specification of Python arithmetic against CPython; (2) float-valued rows against CPython
    spec_bad, float_bad, float_known, float_checked, spec_checked = [], [], [], 0, 0
    hist = {}
    for r in rows:
        mr = m.get(r[0])
        p = py.get(r[0])
        if mr is None or p is None or mr[1].startswith("out-of-model"):
            continue
        top = re.match(r"\(\w+ \((\w+ ?\w*)", r[1])
        hist[top.group(1) if top else "?"] = hist.get(top.group(1) if top else "?", 0) + 1
        lean = lean_expected(mr[2])
        if lean and lean != "noDemand" and p != "noDemand":
            spec_checked += 1
            ok = (lean == p) or (lean == "raises" and p.startswith("raises")) or \
                 (lean == "nonInt" and (p.startswith("(float") or p.startswith("other") or p == "raises:OverflowError"))
            if not ok:
                spec_bad.append((r[1], lean, p))
        if (lean is None or lean in ("noDemand", "nonInt")) and p != "noDemand":
            impl = r[2]
            if impl in ("none", "unfolded", "no-surface-form", "accepted", "rejected"):
                continue
            float_checked += 1
            iv = impl_value(impl)
            good = iv is not None and iv.replace("(nat ", "(int ") == py_as_value(p)
            if not good:
                case = (r[0], r[1], impl, mr[1], "viol:compile-time value differs from CPython 3.11: " + p, mr[3])
                if mr[3] in known_ids and impl == mr[1]:
                    float_known.append(case)
                else:
                    float_bad.append(case)
    ctx.cov["input_distribution_top_operator"] = dict(sorted(hist.items(), key=lambda kv: -kv[1])[:40])
    ctx.cov["lean_spec_vs_cpython_checked"] = spec_checked
    ctx.cov["float_rows_vs_cpython_checked"] = float_checked
    ctx.cov["float_rows_in_known_class"] = len(float_known)
    ctx.cov["impl_answers"] = {k: sum(1 for r in rows if r[2].startswith(k)) for k in
                               ("(ok", "none", "(folded", "unfolded", "crash", "accepted", "rejected")}
    if spec_bad:
        ctx.violation({"kind": "lean-spec-disagrees-with-cpython", "what": "the Lean specification of Python int/bool arithmetic "
                       "(Spec.lean pyBin/pyUnary) and CPython 3.11 disagree; the specification must be repaired",
                       "cases": spec_bad[:10]}, no_input=True)
    if float_bad:
        v = float_bad[0]
        ctx.violation({"kind": "implementation-violates-spec", "case_id": v[0], "input": v[1], "impl": v[2], "model": v[3],
                       "spec": v[4], "inK": v[5], "others": [x[1] for x in float_bad[1:6]]})
    # ---- (3) acceptance stream: `N = e` then `x: {N} = v` with v = CPython's value (and a neighbour)
    cases = []
    for r in rows:
        if not r[1].startswith("(fold "):
            continue
        p = py.get(r[0], "")
        lit = literal_of(p)
        if lit is None:
            continue
        e = r[1][len("(fold "):-1]
        cases.append((r[0] + "=", f"(accept {e} {lit[0]})"))
        if isinstance(lit[1], bool):
            cases.append((r[0] + "!", f"(accept {e} (bool {'false' if lit[1] else 'true'}))"))
        else:
            for d, tag in ((1, "+"), (-1, "-")):
                l2 = lit_int(lit[1] + d)
                if l2:
                    cases.append((r[0] + tag, f"(accept {e} {l2})"))
    acc_bad = 0
    if cases:
        _, arows, _ = core.run_harness(bindir, "c04", ["replay"], stdin="".join(f"{a}\t{b}\n" for a, b in cases))
        _, amrows, _ = core.run_model(ctx.prop, arows)
        ares = core.compare(arows, amrows, known_ids)
        ctx.cov["accept_stream"] = {"cases": len(arows), "agree": ares.agree, "accepted": sum(1 for r in arows if r[2] == "accepted"),
                                    "rejected": sum(1 for r in arows if r[2] == "rejected"),
                                    "in_known_class": len(ares.known)}
        ctx.cov["evaluations"] += len(arows)
        ctx.cov["traces_validated_against_impl"] += ares.agree
        # CPython-based verdict (covers float-valued trees, where the Lean spec column is `-`): the literal of a case
        # whose id ends in `=` IS CPython's value of the tree, every other literal differs from it
        fold_impl = {r[0]: r[2] for r in rows if r[1].startswith("(fold ")}
        am = {r[0]: r for r in amrows}
        py_viol = []
        for r in arows:
            mr = am.get(r[0])
            if mr is None or (mr[3] in known_ids and r[2] == mr[1]):
                continue
            base, tag = r[0][:-1], r[0][-1]
            if r[2].startswith("crash"):
                py_viol.append((r, mr, "viol:the compiler crashed"))
            elif tag == "=" and r[2] == "rejected" and fold_impl.get(base, "").startswith("(folded"):
                py_viol.append((r, mr, "viol:`x: {N} = v` rejected although v is the run-time value of N (CPython 3.11) and N was folded to "
                                + fold_impl[base]))
            elif tag != "=" and r[2] == "accepted":
                py_viol.append((r, mr, "viol:`x: {N} = v` accepted although v differs from the run-time value of N (CPython 3.11: "
                                + py.get(base, "?") + ")"))
        if ares.spec_viol:
            v = ares.spec_viol[0]
            acc_bad += 1
            ctx.violation({"kind": "implementation-violates-spec", "case_id": v[0], "input": v[1], "impl": v[2], "model": v[3],
                           "spec": v[4], "inK": v[5], "others": [x[1] for x in ares.spec_viol[1:6]]})
        elif py_viol:
            r, mr, what = py_viol[0]
            acc_bad += 1
            ctx.violation({"kind": "implementation-violates-spec", "case_id": r[0], "input": r[1], "impl": r[2], "model": mr[1],
                           "spec": what, "inK": mr[3], "others": [x[0][1] for x in py_viol[1:6]]})
        elif ares.disagree and ctx.violations == 0:
            acc_bad += 1
            ctx.violation({"kind": "no-longer-shown", "what": "acceptance of `x: {N} = v` differs from the model's prediction",
                           "correspondence_disagreements": [dict(id=x[0], input=x[1], impl=x[2], model=x[3]) for x in ares.disagree[:10]]},
                          no_input=True)
    # ---- known findings
    for fid, e in entries.items():
        if fid == FLOAT_FINDING:
            fk = [k for k in float_known if k[5] == fid]
            wit = [k for k in fk if k[0] == "k:" + fid]
            if wit:
                ctx.print_known(e, f"{e.get('summary', '')} [witness {wit[0][1][:100]} still differs from CPython as recorded; "
                                   f"{len(fk)} case(s) of this class in this run]")
            elif fk:
                ctx.print_known(e, f"{e.get('summary', '')} [{len(fk)} case(s) of this class in this run]")
        else:
            hits = [k for k in res.known if k[5] == fid] + [k for k in float_known if k[5] == fid]
            wit = [k for k in hits if k[0] == "k:" + fid]
            if wit:
                ctx.print_known(e, f"{e.get('summary', '')} [witness {wit[0][1][:100]} still fails as recorded; {len(hits)} case(s) "
                                   f"of this class in this run]")
            elif hits:
                ctx.print_known(e, f"{e.get('summary', '')} [{len(hits)} case(s) of this class in this run]")


def search_more(ctx, res, proof, bindir):
    """a broken tie without a spec violation in the sample: evaluate the full boundary grid (every pair of pool operands under
    every arithmetic/comparison operator, ~2.5e4 cases) and look for an input on which the implementation violates the spec"""
    known_ids = {e["id"] for e in ctx.known_findings()}
    rc, rows, _ = core.run_harness(bindir, "c04", ["gen", "--seed", str(ctx.seed + 1), "--n", "20000", "--tier", "thorough", "--core"])
    _, mrows, _ = core.run_model(ctx.prop, rows)
    r2 = core.compare(rows, mrows, known_ids)
    if r2.spec_viol:
        v = r2.spec_viol[0]
        return {"kind": "implementation-violates-spec", "found_by": "boundary grid", "case_id": v[0], "input": v[1], "impl": v[2],
                "model": v[3], "spec": v[4], "inK": v[5], "others": [x[1] for x in r2.spec_viol[1:6]]}
    # float rows against CPython
    py = oracle(rows)
    m = {r[0]: r for r in mrows}
    for r in rows:
        mr, p = m.get(r[0]), py.get(r[0])
        if not mr or not p or p == "noDemand" or mr[1].startswith("out-of-model"):
            continue
        lean = lean_expected(mr[2])
        if (lean is None or lean in ("noDemand", "nonInt")) and r[2] not in ("none", "unfolded"):
            iv = impl_value(r[2])
            if (iv is None or iv.replace("(nat ", "(int ") != py_as_value(p)) and not (mr[3] in known_ids and r[2] == mr[1]):
                return {"kind": "implementation-violates-spec", "found_by": "boundary grid vs CPython", "case_id": r[0], "input": r[1],
                        "impl": r[2], "model": mr[1], "spec": "viol:differs from CPython 3.11: " + p, "inK": mr[3]}
    return None


def run(ctx):
    ctx.cov["rule"] = ("expression trees (depth <= 2) over boundary-pool leaves: Nat {0,1,2,..,2^31-1,2^31,2^31+1,3e9,2^32-1,2^32,2^32+1,"
                       "2^53,2^53+1,2^63-1,2^63,2^64-1, random}, Int {0,+-1,..,+-46341,i32::MAX,i32::MIN,.., random}, Bool, Float "
                       "{+-0, 0.1, 1.5, -7.5, 1e308, 5e-324, 2^53, 2^63, 2^64, +-inf, nan, k/8}, all 29 OpKinds (arithmetic and "
                       "comparison weighted 4:1); one third of the trees integer-only (the proved fragment); core stream through the "
                       "hooked eval_bin/eval_unary_val, `fold` stream through HIRBuilder (`N = e`), `accept` stream (`x: {N} = v`, v from "
                       "CPython, v+-1); thorough adds the full grid pool x pool x 13 operators. distinct by input; non-trivial = has an "
                       "operator and the implementation answered with a value")
    ctx.assumptions = ["debug profile (overflow-checks on), as the test-suite and the harness are built",
                       "CPython 3.11 is the run-time semantics (erg's numeric wrappers delegate to int/float; C26 covers them)",
                       "Rust std checked_add/sub/mul/pow/div/rem, try_from and i128 arithmetic behave as documented"]

    def noop(ctx_, e, bindir):
        return None

    core.standard_check(ctx, harness_bin="c04", n_quick=12000, n_thorough=90000, nontrivial=nontrivial,
                        known_replay=noop, post=post, search_more=search_more,
                        trusted=["Lean model of Rust std integer operations (checked_*, try_from, i128) by their documented semantics",
                                 "py/c04_oracle.py under CPython 3.11 (run-time semantics of the expression trees; also validates Spec.lean)",
                                 "driver-level float primitives (Float.ofBits, exact fmod on bit patterns, compiler-rt powi loop): executed, "
                                 "compared bit-for-bit with the implementation on every float row"])


def replay(ctx, path):
    core.standard_replay(ctx, path, "c04")
