"""C05 — definite static errors are always rejected.

* Lean (lean/ErgVerif/C05): a specification type system for an expression/statement fragment and six error injectors as
  functions on programs and positions; theorem C05_inject_untypable: a well-typed program with one injected error (any
  injector, any position `positionsP` lists, any nesting depth) is not well-typed; C05_positions_complete: `positions` lists
  every applicable position.
* Tie (verdict correspondence): base programs are generated here (typed generation mirroring the Lean grammar), the compiled
  Lean driver `ergmodel_c05` confirms `WellTyped`, enumerates ALL positions of all injectors and prints the injected programs
  as Erg source (the test inputs come from the Lean injectors themselves). The real front end (in-process `c34 check`:
  `Compiler` build/link/desugar/optimize) must accept every base program (calibration of the hand-written spec) and must reject
  every injected program with >= 1 error; a sample is also run through the CLI (`erg run`): exit status != 0, >= 1 `Error[#`
  diagnostic, and the marker `print! "C05MARK"` on the first line must not have been executed.
An accepted injected program is a direct violation; its Erg source is the replay.
"""
import json
import os
import re
import shutil
import tempfile
import time
from concurrent.futures import ThreadPoolExecutor

from vlib import core, fraggen, fragrun

MANIFEST_ENTRY = {
    "level_claimed": {"category": "proof",
        "text": "Lean theorem for a specification-level type system of the checked fragment (Nat/Int/Bool/Str, operators + - * < and, "
                "if-expressions, user functions with 1-2 parameters, default arguments, lambdas, loop bodies, keyword arguments `print!(e, end := d)` / `f(a, q := b)`, attribute selection): a "
                "well-typed program with exactly one injected definite error — operand type without a signature row, dropped/added call "
                "argument, argument outside the parameter type, reference to an undefined name, missing attribute — has no typing, for "
                "every injector, every position and any nesting depth (induction on the context around the position). The real checker "
                "is not transcribed: it is tied by verdict correspondence on programs produced by the Lean injectors themselves (base "
                "accepted, injected rejected with >= 1 error and not executed)."},
    "level_note": "proved: C05_inject_untypable (program level), C05_inject_untypable_expr, C05_untypable_propagates, C05_positions_complete, "
                  "C05_sig_clash, C05_witness_lt_enum, C05_witness_loopvar + 5 decide-checked examples (a program with every statement form; positions inside keyword-argument expressions `end := …` / `q := …` are statement slots of the model, hence inside the theorem). The operator/attribute tables of the spec are "
                  "hand-written (not regenerated from the checker) and validated on every run by the calibration direction (every spec-typable "
                  "generated program must be accepted by the real front end). Only differential: the real checker's rejection — all positions "
                  "of the generated programs in the thorough tier, a sample in the quick tier; exit status / diagnostics / non-execution are "
                  "observed through the CLI on a sample, the rest through the in-process front end.",
    "technique": "Lean 4 proof (strict syntax-directed typing, induction on one-hole contexts and on the statement prefix) + verdict correspondence on Lean-generated injected programs",
}

RULE = ("base programs: 4 seed definitions + 4-9 statements (definitions, prints, 1/2-parameter functions, default-argument functions, "
        "lambdas, for-loops, print!(e, end := d), v = f(a, q := b)) over typed expressions of depth <= 3; injected programs: every (injector, statement, slot, path) the Lean "
        "driver enumerates; non-trivial = injected at path depth >= 1 or inside a function/lambda/default/loop slot")

TYS = ["nat", "int", "bool", "str"]


def sub(a, b):
    return (a, b) in {("bool", "bool"), ("bool", "nat"), ("bool", "int"), ("nat", "nat"), ("nat", "int"), ("int", "int"), ("str", "str")}


class G05:
    """typed generation of spec-well-typed programs (exact types; the Lean driver is the authority on WellTyped)"""

    def __init__(self, rng, max_depth=3):
        self.r = rng
        self.G = []          # global variable types
        self.F = []          # ("one"|"oneD"|"two", params, ret, body is enum-ish)
        self.enum_vars = set()
        self.D = max_depth

    def lit(self, t):
        return f"(lit {t} {self.r.below(10)})"

    def expr(self, t, d, env, op=True):
        """an expression of exact type t. `op` = operand position (operator operand, call argument, attribute receiver, condition):
        there the generator uses neither if-expressions nor variables/functions defined by one — the real checker gives those
        enum/union types on which it is incomplete (it rejects `v7 + v7`, `f0() + s`, `if(c, do(-1), do(v5)) - v1` for such
        operands), and C05 needs base programs the checker accepts. If-expressions still nest as statement roots and branches."""
        r = self.r
        vs = [i for i, vt in enumerate(env) if vt == t and not (op and i in self.enum_vars)]
        if d <= 0 or r.chance(1, 5):
            if vs and r.chance(2, 3):
                return f"(var {r.pick(vs)})"
            return self.lit(t)
        k = r.below(10)
        d -= 1
        if k < 2:
            fs = [(j, f) for j, f in enumerate(self.F) if f[2] == t and not (op and f[3])]
            if fs:
                j, f = r.pick(fs)
                if f[0] == "oneD" and r.chance(1, 3):
                    return f"(call0 {j})"
                args = [self.expr(self.argty(p), d, env) for p in f[1]]
                return f"(call{len(args)} {j} " + " ".join(args) + ")"
        if k < 5 and t != "bool" and not op:
            # (Bool-valued if-expressions are left out: the checker does not accept their type `{True} or {False}` as an `if` condition)
            c = self.expr("bool", d, env)
            return f"(ite {c} {self.expr(t, d, env, op=False)} {self.expr(t, d, env, op=False)})"
        if t == "nat":
            if k < 7:
                return f"(bin {r.pick(['add', 'mul'])} {self.expr('nat', d, env)} {self.expr('nat', d, env)})"
            if k == 7:
                return f"(attr {self.expr(r.pick(['nat', 'int']), 0, env)} 0)"
        if t == "int":
            if k < 6:
                return f"(bin sub {self.expr(r.pick(['nat', 'int']), d, env)} {self.expr(r.pick(['nat', 'int']), d, env)})"
            if k == 6:
                a, b = r.pick([("int", "int"), ("int", "nat"), ("nat", "int")])
                return f"(bin {r.pick(['add', 'mul'])} {self.expr(a, d, env)} {self.expr(b, d, env)})"
            if k == 7:
                return f"(attr {self.expr('int', 0, env)} 2)"
        if t == "bool":
            if k < 6:
                a = r.pick(["nat", "int", "nat", "int", "str"])
                b = "str" if a == "str" else r.pick(["nat", "int"])
                return f"(bin lt {self.expr(a, d, env)} {self.expr(b, d, env)})"
            if k < 8:
                return f"(bin and {self.expr('bool', d, env)} {self.expr('bool', d, env)})"
            if k == 8:
                return f"(attr {self.expr('str', 0, env)} 1)"
        if t == "str":
            if k < 8:
                return f"(bin add {self.expr('str', d, env)} {self.expr('str', d, env)})"
        if vs and r.chance(1, 2):
            return f"(var {r.pick(vs)})"
        return self.lit(t)

    def enumish(self, e):
        """the root of e is an if-expression, an enum variable or a call of a function whose body is one"""
        if e.startswith("(ite "):
            return True
        m = re.match(r"\(var (\d+)\)$", e)
        if m:
            return int(m.group(1)) in self.enum_vars
        m = re.match(r"\(call[012] (\d+)", e)
        if m:
            return self.F[int(m.group(1))][3]
        return False

    def argty(self, p):
        """an argument type that is a subtype of the parameter type"""
        if p == "int":
            return self.r.pick(["int", "nat", "int"])
        return p

    def program(self, n_lo=4, n_hi=9):
        r = self.r
        stmts = []
        for t in ["nat", "int", "str", "bool"]:
            stmts.append(f"(defv {self.lit(t)})")
            self.G.append(t)
        n = n_lo + r.below(n_hi - n_lo + 1)
        for _ in range(n):
            k = r.below(12)
            if k < 3:
                t = r.pick(TYS)
                e = self.expr(t, self.D, self.G, op=False)
                if self.enumish(e):
                    self.enum_vars.add(len(self.G))
                stmts.append(f"(defv {e})")
                self.G.append(t)
            elif k < 5:
                stmts.append(f"(print {self.expr(r.pick(TYS), self.D, self.G, op=False)})")
            elif k < 7:
                p, ret = r.pick(TYS), r.pick(TYS)
                e = self.expr(ret, self.D, self.G + [p], op=False)
                stmts.append(f"(fun1 {p} {e})")
                self.F.append(("one", [p], ret, self.enumish(e)))
            elif k == 7:
                p, q, ret = r.pick(TYS), r.pick(TYS), r.pick(TYS)
                e = self.expr(ret, self.D, self.G + [p, q], op=False)
                stmts.append(f"(fun2 {p} {q} {e})")
                self.F.append(("two", [p, q], ret, self.enumish(e)))
            elif k == 8:
                p, ret = r.pick(TYS), r.pick(TYS)
                e = self.expr(ret, self.D, self.G + [p], op=False)
                stmts.append(f"(fun1d {p} {self.expr(self.argty(p), 2, self.G)} {e})")
                self.F.append(("oneD", [p], ret, self.enumish(e)))
            elif k == 9:
                p, ret = r.pick(TYS), r.pick(TYS)
                e = self.expr(ret, self.D, self.G + [p], op=False)
                stmts.append(f"(lam {p} {e})")
                self.F.append(("one", [p], ret, self.enumish(e)))
            elif k == 10 and r.chance(1, 2):
                # keyword arguments: print!(e, end := d) and v = f(a, q := b) — positions inside the keyword expressions
                twos = [(j, f) for j, f in enumerate(self.F) if f[0] == "two"]
                if twos and r.chance(1, 2):
                    j, f = r.pick(twos)
                    stmts.append(f"(defvK {j} {self.expr(self.argty(f[1][0]), self.D, self.G)} {self.expr(self.argty(f[1][1]), self.D, self.G)})")
                    if f[3]:
                        self.enum_vars.add(len(self.G))
                    self.G.append(f[2])
                else:
                    stmts.append(f"(printEnd {self.expr(r.pick(TYS), self.D, self.G, op=False)} {self.expr('str', self.D, self.G)})")
            else:
                # the loop variable has an interval type: like the enum-typed terms it is used only outside operand positions (the
                # checker rejects `(i * i) * (i * i)` as a Nat argument and ACCEPTS `(i + 2) + (i * "s0")`: corpus/C05, recorded)
                self.enum_vars.add(len(self.G))
                stmts.append(f"(forp {1 + r.below(3)} {self.expr(r.pick(TYS), self.D, self.G + ['nat'], op=False)})")
                self.enum_vars.discard(len(self.G))
        if not any(x.startswith("(printEnd") or x.startswith("(defvK") for x in stmts):
            stmts.append(f"(printEnd {self.expr(r.pick(TYS), 2, self.G, op=False)} {self.expr('str', self.D, self.G)})")
        stmts.append(f"(print {self.expr(r.pick(TYS), self.D, self.G, op=False)})")
        return "(prog " + " ".join(stmts) + ")"


ITEM_RE = re.compile(r'\((base|inj) ((?:[^"()]|\([^()]*\))*)"((?:[^"\\]|\\.)*)"\)')


def unq(s):
    out, i = [], 0
    while i < len(s):
        c = s[i]
        if c == "\\":
            i += 1
            e = s[i]
            if e == "n":
                out.append("\n")
            elif e == "t":
                out.append("\t")
            elif e == "r":
                out.append("\r")
            elif e == "u":
                out.append(chr(int(s[i + 1:i + 5], 16))); i += 4
            elif e == "U":
                out.append(chr(int(s[i + 1:i + 7], 16))); i += 6
            else:
                out.append(e)
        else:
            out.append(c)
        i += 1
    return "".join(out)


def stmt_kinds(prog):
    """kinds of the top-level statements of a `(prog …)` S-expression"""
    kinds, depth = [], 0
    for m in re.finditer(r"\(([A-Za-z0-9]+)|\)|\"(?:[^\"\\]|\\.)*\"", prog):
        t = m.group(0)
        if t.startswith("("):
            depth += 1
            if depth == 2:
                kinds.append(m.group(1))
        elif t == ")":
            depth -= 1
    return kinds


def parse_model(col):
    """-> (base dict, [inj dicts])"""
    base, injs = None, []
    for kind, head, src in ITEM_RE.findall(col):
        src = unq(src)
        h = head.split()
        if kind == "base":
            base = {"welltyped": h[0] == "true", "size": int(h[1]), "src": src}
        else:
            m = re.match(r"(\w+) (\d+) (\d+) \(([\d ]*)\) (true|false) (\S+)", head.strip())
            injs.append({"inj": m.group(1), "stmt": int(m.group(2)), "slot": int(m.group(3)),
                         "path": [int(x) for x in m.group(4).split()], "spec_ill": m.group(5) == "true", "k": m.group(6), "src": src})
    return base, injs


def front_end(bindir, cases):
    """in-process verdicts: [(id, src)] -> {id: 'accepted' | 'rejected (errors N) (first "...")' | 'crash(...)'}"""
    inp = "".join(f"{cid}\t(src {core.quote(src)})\n" for cid, src in cases)
    rc, rows, err = core.run_harness(bindir, "c34", ["check"], stdin=inp)
    return {r[0]: r[2] for r in rows}


def cli_run(erg, cases, jobs=4):
    """`erg run` on [(id, src)] -> {id: {rc, errors, marker}}"""
    env = core.erg_env()
    work = tempfile.mkdtemp(prefix="c05-")

    def one(c):
        cid, src = c
        d = os.path.join(work, re.sub(r"[^A-Za-z0-9_]", "_", cid))
        os.makedirs(d, exist_ok=True)
        open(os.path.join(d, "m.er"), "w").write(src)
        rc, out, err = fragrun.run_cmd([erg, "--py-command", core.PYTHONS["3.11"], "run", "m.er"], d, env, timeout=180)
        txt = out + err
        return cid, {"rc": rc, "errors": len(re.findall(r"Error\[#\d+\]", txt)), "marker": "C05MARK" in out,
                     "panic": bool(re.search(r"panicked at|stack overflow|SIGSEGV|SIGABRT", txt)), "tail": re.sub(r"\x1b\[[0-9;]*m", "", txt)[-300:]}
    with ThreadPoolExecutor(max_workers=jobs) as ex:
        res = dict(ex.map(one, cases))
    shutil.rmtree(work, ignore_errors=True)
    return res


def known_for(ctx, item, verdict):
    """an accepted injected program is explained by a listed finding only if the Lean class predicate put it in that class"""
    for e in ctx.known_findings():
        if item.get("k") == e["id"]:
            return e
    return None


def run(ctx):
    ctx.cov["rule"] = RULE
    ctx.assumptions = ["the specification type system is stricter than Erg where Erg is liberal (no unions for if-branches, no Bool arithmetic, "
                       "`and` only on Bool): it is used only on programs it types",
                       "an injected program is judged by the front end alone (build/link/desugar/optimize), i.e. what `erg check` runs"]
    thorough = ctx.tier == "thorough"
    n_base = 400 if thorough else 28
    n_cli = 300 if thorough else 24
    per_base = None if thorough else 12          # quick: sample of the positions of each base program
    proof = core.proof_stage(ctx, "C05", ["ErgVerif.C05.Props", "ergmodel_c05"])
    ok_h, hlog, bindir = core.cargo_build(["c34"])
    ok_e, elog, erg = core.erg_binary()
    checker_cmd = "cd lean && lake build ErgVerif.C05.Props ergmodel_c05 && lake env lean Audit/C05.lean"
    extra = {"axioms": proof["axioms"], "theorems": proof["theorems"], "examples": proof["examples"]}
    if not ok_h or not ok_e:
        ctx.violation({"kind": "build-failed", "harness_log": hlog if not ok_h else "", "erg_log": elog if not ok_e else ""}, no_input=True)
        ctx.write_evidence(proof["obligations"], proof["discharged"], checker_cmd, extra)
        ctx.finish()

    # ------------------------------------------------------------------ base programs -> Lean injectors
    rows = [(cid, inp, "-") for cid, inp in core.corpus_rows("C05") if inp.startswith("(prog ")]
    for i in range(n_base):
        g = G05(fraggen.Rng(ctx.seed * 1000003 + 5000 + i), max_depth=2 + (i % 2))
        rows.append((f"b{i}", g.program(), "-"))
    prog_of = {r_[0]: r_[1] for r_ in rows}
    mrc, mrows, merr = core.run_model("C05", rows)
    spec_contra = [m for m in mrows if m[2].startswith("viol")]
    bases, injected = {}, []
    sizes = []
    rng = fraggen.Rng(ctx.seed + 99)
    not_wt = 0
    for m in mrows:
        base, injs = parse_model(m[1])
        if base is None:
            continue
        if not base["welltyped"]:
            not_wt += 1
            continue
        if thorough and base["size"] > 40 + 30:
            pass
        bases[m[0]] = base
        sizes.append(base["size"])
        kinds = stmt_kinds(prog_of.get(m[0], ""))
        for it in injs:
            it["kw"] = it["stmt"] < len(kinds) and kinds[it["stmt"]] in ("printEnd", "defvK") and it["slot"] == 1
        if per_base is not None and len(injs) > per_base:
            # keep every injector represented, prefer positions inside keyword-argument expressions, then deep positions
            injs.sort(key=lambda x: (not x["kw"], -len(x["path"]), x["inj"]))
            keep, seen = [], set()
            for it in injs:
                if it["inj"] not in seen:
                    keep.append(it); seen.add(it["inj"])
            rest = [it for it in injs if it not in keep]
            while len(keep) < per_base and rest:
                keep.append(rest.pop(rng.below(len(rest))))
            injs = keep
        for j, it in enumerate(injs):
            it["id"] = f"{m[0]}.{it['inj']}.{it['stmt']}.{it['slot']}." + "_".join(map(str, it["path"]))
            it["base"] = m[0]
            injected.append(it)
    # ------------------------------------------------------------------ front end verdicts
    t0 = time.time()
    verd = front_end(bindir, [(cid, b["src"]) for cid, b in bases.items()] + [(it["id"], it["src"]) for it in injected])
    core.log(f"[c05] {len(bases)} base + {len(injected)} injected programs through the in-process front end in {time.time() - t0:.1f}s")
    # a base program on which the front end panics (known: "?L.Output has qvar", the family of DESIGN finding #17, judged by C07) can
    # be neither calibrated nor injected into: it is set aside and counted
    base_crashed = [(cid, b["src"], verd.get(cid, "")) for cid, b in bases.items() if verd.get(cid, "").startswith("crash")]
    base_rejected = [(cid, b["src"], verd.get(cid, "")) for cid, b in bases.items()
                     if not verd.get(cid, "").startswith("accepted") and not verd.get(cid, "").startswith("crash")]
    bad_bases = {cid for cid, _, _ in base_rejected + base_crashed}
    accepted, crashed, no_errors = [], [], []
    known_crash = {}
    hist, err_kinds, depth_hist = {}, {}, {}
    nontrivial = 0
    for it in injected:
        if it["base"] in bad_bases:
            continue
        v = verd.get(it["id"], "")
        hist[it["inj"]] = hist.get(it["inj"], 0) + 1
        dd = len(it["path"])
        depth_hist[dd] = depth_hist.get(dd, 0) + 1
        if dd >= 1 or it["slot"] == 1 or it.get("kw"):
            nontrivial += 1
        if v.startswith("accepted"):
            accepted.append(it)
        elif v.startswith("rejected"):
            m = re.search(r"\(errors (\d+)\)", v)
            if not m or int(m.group(1)) < 1:
                no_errors.append(it)
            k = re.search(r'first "(\w+)', v)
            kk = k.group(1) if k else "?"
            err_kinds[kk] = err_kinds.get(kk, 0) + 1
        else:
            ke = next((e for e in ctx.known_findings() if e.get("match", {}).get("crash_contains") and e["match"]["crash_contains"] in v), None)
            if ke:
                known_crash.setdefault(ke["id"], []).append(it)
            else:
                crashed.append((it, v))
    # ------------------------------------------------------------------ CLI sample: exit status, diagnostics, non-execution
    pool = [it for it in injected if it["base"] not in bad_bases]
    sample = []
    while pool and len(sample) < n_cli:
        sample.append(pool.pop(rng.below(len(pool))))
    base_sample = [(cid, b["src"]) for cid, b in list(bases.items())[:(6 if thorough else 2)] if cid not in bad_bases]
    t0 = time.time()
    cli = cli_run(erg, [(it["id"], it["src"]) for it in sample] + base_sample)
    core.log(f"[c05] {len(sample)} injected + {len(base_sample)} base programs through `erg run` in {time.time() - t0:.1f}s")
    cli_bad = []
    for it in sample:
        c = cli[it["id"]]
        if c["rc"] == 0 or c["errors"] < 1 or c["marker"] or c["panic"]:
            if verd.get(it["id"], "").startswith("accepted") and known_for(ctx, it, "accepted"):
                continue        # already judged (and explained by a listed finding) through the in-process verdict
            if any(it in v for v in known_crash.values()):
                continue
            cli_bad.append((it, c))
    # (an accepted base program may still stop with a run-time exception after the marker: not this property's concern)
    marker_ok = all(cli[cid]["marker"] for cid, _ in base_sample)

    ctx.cov["evaluations"] = len(bases) + len(injected)
    ctx.cov["distinct_nontrivial"] = nontrivial
    ctx.cov["traces_validated_against_impl"] = sum(hist.values()) - len(accepted) - len(crashed) - len(no_errors) + len(bases) - len(base_rejected)
    ctx.cov["samples"] = [{"base": next(iter(bases.values()))["src"] if bases else ""}] + \
                         [{"injected": it["inj"], "at": [it["stmt"], it["slot"], it["path"]], "src": it["src"], "front_end": verd.get(it["id"], "")[:160]}
                          for it in injected[:3]]
    extra.update({"base_programs": len(bases), "base_not_welltyped_in_spec": not_wt, "base_rejected_by_checker": len(base_rejected), "base_front_end_panics": [c[:120] for _, _, c in base_crashed[:5]],
                  "base_rejected_samples": [{"src": b, "front_end": re.sub(r"\\u001b\[[0-9;]*m", "", c)[:300]} for _, b, c in base_rejected[:3]],
                  "base_size_min_max": [min(sizes or [0]), max(sizes or [0])], "injected_programs": len(injected),
                  "injected_by_injector": hist, "injected_by_path_depth": depth_hist, "injected_inside_keyword_argument": sum(1 for it in injected if it.get("kw")), "rejection_error_kinds": err_kinds,
                  "injected_accepted": len(accepted), "injected_crashed": len(crashed), "cli_sample": len(sample),
                  "cli_sample_bad": len(cli_bad), "marker_detects_execution_on_base_programs": marker_ok, "cli_base_sample": {cid: cli[cid] for cid, _ in base_sample},
                  "spec_contradictions": len(spec_contra)})

    # ------------------------------------------------------------------ verdict
    unexplained = []
    known_hits = {}
    for it in accepted:
        e = known_for(ctx, it, "accepted")
        if e:
            known_hits.setdefault(e["id"], []).append(it)
        else:
            unexplained.append(it)
    extra["injected_known_panics"] = {k_: len(v_) for k_, v_ in known_crash.items()}
    for e in ctx.known_findings():
        w = e.get("witness_program")
        if w:
            v = front_end(bindir, [("k", w)]).get("k", "")
            cc = e.get("match", {}).get("crash_contains")
            if cc and cc in v:
                ctx.print_known(e, f"{e.get('summary', '')} [witness still panics: {v[:80]}; {len(known_crash.get(e['id'], []))} generated program(s) of this class in this run]")
            elif v.startswith("accepted"):
                ctx.print_known(e, f"{e.get('summary', '')} [witness still accepted; {len(known_hits.get(e['id'], []))} generated program(s) of this class in this run]")
    if unexplained:
        it = unexplained[0]
        ctx.violation({"kind": "injected-error-accepted", "case_id": it["id"], "injector": it["inj"], "position": [it["stmt"], it["slot"], it["path"]],
                       "erg_source": it["src"], "base_source": bases[it["base"]]["src"],
                       "what": "a program with one injected definite static error (untypable by theorem C05_inject_untypable) is accepted by the real checker",
                       "others": [{"id": x["id"], "erg_source": x["src"]} for x in unexplained[1:6]]})
    elif cli_bad:
        it, c = cli_bad[0]
        ctx.violation({"kind": "injected-error-not-rejected-by-cli", "case_id": it["id"], "injector": it["inj"], "erg_source": it["src"],
                       "cli": c, "what": "`erg run` on an injected program: exit status 0, no error diagnostic, a panic, or the marker line was executed"})
    elif crashed or no_errors:
        it = crashed[0][0] if crashed else no_errors[0]
        ctx.violation({"kind": "injected-error-no-diagnostic", "case_id": it["id"], "injector": it["inj"], "erg_source": it["src"],
                       "front_end": verd.get(it["id"], ""), "what": "the front end crashed or rejected without an error diagnostic"})
    elif spec_contra or not proof["ok"] or mrc != 0 or base_rejected or not marker_ok or not injected:
        ctx.violation({"kind": "no-longer-shown",
                       "what": "a proof obligation fails, the compiled injectors contradict the theorem, or the calibration direction fails (a program "
                               "the specification types is rejected by the real checker: the hand-written tables no longer describe the checker); "
                               f"no accepted injected program among {len(injected)}",
                       "proof_problems": proof["problems"], "build_log_tail": proof["log"][-2500:] if not proof["ok"] else "",
                       "spec_typable_but_rejected": [{"id": a, "erg_source": b, "front_end": c[:300]} for a, b, c in base_rejected[:5]],
                       "marker_ok": marker_ok}, no_input=True)
    ctx.write_evidence(proof["obligations"], proof["discharged"], checker_cmd, extra,
                       trusted=["Erg text emitter of lean/Driver/C05.lean (names, literals, layout)", "typed generator of checks/c05.py (the driver re-checks WellTyped)",
                                "hand-written operator/attribute/subtype tables of lean/ErgVerif/C05/Model.lean (calibrated against the checker on every run)"])
    ctx.finish()


def replay(ctx, path):
    rp = json.load(open(path))
    ok_h, _, bindir = core.cargo_build(["c34"])
    src = rp.get("erg_source")
    if not src:
        print("replay file names no program:", json.dumps(rp.get("proof_problems", rp.get("what", "")))[:2000])
        raise SystemExit(1)
    v = front_end(bindir, [("r", src)]).get("r", "")
    print(src)
    print("front end:", v)
    bad = not v.startswith("rejected")
    print("still failing" if bad else "no longer failing")
    raise SystemExit(1 if bad else 0)


def soak(seed0, nseeds, n):
    """python3 -m checks.c05 soak <first seed> <seeds> <base programs per seed>: all positions, in-process front end only"""
    ok_h, _, bindir = core.cargo_build(["c34"])
    ctx = core.Ctx("C05", "quick", 0)
    for seed in range(seed0, seed0 + nseeds):
        rows = [(f"b{i}", G05(fraggen.Rng(seed * 1000003 + 5000 + i), max_depth=2 + (i % 2)).program(), "-") for i in range(n)]
        _, mrows, _ = core.run_model("C05", rows)
        cases, items = [], {}
        for m in mrows:
            base, injs = parse_model(m[1])
            if not base or not base["welltyped"]:
                continue
            cases.append((m[0], base["src"]))
            for j, it in enumerate(injs):
                it["id"] = f"{m[0]}.{j}"
                items[it["id"]] = it
                cases.append((it["id"], it["src"]))
        verd = front_end(bindir, cases)
        bad_base = {cid for cid, _ in cases if "." not in cid and not verd.get(cid, "").startswith("accepted")}
        acc = [it for cid, it in items.items() if cid.split(".")[0] not in bad_base and verd.get(cid, "").startswith("accepted")]
        unk = [it for it in acc if not known_for(ctx, it, "accepted")]
        crash = [cid for cid, it in items.items() if verd.get(cid, "").startswith("crash") and cid.split(".")[0] not in bad_base]
        print(f"seed {seed}: bases {n - len(bad_base)}/{n} usable ({sorted(verd.get(c, '')[:40] for c in bad_base)}), injected {len(items)}, "
              f"accepted {len(acc)} (unexplained {len(unk)}), crashes {len(crash)}", flush=True)
        for it in unk[:3]:
            print("UNEXPLAINED", it["inj"], it["stmt"], it["slot"], it["path"])
            print(it["src"])
        for c in crash[:2]:
            print("CRASH", verd[c][:200])
            print(items[c]["src"])


if __name__ == "__main__":
    import sys
    if len(sys.argv) >= 5 and sys.argv[1] == "soak":
        soak(int(sys.argv[2]), int(sys.argv[3]), int(sys.argv[4]))
