"""C15 — constants and .pyc files round-trip through marshal and erg's reader.
Lean: ErgVerif/Shared/Marshal.lean (writer + reader transcriptions, CPython r_object spec), ErgVerif/C15/{Model,Proofs,Props}.lean.
Ties: (1) T-corr on the writer and the reader (harness c15: generated values, synthetic code objects, code objects of programs compiled
in-process for 3.7–3.11, truncated/mutated encodings and .pyc files; every case in a worker child so that an abort is an outcome);
(2) validation of the r_object specification against marshal.loads under each installed interpreter 3.7–3.11 on the bytes the
implementation wrote; (3) `erg --mode read` in a child process on files the compiler wrote and on damaged copies, against the model."""
import os
import re
import tempfile

from vlib import core

MANIFEST_ENTRY = {
    "level_claimed": {"category": "proof",
        "text": "Lean theorems over all values (nested tuples and code objects unbounded): the bytes erg's writer produces are read by a "
                "specification of CPython's r_object as the same value of the same type (every i32, every Nat below 2^64 incl. the long form, "
                "float bit patterns, arbitrary Unicode, bool/None/tuples/nested code objects, per target 3.7–3.11), and erg's own reader "
                "reads them back (up to the documented normalisation) except 3.11 code objects with cell variables; the reader's crash "
                "sites on other input are transcribed and witnessed. Writer, reader and the r_object specification are tied to the real "
                "code / real interpreters by differential runs on every check."},
    "level_note": "trusted: Lean kernel + {propext, Quot.sound, Classical.choice}; the transcription of into_bytes/from_bytes is checked by "
                  "differential runs (not verified); Spec.PyMarshal is validated against marshal.loads of 3.7–3.11 on emitted bytes, FLAG_REF "
                  "back-references and the 2000-level recursion limit are not modelled; C15_reader_total is false of the code (recorded "
                  "findings C15-reader-crash-on-malformed, C15-reader-311-closure-kind): proved are the crash witnesses and the round trip on "
                  "well-formed values; `code_info` (the disassembly printed by --mode read) is exercised through the CLI only.",
    "technique": "Lean 4 proof (mutual structural induction on values, fuel-indexed readers) + differential correspondence + oracle validation",
}

MAGIC = {7: 3394, 8: 3413, 9: 3425, 10: 3439, 11: 3495}


def nontrivial(row):
    i = row[1]
    return i.startswith("(p ") or "(code" in i or "(tuple" in i or "(list" in i or "(nat" in i or i.startswith("(r") or i.startswith("(pyc")


def impl_bytes(impl):
    m = re.search(r"\(bytes (x[0-9a-f]*)\)", impl)
    return m.group(1) if m else None


def oracle_stream(ctx, rows):
    """validate Spec.PyMarshal (pyRead) against marshal.loads of the matching interpreter on bytes the implementation wrote"""
    cases = []
    for r in rows:
        m = re.match(r"\((w|p) (\d+) ", r[1])
        hx = impl_bytes(r[2])
        if m and hx and len(hx) < 400000:
            cases.append((f"o:{r[0]}", f"(pyread {m.group(2)} {hx})"))
    script = os.path.join(core.VERIF, "py", "c15_marshal_oracle.py")
    orows = []
    for ver, exe in core.PYTHONS.items():
        minor = int(ver.split(".")[1])
        if minor not in MAGIC or not os.path.exists(exe):
            continue
        mine = [c for c in cases if c[1].startswith(f"(pyread {minor} ")]
        while mine:
            # marshal is not safe on arbitrary code objects: an interpreter that dies on a case is an outcome of that case
            rc, out, err = core.sh([exe, script], input="".join(f"{a}\t{b}\n" for a, b in mine), timeout=1200)
            got = core.parse_lines(out, 3)
            orows += got
            if rc == 0 or len(got) >= len(mine):
                break
            orows.append([mine[len(got)][0], mine[len(got)][1], "(interpreter-died)"])
            mine = mine[len(got) + 1:]
    _, mrows, _ = core.run_model("C15", orows)
    mm = {r[0]: r for r in mrows}
    agree, raised, rejected, bad = 0, 0, 0, []
    for r in orows:
        mo = mm.get(r[0], ["", "<none>"])[1]
        if mo == r[2] or (mo.startswith("(raise") and r[2].startswith("(raise")):
            agree += 1
            raised += r[2].startswith("(raise")
        elif r[0].startswith("o:w") and r[2] in ("(raise)", "(interpreter-died)") and "(code " in mo:
            # a synthetic code object whose fields the interpreter's code constructor rejects (argument counts vs varnames, odd code
            # length, ...): the specification covers r_object's parse, not the constructor's checks; never tolerated for code objects of
            # compiled programs (ids o:p…)
            rejected += 1
        else:
            bad.append({"id": r[0], "input": r[1][:2000], "interpreter_says": r[2][:1500], "spec_says": mo[:1500]})
    ctx.cov["oracle_cases"] = len(orows)
    ctx.cov["oracle_agree"] = agree
    ctx.cov["oracle_raise_agree"] = raised
    ctx.cov["oracle_synthetic_code_rejected_by_constructor"] = rejected
    if bad:
        ctx.violation({"kind": "spec-validation-failed", "what": "Spec.PyMarshal.read disagrees with marshal.loads of the target interpreter "
                       "on bytes the implementation wrote (either the specification is wrong or the writer emits something the "
                       "interpreter reads differently)", "cases": bad[:5]}, no_input=not bad)


def cli_stream(ctx, rows):
    """`erg --mode read` in a child: files the compiler wrote and damaged copies; outcome class against the model's reader"""
    ok, log_, erg = core.erg_binary()
    if not ok:
        ctx.violation({"kind": "erg-cli-build-failed", "log": log_}, no_input=True)
        return
    files = []
    seen = set()
    for r in rows:
        m = re.match(r"\(p (\d+) ", r[1])
        hx = impl_bytes(r[2])
        if not (m and hx) or len(hx) > 60000:
            continue
        minor = int(m.group(1))
        key = (minor, "kind" in r[2])
        if key in seen and (ctx.tier != "thorough" or len(files) >= 150):
            continue
        seen.add(key)
        data = (0x0A0D0000 | MAGIC[minor]).to_bytes(4, "little") + bytes(12) + bytes.fromhex(hx[1:])
        files.append((f"cli:{r[0]}", data))
        files.append((f"cli:{r[0]}:trunc40", data[:40]))
        files.append((f"cli:{r[0]}:trunc", data[:len(data) * 2 // 3]))
    files.append(("cli:empty", b""))
    files.append(("cli:badmagic", bytes([1, 2, 13, 10]) + bytes(12) + b"\xe3"))
    crow = [(i, "(pyc x%s)" % d.hex(), "") for i, d in files]
    _, mrows, _ = core.run_model("C15", crow)
    mm = {r[0]: r for r in mrows}
    tmp = tempfile.mkdtemp(prefix="c15cli")
    stats = {"ok": 0, "err": 0, "panic": 0}
    bad = []
    for cid, data in files:
        f = os.path.join(tmp, "t.pyc")
        open(f, "wb").write(data)
        rc, out, err = core.sh([erg, "--mode", "read", f], env=core.erg_env(), timeout=120)
        cls = "panic" if "panicked" in err else ("ok" if rc == 0 else ("err" if "failed to deserialize" in err else f"rc{rc}"))
        stats[cls] = stats.get(cls, 0) + 1
        model = mm.get(cid, ["", ""])[1]
        mcls = "ok" if model.startswith("(read (ok") else ("err" if model.startswith("(read (err") else "panic")
        if cls != mcls:
            bad.append({"id": cid, "file_hex": data.hex()[:4000], "cli": cls, "model": model[:300], "stderr": err[-600:]})
    try:
        os.remove(os.path.join(tmp, "t.pyc"))
        os.rmdir(tmp)
    except OSError:
        pass
    ctx.cov["cli_read_runs"] = len(files)
    ctx.cov["cli_read_outcomes"] = stats
    if bad:
        b = bad[0]
        ctx.violation({"kind": "cli-reader-disagrees-with-model", "what": "`erg --mode read` on this file does not end the way the "
                       "transcribed reader predicts (ok / reported error / panic); write the hex to a file and run erg --mode read on it",
                       "input": "(pyc x%s)" % b["file_hex"], "cases": bad[:5]})


def post(ctx, rows, res, bindir):
    ctx.cov["streams"] = {k: sum(1 for r in rows if r[0].startswith(k)) for k in ("w", "m", "p", "k:")}
    kinds = {}
    for r in rows:
        m = re.search(r"\(read \((ok|err [a-z_]+|crash [a-z0-9-]+)", r[2])
        k = m.group(1) if m else r[2][:20]
        kinds[k] = kinds.get(k, 0) + 1
    ctx.cov["reader_outcomes"] = kinds
    oracle_stream(ctx, rows)
    cli_stream(ctx, rows)


def pre(ctx, bindir):
    # the model's `valueObjSize` is `size_of::<ValueObj>()` of the tree under test
    rc, out, _ = core.sh([os.path.join(bindir, "c15"), "sizeof"])
    model = re.search(r"def valueObjSize : Nat := (\d+)", open(os.path.join(core.LEAN, "ErgVerif/Shared/Marshal.lean")).read()).group(1)
    ctx.cov["sizeof_ValueObj"] = out.strip()
    if out.strip() != model:
        ctx.notes.append(f"size_of::<ValueObj>() = {out.strip()} but the model says {model}: allocation-failure predictions of the reader model "
                         "(crash abort) may be off; update valueObjSize")


def run(ctx):
    ctx.cov["rule"] = ("values by type with boundary pools (all i32/u64/float-bit boundaries, strings of 0/255/256/65535/65536 bytes with "
                       "ASCII, BMP, astral and control characters, tuples of 0..5 and 255/256/257 elements, nested code objects), code "
                       "objects of generated and fixed programs for 3.7–3.11, truncations / bit flips / insertions / deletions of valid "
                       "encodings; non-trivial = container, code object, Nat, program or malformed input; distinct by input")
    ctx.assumptions = ["u32 header fields below 2^31 and lengths below 2^31 (marshal's own limits); nesting below CPython's 2000-level limit",
                       "no FLAG_REF back-references (`r`) in the input of the r_object specification (erg never writes them)"]
    core.standard_check(ctx, harness_bin="c15", n_quick=400, n_thorough=2000, nontrivial=nontrivial, pre=pre, post=post,
                        trusted=["Spec.PyMarshal (Lean transcription of CPython's r_object), validated against marshal.loads of 3.7–3.11 on every run",
                                 "py/c15_marshal_oracle.py (prints unmarshalled objects)"])


def replay(ctx, path):
    core.standard_replay(ctx, path, "c15")
