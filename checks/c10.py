"""C10 — parsing is deterministic and insensitive to comments and layout.
Lean (lexer level): C10_comment_skip, C10_spaces_skip (a comment / a run of spaces changes nothing of the lexer state but the cursor), witnesses for each
rewrite and for the three recorded findings; tie: the shared rewrite definitions applied at token boundaries of generated programs, `(kind, content)`
token streams compared by the lexer model, `SimpleParser::parse` trees compared (printed tree; `==` reported) and parsed twice for determinism."""
from vlib import core
from checks import c08

MANIFEST_ENTRY = {
    "level_claimed": {"category": "proof",
        "text": "Lean theorems on the lexer transcription (Shared/Lex): a line comment without bidi controls and a run of spaces are skipped leaving the whole lexer "
                "state unchanged except the cursor (C10_comment_skip, C10_spaces_skip: the simulation cores of comment / trailing-space invariance), machine-checked "
                "witnesses for every rewrite and for three findings; whole-program invariance of token streams and of SimpleParser trees under the rewrites "
                "(comment, trailing spaces, blank line, comment line, backslash continuation, #[ ]#, redundant parentheses) and determinism are checked on "
                "every generated case with rewrite definitions shared between driver and harness."},
    "level_note": "partial (tier E): proved = the two skip lemmas for all states + witnesses; NOT proved = whole-token-stream invariance theorems per rewrite (only evaluated "
                  "per case by the model and compared with the implementation) and C10_parens on the operator-parser model (tie only: literal operands after a binary "
                  "operator/=/,/bracket). The whole-grammar parser is not transcribed. Trees are compared by their printed form because derived `==` also compares "
                  "explicit Locations inside some nodes (reported as `eq`). Three findings recorded (space after #[ ]#, column-0 comment line in a block, "
                  "continuation directly after an operator).",
    "technique": "Lean 4 proof (simulation lemmas on the lexer model) + differential correspondence (token streams, AST equality, determinism)",
}


def nontrivial(row):
    return "do:" in row[1] or "->" in row[1] or "\\\\t" in row[1]


def post(ctx, rows, res, bindir):
    hist = {}
    for r in rows:
        k = r[1].split(" ")[1] if r[1].startswith("(rw ") else "?"
        key = k + " " + r[2].split(") (det")[0] + ")"
        hist[key] = hist.get(key, 0) + 1
    ctx.cov["rewrite_outcomes"] = dict(sorted(hist.items(), key=lambda kv: -kv[1])[:30])


def run(ctx):
    ctx.cov["rule"] = ("75% generated programs, 25% corpus programs (the repository's examples/ and tests/should_ok/ files that parse, <= 4000 characters); blank-line and "
                       "comment-line rewrites insert runs of 1-4 lines (comment lines indented like the following line, like the preceding line = the block opener, or in "
                       "column 0) at EVERY line boundary incl. directly after a block opener (=, ->, =>, do:, do!:, `C.`) and between the statements of a block; "
                       "generated programs (definitions, operator expressions over 17 atoms incl. escaped strings/interpolation/brackets, command calls, indented blocks, "
                       "lambdas with nested if/do blocks) x rewrite kind x an admissible offset taken from the real lexer's token positions (Newline offsets for "
                       "comment/spaces/blank/comment line, a space between two tokens for continuation and #[ ]#, a literal operand after an operator/=/,/bracket "
                       "for parentheses); non-trivial = program has a block, a lambda or an escape")
    ctx.assumptions = ["tree equality = equality of the printed tree (position-free); derived == reported separately"]
    import os
    corpus_dirs = [os.path.join(core.REPO, "examples"), os.path.join(core.REPO, "tests", "should_ok")]
    core.standard_check(ctx, harness_bin="c10", n_quick=6000, n_thorough=60000, nontrivial=nontrivial, pre=c08.regen_xid, post=post,
                        extra_gen_args=["--corpus"] + corpus_dirs)


def replay(ctx, path):
    core.standard_replay(ctx, path, "c10")
