"""C28 — the language server's document copy matches the client's.

Lean theorems (C28_full, C28_history, C28_pos_index, ...) on a transcription of els `pos_to_byte_index`,
`FileCache::incremental_update`/`update` and `String::replace_range`, against the LSP text-edit semantics; tied to the Rust code
by correspondence on generated edit histories (hooked functions in-process) and by an end-to-end stream through
`els::Server::bind_fake_client()` (didOpen/didChange as JSON, copy read back from the file cache and VFS, server must still answer)."""
import re

from vlib import core

MANIFEST_ENTRY = {
    "level_claimed": {"category": "proof",
        "text": "Lean theorems for every document (any characters), every position and every list / history of content changes: the "
                "transcribed pos_to_byte_index returns the UTF-8 length of the prefix the LSP position denotes (UTF-16 columns, "
                "\\n, \\r\\n and \\r line ends, column past line end = line end, line past the end = document end), and "
                "incremental_update never panics and yields exactly the client's copy whenever no range has its start after its end "
                "(C28_full), for histories of any length with increasing versions (C28_history), starting from a didOpen that replaces "
                "whatever entry the server held (C28_open, C28_session); the model is tied to the Rust code by "
                "correspondence on generated edit histories over ASCII/BMP/astral documents and by an end-to-end stream through the fake client."},
    "level_note": "trusted: Lean kernel + {propext, Quot.sound, Classical.choice}; the LSP semantics (Spec.offset/apply) is a hand-written "
                  "specification, cross-checked by the proved round trip with the scanned position of an offset (C28_spec_roundtrip) and "
                  "monotonicity (C28_offset_mono); String::replace_range and char::len_utf8/len_utf16 are modelled (validated on every case); "
                  "the transcription is checked by differential runs, not verified; the lexer run inside update(), quick_check_file before "
                  "the update, JSON deserialisation and u32 overflow of line/column counters are outside "
                  "the model (only exercised by the end-to-end stream); 'keeps running' end-to-end = no panic in dispatch and a later hover "
                  "request is answered.",
    "technique": "Lean 4 proof (loop invariant of the position scan against a line-recursive specification, byte/char prefix lemmas, "
                 "induction over change lists and histories) + differential correspondence (unit hooks + fake-client end-to-end)",
}


def nontrivial(row):
    # an edit history is non-trivial when it has at least one ranged change and the texts involve a non-ASCII character
    return "(ch " in row[1] and ("\\u" in row[1] or "\\U" in row[1])


def _distribution(rows):
    d = {"cases": len(rows), "e2e_cases": 0, "with_bmp": 0, "with_astral": 0, "with_crlf": 0, "with_lone_cr": 0, "multi_change_note": 0,
         "full_replacement": 0, "empty_change_list": 0, "col_idiom_ge_99": 0, "impl_crash": 0, "notes_total": 0, "changes_total": 0,
         "probes_total": 0, "empty_document": 0, "doc_ends_multibyte": 0, "preloaded_from_disk": 0}
    for r in rows:
        inp, impl = r[1], r[2]
        if inp.startswith("(e2e)"):
            d["e2e_cases"] += 1
        if "\\u" in inp:
            d["with_bmp"] += 1
        if "\\U" in inp:
            d["with_astral"] += 1
        if "\\r\\n" in inp:
            d["with_crlf"] += 1
        if re.search(r"\\r(?!\\n)", inp):
            d["with_lone_cr"] += 1
        notes = re.findall(r"\(note -?\d+((?: \((?:ch|full) (?:[^\"]|\"(?:[^\"\\]|\\.)*\")*?\))*)\)", inp)
        d["notes_total"] += len(notes)
        for n in notes:
            k = n.count("(ch ") + n.count("(full ")
            d["changes_total"] += k
            if k > 1:
                d["multi_change_note"] += 1
            if k == 0:
                d["empty_change_list"] += 1
        d["full_replacement"] += inp.count("(full ")
        if re.search(r"\(ch \d+ (\d{2,}) ", inp) or re.search(r"\(ch \d+ \d+ \d+ (\d{2,}) ", inp):
            d["col_idiom_ge_99"] += 1
        if "(crash" in impl:
            d["impl_crash"] += 1
        m = re.search(r"\(probes((?: \(\d+ \d+\))*)\)", inp)
        if m:
            d["probes_total"] += m.group(1).count("(")
        if "(disk " in inp:
            d["preloaded_from_disk"] += 1
        m = re.search(r"\(open -?\d+ \"((?:[^\"\\]|\\.)*)\"", inp)
        if m:
            if m.group(1) == "":
                d["empty_document"] += 1
            if re.search(r"\\[uU][0-9a-f]+$", m.group(1)):
                d["doc_ends_multibyte"] += 1
    return d


# ------------------------------------------------------------------------------------------- shrinking / searching

def _tok(s):
    """tiny S-expression reader/printer on the case syntax (strings kept verbatim, with their escapes)"""
    out, i, n = [], 0, len(s)
    stack = [out]
    while i < n:
        c = s[i]
        if c.isspace():
            i += 1
        elif c == "(":
            new = []
            stack[-1].append(new)
            stack.append(new)
            i += 1
        elif c == ")":
            stack.pop()
            i += 1
        elif c == '"':
            j = i + 1
            while s[j] != '"':
                j += 2 if s[j] == "\\" else 1
            stack[-1].append(s[i:j + 1])
            i = j + 1
        else:
            j = i
            while j < n and not s[j].isspace() and s[j] not in '()"':
                j += 1
            stack[-1].append(s[i:j])
            i = j
    return out


def _show(x):
    if isinstance(x, list):
        return "(" + " ".join(_show(y) for y in x) + ")"
    return x


def _show_case(items):
    return " ".join(_show(x) for x in items)


def _units(lit):
    """split the inside of a quoted literal into escape units"""
    body, out, i = lit[1:-1], [], 0
    while i < len(body):
        if body[i] == "\\":
            k = {"u": 6, "U": 8}.get(body[i + 1], 2)
            out.append(body[i:i + k])
            i += k
        else:
            out.append(body[i])
            i += 1
    return out


def _eval(ctx, bindir, inputs):
    """run harness replay + model on a list of inputs; returns list of (impl, model, spec)"""
    stdin = "".join(f"s{i}\t{x}\n" for i, x in enumerate(inputs))
    _, rows, _ = core.run_harness(bindir, "c28", ["replay"], stdin=stdin, timeout=600)
    _, mrows, _ = core.run_model(ctx.prop, rows)
    m = {r[0]: r for r in mrows}
    res = []
    for r in rows:
        mr = m.get(r[0], ["", "", "", ""])
        res.append((r[2], mr[1], mr[2]))
    return res


def _fails(ctx, bindir, case_txt):
    r = _eval(ctx, bindir, [case_txt])
    return bool(r) and r[0][2].startswith("viol")


def shrink(ctx, v, bindir):
    """delta-debugging on the history: fewer notes, fewer changes, shorter texts — keeping a spec violation"""
    try:
        return _shrink(ctx, v, bindir)
    except Exception as e:  # a failing shrinker must never hide the unshrunk replay
        core.log(f"[shrink] gave up: {e!r}")
        return None


def _shrink(ctx, v, bindir):
    cid, inp = v[0], v[1]
    items = _tok(inp)
    budget = [120]

    def ok(cand):
        if budget[0] <= 0:
            return False
        budget[0] -= 1
        return _fails(ctx, bindir, _show_case(cand))

    cur = items
    # 1. leave the end-to-end path if the hooked functions alone reproduce it; drop probes; truncate notes
    for drop in (lambda x: x == ["e2e"], lambda x: isinstance(x, list) and x and x[0] == "probes",
                 lambda x: isinstance(x, list) and x and x[0] == "disk"):
        cand = [x for x in cur if not drop(x)]
        if cand != cur and ok(cand):
            cur = cand
    changed = True
    while changed and budget[0] > 0:
        changed = False
        # drop a note, or a change inside a note
        for i, x in enumerate(cur):
            if isinstance(x, list) and x and x[0] == "note":
                cand = cur[:i] + cur[i + 1:]
                if ok(cand):
                    cur, changed = cand, True
                    break
                for j in range(2, len(x)):
                    cand = cur[:i] + [x[:j] + x[j + 1:]] + cur[i + 1:]
                    if ok(cand):
                        cur, changed = cand, True
                        break
                if changed:
                    break
        if changed:
            continue
        # shorten a text by one escape unit
        for i, x in enumerate(cur):
            if not isinstance(x, list):
                continue
            targets = []
            if x[0] == "open":
                targets.append((None, 2))
            if x[0] == "disk":
                targets.append((None, 1))
            if x[0] == "note":
                for j in range(2, len(x)):
                    targets.append((j, len(x[j]) - 1))
            for (j, k) in targets:
                lit = x[k] if j is None else x[j][k]
                us = _units(lit)
                for u in range(len(us)):
                    new_lit = '"' + "".join(us[:u] + us[u + 1:]) + '"'
                    if j is None:
                        nx = x[:k] + [new_lit] + x[k + 1:]
                    else:
                        nx = x[:j] + [x[j][:k] + [new_lit]] + x[j + 1:]
                    cand = cur[:i] + [nx] + cur[i + 1:]
                    if ok(cand):
                        cur, changed = cand, True
                        break
                if changed:
                    break
            if changed:
                break
    if cur == items:
        return None
    txt = _show_case(cur)
    r = _eval(ctx, bindir, [txt])
    if not r or not r[0][2].startswith("viol"):
        return None
    return (cid + "-shrunk", txt, r[0][0], r[0][1], r[0][2], "0")


def search_more(ctx, res, proof, bindir):
    """model/implementation disagreement (or broken proof) without a spec violation among the generated cases: look further —
    more seeds, and the disagreeing cases' neighbourhood (the same histories with conformant versions) — for an input on which
    the implementation violates the LSP semantics"""
    try:
        return _search_more(ctx, res, proof, bindir)
    except Exception as e:
        core.log(f"[search_more] gave up: {e!r}")
        return None


def _search_more(ctx, res, proof, bindir):
    cands = []
    for d in res.disagree[:20]:
        items = _tok(d[1])
        # same history with strictly increasing versions (turns a tolerated non-conformant case into a conformant one)
        v = 0
        new = []
        for x in items:
            if isinstance(x, list) and x and x[0] == "open":
                new.append(["open", "0"] + x[2:])
            elif isinstance(x, list) and x and x[0] == "note":
                v += 1
                new.append(["note", str(v)] + x[2:])
            else:
                new.append(x)
        cands.append(_show_case(new))
    if cands:
        for (inp, r) in zip(cands, _eval(ctx, bindir, cands)):
            if r[2].startswith("viol"):
                return {"kind": "implementation-violates-spec", "found_by": "search around a model/implementation disagreement",
                        "input": inp, "impl": r[0], "model": r[1], "spec": r[2]}
    for k in range(1, 6):
        rc, rows, _ = core.run_harness(bindir, "c28", ["gen", "--seed", str(ctx.seed + 1000 * k), "--n", "4000", "--tier", ctx.tier, "--e2e", "10"],
                                       timeout=1800)
        _, mrows, _ = core.run_model(ctx.prop, rows)
        r2 = core.compare(rows, mrows, set())
        if r2.spec_viol:
            v = r2.spec_viol[0]
            v = shrink(ctx, v, bindir) or v
            return {"kind": "implementation-violates-spec", "found_by": f"extra seed {ctx.seed + 1000 * k}", "case_id": v[0],
                    "input": v[1], "impl": v[2], "model": v[3], "spec": v[4]}
    return None


def run(ctx):
    thorough = ctx.tier == "thorough"
    ctx.cov["rule"] = ("edit histories: didOpen + 0..6 didChange notifications of 0..3 content changes (insert / delete / replace / range-less "
                       "full replacement) over documents of 0..6 lines mixing ASCII, BMP (2- and 3-byte) and astral characters, \\n / \\r\\n / "
                       "\\r line ends, documents ending in a multi-byte character; positions: exact boundaries, line end, past line end "
                       "(+1..3, 99, 65535, 2^32-1), line past the end, inside a surrogate pair, reversed ranges and stale versions (rare, "
                       "non-conformant: model tie only); 1 in 8 documents was already loaded from disk by the server (same or other "
                       "text) before the client opens it; every position is chosen in the copy the real code holds at that point; plus probes "
                       "of pos_to_byte_index; plus an end-to-end stream through bind_fake_client. distinct by input; non-trivial = has a ranged "
                       "change and a non-ASCII character")
    ctx.assumptions = ["documents shorter than 2^32 lines / UTF-16 units per line (u32 counters are modelled as Nat)",
                       "the client is LSP-conformant: versions strictly increase, range start is not after range end (other inputs are "
                       "tied to the model but the specification makes no demand on them)",
                       "one didOpen per document in a generated history (didClose is not handled by the server at all; a re-open is "
                       "covered by theorem C28_open: didOpen replaces whatever entry exists)",
                       "positionEncoding is UTF-16 (the only encoding the server announces)"]

    def post(ctx, rows, res, bindir):
        ctx.cov["input_distribution"] = _distribution(rows)

    core.standard_check(ctx, harness_bin="c28", kind="harness-els", n_quick=6000, n_thorough=100000,
                        extra_gen_args=["--e2e", "300" if thorough else "60"], nontrivial=nontrivial,
                        trusted=["Lean model of String::replace_range / is_char_boundary / len_utf8 / len_utf16 (validated on every case)",
                                 "LSP 3.17 position semantics as written in ErgVerif.C28.Spec (hand-written; cross-checked by "
                                 "C28_spec_roundtrip and C28_offset_mono)",
                                 "molc fake client + serde JSON encoding of the notifications (end-to-end stream)"],
                        search_more=search_more, shrink=shrink, post=post)


def replay(ctx, path):
    core.standard_replay(ctx, path, "c28", kind="harness-els")
