"""C26 — runtime classes agree with Python and with their declared types.

T-gen x2: method tables of the int/bool family regenerated from _erg_*.py (py/c26_extract_runtime.py -> Gen/C26Runtime.lean),
declared result classes regenerated from the real checker (harness `c26 dump` -> Gen/C26Declared.lean); Lean theorems over a
hand-written Spec table with the regenerated obligations `gen_plans_eq_spec` / `gen_declared_eq_spec`.
Tie: py/c26_runtime_oracle.py executes the real classes (and the builtins) under every interpreter 3.7-3.11; the compiled Lean
model (dispatch model applied to the REGENERATED tables) must print the same line; the Lean spec judges the implementation's
answer. Float/Str/List rows: executed, compared with the builtins' answers and across interpreters only."""
import hashlib
import json
import os
import re

from vlib import core

PROP = "C26"
MANIFEST_ENTRY = {
    "level_claimed": {"category": "proof",
        "text": "Lean theorems for ALL integer operand values and all operand classes of the int/bool family (int, bool, Int, Nat, Bool and "
                "the mutable IntMut/NatMut/BoolMut, mixed wrapper/plain): results equal Python's integer arithmetic, no Nat-like object is "
                "negative, result classes and value sets conform to the classes the real checker declares, no spurious ValueError/TypeError "
                "(partial, with machine-checked witnesses for the recorded findings); the theorems are about a model of CPython's operator "
                "dispatch applied to method tables regenerated from _erg_*.py and declared classes regenerated from the checker on every run, "
                "validated against the real classes under Python 3.7-3.11."},
    "level_note": "trusted: Lean kernel + {propext, Quot.sound, Classical.choice}; the dispatch model (binary_op1/SLOT1BINFULL/do_richcompare in the "
                  "documented form, MRO lookup, super(), int.__new__+__init__, then__) and the AST->term extractor are validated differentially "
                  "(every (op, class, class) triple on every run, 5 interpreters), not verified; Float/Str/List and named methods are executed "
                  "and compared with the builtins only (no theorems); `/` and `**` with a negative exponent leave the integer family and are "
                  "executed only.",
    "technique": "Lean 4 proof (class-level dispatch evaluated by `decide` into plans + general lemmas about plan execution for all integers) over "
                 "regenerated tables + differential validation against CPython",
}

GEN_RT = os.path.join(core.LEAN, "ErgVerif", "Gen", "C26Runtime.lean")
GEN_DECL = os.path.join(core.LEAN, "ErgVerif", "Gen", "C26Declared.lean")
PY_EXTRACT = os.path.join(core.VERIF, "py", "c26_extract_runtime.py")
PY_ORACLE = os.path.join(core.VERIF, "py", "c26_runtime_oracle.py")
TIE_PYTHONS = ["3.7", "3.8", "3.9", "3.10", "3.11"]
ECLS = {"Nat": ".Nat", "Int": ".Int", "Bool": ".Bool", "Nat!": ".NatM", "Int!": ".IntM", "Bool!": ".BoolM", "Float": ".Float",
        "Str": ".Str", "Float!": ".FloatM", "Str!": ".StrM"}
LEAN_OPS = ["add", "sub", "mul", "floordiv", "mod", "pow", "eq", "ne", "lt", "le", "gt", "ge"]


def write_if_changed(path, text):
    old = open(path).read() if os.path.exists(path) else None
    if old != text:
        open(path, "w").write(text)
    return hashlib.sha256(text.encode()).hexdigest()[:16]


def regen_runtime(ctx):
    lib = os.path.join(core.ergpath(), "lib", "core")
    summ = os.path.join(core.scratch_root(), ".c26_runtime_summary.json")
    rc, out, err = core.sh([core.PYTHONS["3.11"], PY_EXTRACT, lib, GEN_RT, summ])
    if rc != 0:
        return None, err[-2000:]
    return json.load(open(summ)), ""


def regen_declared(ctx, bindir):
    rc, out, err = core.sh([os.path.join(bindir, "c26"), "dump"], env=core.erg_env(), timeout=1800)
    if rc != 0:
        return None, err[-2000:]
    rows = [l.split("\t") for l in out.split("\n") if l]
    others = {}

    def ecls(t):
        if t in ECLS:
            return ECLS[t]
        if t not in others:
            others[t] = len(others)
        return "(.other %d)" % others[t]

    brows, urows, table = [], [], {}
    for r in rows:
        kind, op, a, b, res = r[0], r[1], r[2], r[3], r[4]
        table["%s %s %s %s" % (kind, op, a, b)] = res
        if res == "-":
            continue
        if kind == "bin" and op in LEAN_OPS:
            brows.append("  (.%s, %s, %s, %s)" % (op, ecls(a), ecls(b), ecls(res)))
        elif kind == "un":
            urows.append("  (.%s, %s, %s)" % (op, ecls(a), ecls(res)))
    text = ("/- GENERATED on every run by checks/c26.py from the real checker (harness `c26 dump`: the return type the checker assigns to\n"
            "   `f(x: A, y: B) = x <op> y` in the builtin module context). Never edit by hand.\n"
            "   other result types: %s -/\n"
            "import ErgVerif.C26.Model\nnamespace ErgVerif.Gen.C26\nopen ErgVerif.C26\n\n"
            "def declared : List DeclRow := [\n%s\n]\n\ndef declaredU : List DeclURow := [\n%s\n]\n\nend ErgVerif.Gen.C26\n"
            % (", ".join("%d=%s" % (v, k) for k, v in others.items()) or "none", ",\n".join(brows), ",\n".join(urows)))
    h = write_if_changed(GEN_DECL, text)
    return {"rows": len(rows), "declared_bin": len(brows), "declared_un": len(urows), "sha": h, "table": table}, ""


# ------------------------------------------------------------------------------------------------ python-side spec for all rows

def split_impl(s):
    """'<result> (builtin <result>)' -> (result, builtin)"""
    i = s.find(" (builtin ")
    if i < 0:
        return s, None
    return s[:i], s[i + len(" (builtin "):-1]


RES = re.compile(r'^\((ok|okx) (\S+) (\S+) (.*)\)$')
NATLIKE = {"Nat", "NatMut", "Bool", "BoolMut"}
WRAP_OF = {"int": "Int", "bool": "Bool", "float": "Float", "str": "Str", "list": "List"}


def declared_name(cls):
    return {"int": "Int", "bool": "Bool", "float": "Float", "str": "Str", "IntMut": "Int!", "NatMut": "Nat!", "BoolMut": "Bool!",
            "FloatMut": "Float!", "StrMut": "Str!"}.get(cls, cls)


def operand_classes(inp):
    return re.findall(r'\((int|bool|Int|Nat|Bool|IntMut|NatMut|BoolMut|float|Float|FloatMut|str|Str|StrMut|list|List)[ )]', inp)


MUTS = ("IntMut", "NatMut", "BoolMut", "FloatMut", "StrMut")
INT_MUTS = ("IntMut", "NatMut", "BoolMut")
FLOATS = ("float", "Float", "FloatMut")


def known_class(kind, op, ocs, r, b, declared):
    """id of the recorded finding whose class the (violating) row falls in, or None. Classes are decided on the operator, the
    operand classes and the kind of deviation only."""
    left, right = (ocs[0], ocs[-1]) if ocs else (None, None)
    if kind == "meth":
        if op in ("dec", "inc", "update") and left == "NatMut":
            return "C26-natmut-dec-negative"
        return None
    if any(c in INT_MUTS for c in ocs) and (any(c in FLOATS for c in ocs) or op == "truediv"):
        return "C26-mut-int-with-float"
    if "StrMut" in ocs and r == "TypeError":
        return "C26-strmut-missing-operators"
    if r == "TypeError" and left not in MUTS and right in MUTS and op in ("add", "sub", "mul", "floordiv", "truediv"):
        return "C26-imm-op-mut-typeerror"
    if r == "ValueError" and op in ("add", "mul") and any(c in ("NatMut", "BoolMut") for c in ocs):
        return "C26-natmut-rewrap"
    if op == "pow" and b.startswith("(okx float") and r.startswith("(ok "):
        return "C26-pow-negative-exponent"
    if op == "pow" and b.startswith("(other complex") and r == "TypeError" and any(c in ("Float", "FloatMut") for c in ocs):
        return "C26-pow-complex-result"
    return None


def builtin_agreement(inp, impl, decl):
    """The Python-side reading of 'computes the same values as the builtins it wraps' for EVERY row (the Lean spec judges the
    int-family rows as well; this one also covers floats, strings, lists, named methods, `/` and negative exponents):
    wherever the checker declares the operation (or for named methods), the wrapper's answer must have the builtin's value
    (floats bit for bit) or raise the same exception. returns (verdict, known-class id or None)"""
    r, b = split_impl(impl)
    if b is None:
        return "bad-row", None
    mr, mb = RES.match(r), RES.match(b)
    kind = inp[1:inp.index(" ")]
    op = inp.split(" ")[1]
    ocs = operand_classes(inp)
    wrapped = any(c not in ("int", "bool", "float", "str", "list") for c in ocs)
    if not wrapped:
        return ("ok", None) if r == b else ("viol:plain-operands-differ", None)
    dres = None
    if kind in ("bin", "xbin") and len(ocs) >= 2 and decl:
        dres = decl.get("bin %s %s %s" % (op, declared_name(ocs[0]), declared_name(ocs[1])))
    declared = dres not in (None, "-") or kind in ("meth", "un", "xun")
    if not declared:
        return "ok-undeclared", None      # no promise: the checker rejects this operand combination
    v = "ok"
    if mb and not mr:
        v = "viol:error-where-builtin-computes"
    elif mb and mr:
        vr, vb = mr.group(4), mb.group(4)
        both_nan = mr.group(1) == "okx" and vr.strip('"') == "nan" and vb.strip('"') == "nan"
        if (mr.group(1) != mb.group(1) or vr != vb) and not both_nan:
            v = "viol:value"
        elif mr.group(1) == "ok" and (mr.group(2) in NATLIKE or mr.group(3) in NATLIKE) and int(vr) < 0:
            v = "viol:nat-negative"
    elif mr:
        v = "viol:value-where-builtin-raises"
    elif r != b:
        v = "viol:different-exception"
    if v == "ok":
        return v, None
    return v + " (" + r[:60] + " vs builtin " + b[:60] + ")", known_class(kind, op, ocs, r, b, declared)


# ------------------------------------------------------------------------------------------------ run

def run_oracle(py, args, stdin=None):
    lib = os.path.join(core.ergpath(), "lib", "core")
    rc, out, err = core.sh([core.PYTHONS[py], PY_ORACLE, lib] + args, input=stdin, timeout=3600)
    return rc, core.parse_lines(out, 3), err


def nontrivial(row):
    # mixed classes or a mutable operand or a boundary-size value
    cs = operand_classes(row[1])
    return len(set(cs)) > 1 or any(c.endswith("Mut") for c in cs) or bool(re.search(r"\d{10}", row[1]))


def run(ctx, replay_cases=None):
    n = 40000 if ctx.tier == "thorough" else 6000
    ctx.cov["rule"] = ("every (operator, operand shape, operand shape) triple of the int/bool family (12 ops x 12 x 12 shapes, incl. plain int/bool "
                       "and mutable variants) with boundary-biased values at least once per run, then random rows (60% family, 30% float/str/list "
                       "mixes, 5% named methods); non-trivial = mixed classes, a mutable operand, or a >= 10-digit value; distinct by input")
    ctx.assumptions = ["operand objects are built by the classes' own constructors from admissible values (Nat >= 0, Bool in {0,1})",
                       "Erg identifies Int/Bool/Float/Str with Python's int/bool/float/str (a plain int conforms to a declared Int) and T! <: T",
                       "`**` exponents are kept small (|e| <= 33) so that results stay printable"]
    # --- T-gen
    summ, err = regen_runtime(ctx)
    ok_h, hlog, bindir = core.cargo_build(["c26"])
    checker_cmd = "cd lean && lake build ErgVerif.C26.Props ergmodel_c26 && lake env lean Audit/C26.lean"
    if summ is None or not ok_h:
        proof = core.proof_stage(ctx, PROP, ["ErgVerif.C26.Props"])
        ctx.violation({"kind": "generator-failed", "what": "the runtime-table extractor or the harness build failed; the tie cannot be checked",
                       "log": (err or hlog)[-3000:]}, no_input=True)
        ctx.write_evidence(proof["obligations"], 0, checker_cmd, {}, [])
        ctx.finish()
    dsum, err = regen_declared(ctx, bindir)
    if dsum is None:
        ctx.violation({"kind": "generator-failed", "what": "harness `c26 dump` failed", "log": err}, no_input=True)
        ctx.write_evidence(1, 0, checker_cmd, {}, [])
        ctx.finish()
    decl = dsum.pop("table")
    if ctx.tier == "thorough":
        # validate the batched dump against one compilation per row
        rc, out, _ = core.sh([os.path.join(bindir, "c26"), "dump", "--single", "--stride", "3"], env=core.erg_env(), timeout=3600)
        single = {"%s %s %s %s" % tuple(l.split("\t")[:4]): l.split("\t")[4] for l in out.split("\n") if l}
        diff = [k for k in single if single[k] != decl.get(k)]
        dsum["single_rows_checked"] = len(single)
        dsum["single_vs_batched_diff"] = diff[:10]
        if diff:
            ctx.violation({"kind": "dump-inconsistent", "rows": diff[:20]}, no_input=True)
    # --- proofs + driver
    proof = core.proof_stage(ctx, PROP, ["ErgVerif.C26.Props", "ergmodel_c26"])
    if not os.path.exists(os.path.join(core.LEAN, ".lake", "build", "bin", "ergmodel_c26")) or not proof["ok"]:
        core.lake_build(["ergmodel_c26"])     # the driver does not depend on Props: keep the tie alive when a theorem breaks
    extra = {"axioms": proof["axioms"], "theorems": proof["theorems"], "examples": proof["examples"],
             "gen_tables": {"C26Runtime.lean": {"classes": [c["name"] for c in summ["classes"]], "sha": summ["lean_sha"],
                                                "source_hashes": summ["hashes"], "then_ok": summ["then_ok"]},
                            "C26Declared.lean": dsum},
             "opaque_methods_tie_only": summ["opaque"], "named_methods_not_in_tables": len(summ["named_methods"]),
             "extractor_problems": summ["problems"]}
    # --- tie
    rows = []
    crow = replay_cases if replay_cases is not None else core.corpus_rows(PROP)
    if crow:
        _, r, _ = run_oracle("3.11", ["replay"], stdin="".join(f"{a}\t{b}\n" for a, b in crow))
        rows += r
    if replay_cases is None:
        rc, r, err = run_oracle("3.11", ["gen", "--seed", str(ctx.seed), "--n", str(n), "--tier", ctx.tier])
        rows += r
        if rc != 0:
            ctx.violation({"kind": "oracle-run-failed", "stderr": err[-3000:]}, no_input=True)
    known_ids = {e["id"] for e in ctx.known_findings()}
    mrc, mrows, merr = core.run_model(PROP, rows)
    res = core.compare(rows, mrows, known_ids)
    if mrc != 0:
        ctx.violation({"kind": "model-driver-failed", "stderr": merr[-3000:]}, no_input=True)
    # cross-interpreter agreement (same inputs replayed under every interpreter)
    stdin = "".join(f"{r_[0]}\t{r_[1]}\n" for r_ in rows)
    cross = {}
    cross_diff = []
    for py in TIE_PYTHONS:
        if py == "3.11":
            continue
        rc, r2, err = run_oracle(py, ["replay"], stdin=stdin)
        d = [(a, b) for a, b in zip(rows, r2) if a[2] != b[2]]
        cross[py] = {"rows": len(r2), "differences": len(d)}
        if rc != 0 or len(r2) != len(rows):
            ctx.violation({"kind": "oracle-run-failed", "python": py, "stderr": err[-2000:]}, no_input=True)
        for a, b in d[:3]:
            cross_diff.append({"python": py, "id": a[0], "input": a[1], "py3.11": a[2], "this": b[2]})
    extra["interpreters"] = cross
    # python-side builtin agreement on every row
    py_viol, py_known, verdicts = [], [], {}
    for r_ in rows:
        v, k = builtin_agreement(r_[1], r_[2], decl)
        verdicts[v.split(" ")[0]] = verdicts.get(v.split(" ")[0], 0) + 1
        if v.startswith("viol"):
            (py_known if (k in known_ids) else py_viol).append((r_[0], r_[1], r_[2], v, k))
    # coverage
    seen, nt, kinds = set(), 0, {}
    for r_ in rows:
        k = r_[1][1:r_[1].index(" ")] if " " in r_[1] else "?"
        kinds[k] = kinds.get(k, 0) + 1
        if r_[1] not in seen:
            seen.add(r_[1])
            nt += 1 if nontrivial(r_) else 0
    outcomes = {}
    for r_ in rows:
        o = split_impl(r_[2])[0]
        o = re.sub(r"-?\d+\)$", "N)", o) if o.startswith("(ok ") else (o.split(" ")[0] + (" " + o.split(" ")[1] if o.startswith("(okx") else ""))
        outcomes[o] = outcomes.get(o, 0) + 1
    ctx.cov.update({"evaluations": len(rows) * len(TIE_PYTHONS), "distinct_nontrivial": nt, "traces_validated_against_impl": res.agree,
                    "samples": [{"input": r_[1], "impl": r_[2][:200]} for r_ in rows[:2] + rows[len(rows) // 2:len(rows) // 2 + 3]],
                    "input_kinds": kinds, "impl_outcomes": dict(sorted(outcomes.items(), key=lambda kv: -kv[1])[:25]),
                    "python_side_verdicts": verdicts})
    extra.update({"disagreements": len(res.disagree), "spec_violations": len(res.spec_viol), "in_known_class": len(res.known),
                  "out_of_model_rows_checked_against_builtins_only": res.out_of_model, "corpus_cases": len(crow),
                  "python_side_violations": len(py_viol), "python_side_known": len(py_known), "cross_interpreter_differences": cross_diff})
    # known findings
    for e in ctx.known_findings():
        hits = [k for k in res.known if k[5] == e["id"]] + [k for k in py_known if k[4] == e["id"]]
        wit = [k for k in hits if k[0] == "k:" + e["id"]]
        if wit:
            ctx.print_known(e, f"{e.get('summary', '')} [witness {wit[0][1][:120]} still fails as recorded; {len(hits)} case(s) of this class in this run]")
        elif hits:
            ctx.print_known(e, f"{e.get('summary', '')} [{len(hits)} case(s) of this class in this run]")
    # verdict
    if res.spec_viol:
        v = shrink(ctx, res.spec_viol[0])
        ctx.violation({"kind": "implementation-violates-spec", "case_id": v[0], "input": v[1], "impl": v[2], "model": v[3], "spec": v[4],
                       "inK": v[5], "others": [x[1] for x in res.spec_viol[1:6]],
                       "how_to_reproduce_by_hand": "python3 py/c26_runtime_oracle.py <ERG_PATH>/lib/core replay  (stdin: id<TAB>input)",
                       "model_disagreements": [list(x) for x in res.disagree[:5]]})
    elif py_viol:
        v = py_viol[0]
        ctx.violation({"kind": "implementation-disagrees-with-python-builtins", "case_id": v[0], "input": v[1], "impl": v[2], "spec": v[3],
                       "others": [x[1] for x in py_viol[1:6]]})
    elif cross_diff:
        ctx.violation({"kind": "interpreters-disagree", "case_id": cross_diff[0]["id"], "input": cross_diff[0]["input"], "details": cross_diff[:5]})
    elif res.disagree or not proof["ok"] or summ["problems"]:
        ctx.violation({"kind": "no-longer-shown", "what": "a proof obligation (e.g. gen_plans_eq_spec: the regenerated method tables no longer "
                       "produce the plans the theorems were proved for; gen_declared_eq_spec: the checker declares different result classes) "
                       "or the model/implementation correspondence no longer checks; no operand pair on which the implementation violates "
                       "the specification was found in this run",
                       "proof_problems": proof["problems"] + summ["problems"], "build_log_tail": proof["log"][-3000:] if not proof["ok"] else "",
                       "correspondence_disagreements": [dict(id=x[0], input=x[1], impl=x[2], model=x[3]) for x in res.disagree[:10]]},
                      no_input=True)
    ctx.write_evidence(proof["obligations"], proof["discharged"], checker_cmd, extra,
                       ["Lean model of CPython operator dispatch / MRO / construction (validated on every (op, class, class) triple on every run)",
                        "py/c26_extract_runtime.py (AST -> term language; unrecognised bodies become `opaque`, never a default)",
                        "harness `c26 dump` (reads the type the real checker assigns; batched per operator, validated per row in the thorough tier)",
                        "py/c26_runtime_oracle.py (operand construction and printing of results)"])
    ctx.finish()


def shrink(ctx, v):
    """shrink the operand values of a failing (bin …) row towards small magnitudes while the verdict stays a violation"""
    m = re.match(r"^\(bin (\S+) \((\S+) (\S+) (-?\d+)\) \((\S+) (\S+) (-?\d+)\)\)$", v[1])
    if not m:
        return v
    op, c1, i1, a, c2, i2, b = m.groups()
    a, b = int(a), int(b)
    best = v
    cands = []
    for aa in sorted({a, a // 2, a // 10, 5, 2, 1, 0, -1, -2, 7}, key=abs):
        for bb in sorted({b, b // 2, b // 10, 5, 2, 1, 0, -1, -2, -7, 3}, key=abs):
            cands.append((aa, bb))
    cands.sort(key=lambda p: abs(p[0]) + abs(p[1]))
    rows_in = [(f"s{j}", f"(bin {op} ({c1} {i1} {aa}) ({c2} {i2} {bb}))") for j, (aa, bb) in enumerate(cands[:80])]
    _, rows, _ = run_oracle("3.11", ["replay"], stdin="".join(f"{a_}\t{b_}\n" for a_, b_ in rows_in))
    _, mrows, _ = core.run_model(PROP, rows)
    res = core.compare(rows, mrows, {e["id"] for e in ctx.known_findings()})
    if res.spec_viol:
        x = res.spec_viol[0]
        best = (v[0] + "/shrunk", x[1], x[2], x[3], x[4], x[5])
    return best


def replay(ctx, path):
    rp = json.load(open(path))
    cases = []
    if "input" in rp:
        cases.append((rp.get("case_id", "r0"), rp["input"]))
    for i, o in enumerate(rp.get("others", [])):
        cases.append((f"o{i}", o))
    for i, d in enumerate(rp.get("correspondence_disagreements", [])):
        cases.append((d.get("id", f"d{i}"), d["input"]))
    if not cases:
        print("replay file names no input:", json.dumps(rp.get("proof_problems", rp.get("what", "")))[:2000])
        raise SystemExit(1)
    core.lake_build(["ergmodel_c26"])
    _, rows, _ = run_oracle("3.11", ["replay"], stdin="".join(f"{a}\t{b}\n" for a, b in cases))
    _, mrows, _ = core.run_model(PROP, rows)
    res = core.compare(rows, mrows, {e["id"] for e in ctx.known_findings()})
    bad = len(res.disagree) + len(res.spec_viol)
    for r_, m_ in zip(rows, mrows):
        print("input:", r_[1])
        print("  impl :", r_[2])
        print("  model:", m_[1])
        print("  spec :", m_[2], " inK:", m_[3])
        v, k = builtin_agreement(r_[1], r_[2], None)
        print("  builtins:", v)
        if v.startswith("viol") and k is None:
            bad += 1
    print("still failing" if bad else "no longer failing")
    raise SystemExit(1 if bad else 0)
