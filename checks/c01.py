"""C01 — compiled bytecode computes what the source program means.

Two streams:
 A. stage-1 proof tie (target 3.11): programs of the straight-line scalar fragment are lowered by the real front end, the
    HIR the code generator receives is projected to the Lean mini-HIR, the real code object is decoded, and the compiled
    Lean model (`ergmodel_c01`) must (i) emit exactly the same instruction list (`compile` transcribes codegen.rs; the
    theorems C01_compile_simulates / C01_clean_is_python / C01_stage1 / C01_vmRun are about that function), (ii) run the
    REAL instruction list on the model machine and print what the Python reading of the HIR prints; the model machine's
    outcome is in turn compared with the real interpreter running the real .pyc (validation of the machine model) and with
    the independent Python oracle.
 B. behavioural stream over the whole checked fragment (loops, functions, lambdas, lists, floats, patterns, literals from
    the boundary pools): real `erg compile` + target interpreter vs the Python program generated from the same tree by
    vlib/fraggen.py (not erg's transpiler). This is differential evidence only — no theorem covers it yet.
"""
import json
import os
import re
import time

from vlib import core, fraggen, fragrun

MANIFEST_ENTRY = {
    "level_claimed": {"category": "proof",
        "text": "Stages 1-2 (programs over Nat/Int/Str/Bool: literals, names, + - * // %, comparisons, short-circuit and/or "
                "with patched jumps, the two-branch if-expression (POP_JUMP_FORWARD_IF_FALSE / JUMP_FORWARD patching), not, unary minus, definitions, print!, bare expression chunks, counting loops `for! lo..<hi, i => chunks` with GET_ITER/FOR_ITER/JUMP_BACKWARD patching, proved by induction on the iteration count; target 3.11): Lean compiler-correctness "
                "theorem for a transcription of the code generator against a model of the 3.11 evaluation loop and the Python-semantics "
                "reading, for all programs of the fragment; the transcription is tied to codegen.rs instruction-for-instruction on every run. "
                "The rest of the checked fragment (while! loops, nested loops, functions, lambdas, lists, floats, patterns, other targets) is exercised only "
                "differentially against an independent Python translation."},
    "level_note": "proved for every program of the modelled fragment (any size, any loop bounds): C01_compile_simulates (bytecode = wrapper-aware source semantics, unconditional), C01_clean_is_python, C01_stage1, "
                  "C01_vmRun, C01_fuel_mono, C01_jumpArgs_small, C01_witness_unclean. Trusted/modelled rather than verified: the model of the "
                  "CPython 3.11 loop and of the runtime wrapper classes for these instructions (validated against the real interpreter on every "
                  "case), the HIR projection and the bytecode decoder in harness/src/bin/c01.rs, lowering/desugaring (the HIR is taken from "
                  "the real front end), marshalling (C15). Constant/name indices >= 256 and everything outside stage 1 are outside the theorem.",
    "technique": "Lean 4 compiler-correctness proof (simulation by induction over expressions/chunks) + instruction-level correspondence + differential behavioural runs",
}

STAGE1_RULE = ("stage-1 programs from vlib/fraggen.py (stage1=True; 3-10 chunks; Nat/Int/Str/Bool; zero divisors allowed in a quarter of the "
               "programs); non-trivial = accepted by the compiler, inside the model and containing a definition or and/or jump; "
               "behavioural programs from the full fragment grammar with boundary-pool literals")


def vm_outcome(spec_col):
    m = re.search(r"\(vm \((\S+?)((?: \"(?:[^\"\\]|\\.)*\")*)\)\)", spec_col)
    if not m:
        return None
    lines = re.findall(r"\"((?:[^\"\\]|\\.)*)\"", m.group(2))
    return m.group(1), lines


def unq(s):
    out, i = [], 0
    while i < len(s):
        c = s[i]
        if c == "\\":
            i += 1
            e = s[i]
            if e == "n":
                out.append("\n")
            elif e == "t":
                out.append("\t")
            elif e == "r":
                out.append("\r")
            elif e == "u":
                out.append(chr(int(s[i + 1:i + 5], 16))); i += 4
            elif e == "U":
                out.append(chr(int(s[i + 1:i + 7], 16))); i += 6
            else:
                out.append(e)
        else:
            out.append(c)
        i += 1
    return "".join(out)


def derived_features(py_src, r):
    """features computed from an observed mismatch: `unused-raising-def` = the Python oracle stopped with an exception on a
    line that defines a top-level variable which no later line mentions (the compiler drops such definitions from -o 1 on)"""
    out = []
    m = re.findall(r'oracle\.py", line (\d+), in <module>', r.get("py_err", ""))
    if m and r.get("py_class", "").startswith("runtime-exc:"):
        lines = py_src.split("\n")
        ln = int(m[-1])
        if 1 <= ln <= len(lines):
            d = re.match(r"^(\(?[A-Za-z_][A-Za-z0-9_]*(?:, [A-Za-z_][A-Za-z0-9_]*)*\)?) = ", lines[ln - 1])
            if d:
                names = re.findall(r"[A-Za-z_][A-Za-z0-9_]*", d.group(1))
                rest = "\n".join(lines[ln:])
                if all(not re.search(r"\b" + re.escape(n) + r"\b", rest) for n in names):
                    out.append("unused-raising-def")
    return out


def known_behavioural(ctx, feats, r):
    """attribute a behavioural mismatch to a listed finding: the program must have the finding's feature AND the mismatch
    must have the recorded signature"""
    for e in ctx.known_findings():
        m = e.get("match", {})
        if m.get("feature") and m["feature"] not in feats:
            continue
        if m.get("features_any") and not any(f in feats for f in m["features_any"]):
            continue
        if m.get("erg_class") and m["erg_class"] != r["erg_class"]:
            continue
        if m.get("stderr_contains") and m["stderr_contains"] not in r.get("erg_err", ""):
            continue
        if m.get("stdout_differs_only_by"):
            a, b = m["stdout_differs_only_by"]
            if r["erg_out"].replace(a, b) != r.get("py_out", "").replace(a, b):
                continue
        return e
    return None


def run(ctx):
    ctx.cov["rule"] = STAGE1_RULE
    ctx.assumptions = ["target 3.11 for the proved stage; CPython 3.11.7 is the reference interpreter",
                       "the Python oracle program is emitted from the generator's tree, independently of erg's transpiler"]
    thorough = ctx.tier == "thorough"
    nA = 1200 if thorough else 150
    nB = 1800 if thorough else 150
    proof = core.proof_stage(ctx, "C01", ["ErgVerif.C01.Props", "ergmodel_c01"])
    ok_h, hlog, bindir = core.cargo_build(["c01"])
    ok_e, elog, erg = core.erg_binary()
    checker_cmd = "cd lean && lake build ErgVerif.C01.Props ergmodel_c01 && lake env lean Audit/C01.lean"
    extra = {"axioms": proof["axioms"], "theorems": proof["theorems"], "examples": proof["examples"]}
    if not ok_h or not ok_e:
        ctx.violation({"kind": "build-failed", "harness_log": hlog if not ok_h else "", "erg_log": elog if not ok_e else ""}, no_input=True)
        ctx.write_evidence(proof["obligations"], proof["discharged"], checker_cmd, extra)
        ctx.finish()

    # ------------------------------------------------------------------ stream A
    progsA = []
    for i in range(nA):
        g = fraggen.Gen(fraggen.Rng(ctx.seed * 7919 + i), stage1=True, zero_div=(i % 4 == 0), big_lits=(i % 3 == 0),
                        hard_strings=(i % 5 == 0))
        p = g.program()
        progsA.append((f"a{i}", fraggen.to_erg(p), fraggen.to_python(p), sorted(g.features | fraggen.tree_features(p))))
    corpus = core.corpus_rows("C01")
    rowsin = [(cid, inp) for cid, inp in corpus if inp.startswith("(src ")] + [(pid, "(src " + core.quote(src) + ")") for pid, src, _, _ in progsA]
    _, rows, herr = core.run_harness(bindir, "c01", ["replay"], stdin="".join(f"{a}\t{b}\n" for a, b in rowsin))
    mrc, mrows, merr = core.run_model("C01", rows)
    res = core.compare(rows, mrows, {e["id"] for e in ctx.known_findings()})
    mmap = {m[0]: m for m in mrows}
    # real interpreter + oracle on the same programs
    realA = fragrun.run_programs([(pid, src, py) for pid, src, py, _ in progsA], erg)
    in_model = 0
    not_emitted = 0
    nontrivial = 0
    vm_mismatch = []
    oracle_mismatch = []
    kinds = {}
    for (pid, src, py, feats), r in zip(progsA, realA):
        m = mmap.get(pid)
        impl = next((x[2] for x in rows if x[0] == pid), "")
        k = impl.split("(")[0] if not impl.startswith("(hir") else "in-model"
        if impl.startswith("out-of-model"):
            k = impl[:40]
        kinds[k] = kinds.get(k, 0) + 1
        if not m or not impl.startswith("(hir"):
            continue
        in_model += 1
        if r["erg_class"] in ("rejected", "crash", "timeout", "no-pyc"):
            # the in-process hook can hand back HIR + code for a program the `erg compile` command line refuses (compile-time
            # error or compiler failure): no bytecode is emitted for it, so there is nothing to compare with the Python reading
            # (same rule as stream B); the instruction-level tie above still covers the code the hook produced
            not_emitted += 1
            continue
        if "defv" in impl and ("jumpIf" in impl or "binaryOp" in impl or "popJumpIfFalse" in impl):
            nontrivial += 1
        vo = vm_outcome(m[2])
        if vo is None:
            continue
        ex, lines = vo
        want_out = "".join(unq(l) + "\n" for l in lines)
        want_cls = "ok" if ex == "ok" else "runtime-exc:" + ex.split(":", 1)[1] if ex.startswith("exc:") else ex
        if r["erg_class"] != want_cls or r["erg_out"] != want_out:
            vm_mismatch.append({"id": pid, "src": src, "vm": [ex, lines], "real": [r["erg_class"], r["erg_out"]], "stderr": r["erg_err"][-400:]})
        if (r["erg_class"], r["erg_out"]) != (r["py_class"], r["py_out"]):
            oracle_mismatch.append((pid, src, py, feats, r))
    extra.update({"streamA_programs": len(progsA), "streamA_in_model": in_model, "streamA_in_model_but_refused_by_cli": not_emitted, "streamA_outcome_kinds": kinds,
                  "streamA_codegen_disagreements": len(res.disagree), "streamA_vm_vs_real_mismatches": len(vm_mismatch)})

    # ------------------------------------------------------------------ stream B
    progsB = []
    for i in range(nB):
        g = fraggen.Gen(fraggen.Rng(ctx.seed * 104729 + 500000 + i), big_lits=(i % 2 == 0), hard_strings=(i % 4 == 0))
        p = g.program()
        progsB.append((f"b{i}", fraggen.to_erg(p), fraggen.to_python(p), sorted(g.features | fraggen.tree_features(p))))
    realB = fragrun.run_programs([(pid, src, py) for pid, src, py, _ in progsB], erg)
    classes = {}
    feats_hist = {}
    accepted = 0
    for (pid, src, py, feats), r in zip(progsB, realB):
        classes[r["erg_class"]] = classes.get(r["erg_class"], 0) + 1
        if r["erg_class"] not in ("rejected", "crash", "timeout", "no-pyc"):
            accepted += 1
            for f in feats:
                feats_hist[f] = feats_hist.get(f, 0) + 1
            if (r["erg_class"], r["erg_out"]) != (r["py_class"], r["py_out"]):
                oracle_mismatch.append((pid, src, py, feats, r))
    extra.update({"streamB_programs": len(progsB), "streamB_accepted": accepted, "streamB_outcome_classes": classes,
                  "streamB_feature_histogram": feats_hist})

    # ------------------------------------------------------------------ verdict
    ctx.cov["evaluations"] = len(progsA) + len(progsB)
    ctx.cov["distinct_nontrivial"] = nontrivial + accepted
    ctx.cov["traces_validated_against_impl"] = res.agree
    ctx.cov["samples"] = [{"stage1_src": progsA[0][1], "impl": next((x[2] for x in rows if x[0] == "a0"), "")[:400]},
                          {"behavioural_src": progsB[0][1], "real_out": realB[0]["erg_out"][:200], "oracle_out": realB[0]["py_out"][:200]}]
    known_hits = {}
    unexplained = []
    for pid, src, py, feats, r in oracle_mismatch:
        e = known_behavioural(ctx, list(feats) + derived_features(py, r), r)
        if e:
            known_hits.setdefault(e["id"], []).append(pid)
        else:
            unexplained.append((pid, src, py, feats, r))
    # every listed finding is replayed on its recorded witness; the line is printed when the witness still fails with the
    # recorded signature (a finding that no longer reproduces is only noted in the evidence)
    wl = [e for e in ctx.known_findings() if e.get("witness_py")]
    wres = fragrun.run_programs([("k_" + e["id"], e["witness"], e["witness_py"]) for e in wl], erg) if wl else []
    gone = []
    for e, r in zip(wl, wres):
        still = (r["erg_class"], r["erg_out"]) != (r["py_class"], r["py_out"]) and \
            known_behavioural(ctx, [e.get("match", {}).get("feature", "")] + list(e.get("match", {}).get("features_any", [])) + derived_features(e["witness_py"], r), r) is not None
        if still:
            n = len(known_hits.get(e["id"], []))
            ctx.print_known(e, f"{e.get('summary', '')} [witness still fails as recorded: real {r['erg_class']} vs Python reading {r['py_class']}; {n} generated program(s) of this class in this run]")
        else:
            gone.append(e["id"])
    extra["known_findings_no_longer_reproducing"] = gone
    extra["behavioural_mismatches_known"] = {k: len(v) for k, v in known_hits.items()}
    extra["behavioural_mismatches_unexplained"] = len(unexplained)
    if unexplained:
        pid, src, py, feats, r = unexplained[0]
        ctx.violation({"kind": "bytecode-differs-from-python-reading", "case_id": pid, "erg_source": src, "python_oracle": py,
                       "features": feats, "real": {"class": r["erg_class"], "stdout": r["erg_out"], "stderr": r["erg_err"][-600:]},
                       "oracle": {"class": r["py_class"], "stdout": r["py_out"]},
                       "others": [u[1] for u in unexplained[1:6]]})
    elif res.spec_viol:
        v = res.spec_viol[0]
        ctx.violation({"kind": "implementation-violates-spec", "case_id": v[0], "input": v[1], "impl": v[2], "model": v[3], "spec": v[4]})
    elif res.disagree or vm_mismatch or not proof["ok"] or mrc != 0:
        ctx.violation({"kind": "no-longer-shown",
                       "what": "the transcription of the code generator (or the machine model) no longer corresponds to the implementation, "
                               "or a proof obligation fails; no program whose bytecode behaves differently from its Python reading was found "
                               f"among {len(progsA) + len(progsB)} programs",
                       "proof_problems": proof["problems"], "build_log_tail": proof["log"][-2000:] if not proof["ok"] else "",
                       "correspondence_disagreements": [dict(id=x[0], input=x[1], impl=x[2], model=x[3]) for x in res.disagree[:5]],
                       "machine_model_vs_real_interpreter": vm_mismatch[:5]}, no_input=True)
    ctx.write_evidence(proof["obligations"], proof["discharged"], checker_cmd, extra,
                       trusted=["model of the CPython 3.11 evaluation loop + runtime wrappers for the stage-1 instructions (validated against python3.11 on every case)",
                                "HIR projection and bytecode decoder in harness/src/bin/c01.rs", "vlib/fraggen.py Python oracle emitter"])
    ctx.finish()


def replay(ctx, path):
    rp = json.load(open(path))
    ok_e, _, erg = core.erg_binary()
    if "erg_source" in rp:
        r = fragrun.run_programs([("r", rp["erg_source"], rp.get("python_oracle"))], erg)[0]
        print("real  :", r["erg_class"], repr(r["erg_out"]))
        print("oracle:", r.get("py_class"), repr(r.get("py_out")))
        bad = (r["erg_class"], r["erg_out"]) != (r.get("py_class"), r.get("py_out"))
        print("still failing" if bad else "no longer failing")
        raise SystemExit(1 if bad else 0)
    core.standard_replay(ctx, path, "c01")
