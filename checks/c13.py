"""C13 — every supported Python target runs the program identically.

 1. Lean (lean/ErgVerif/C13): version-parameterised transcription of the code generator for the stage-1 fragment (3.7–3.10:
    no PUSH_NULL, CALL_FUNCTION, BINARY_ADD…, 2-byte instructions, ABSOLUTE and/or jump targets in bytes (≤ 3.9) or code
    units (3.10); 3.11: C01's stage-1 generator) and of the five evaluation loops; `C13_same_outcome`: on every target the
    machine run of the generated code ends with the outcome of the version-independent source semantics, hence
    `C13_targets_agree`; `C13_witness_fill_jump_absolute`: the generator itself is NOT total on the older targets.
 2. Tie A (T-corr): stage-1 programs × {3.7 … 3.11} through harness `c13` (real front end + real generator for that target,
    code object decoded with CPython's own opcode numbers per version) and the driver `ergmodel_c13`: the model must emit the
    same instruction list; the model machine run on the REAL instruction list must end as the source semantics says; and the
    real `.pyc` under the real interpreter of that version must print what the model machine predicts.
 3. Tie B (behavioural, differential only): programs of the full fragment generator × the five interpreters: `erg --py-command P
    compile`, the `.pyc` must carry P's magic number, load and run under P with the same stdout and exit class as under 3.11.
 4. Selection: `erg --py-command P run f.er` executes under P (the program prints `sys.version_info`).
"""
import json
import os
import re
import shutil
import tempfile
import time
from concurrent.futures import ThreadPoolExecutor

from vlib import core, fraggen, fragrun

MANIFEST_ENTRY = {
    "level_claimed": {"category": "proof",
        "text": "Partial. Proved in Lean for the stage-1 fragment (straight-line programs over Nat/Int/Str/Bool with short-circuit and/or, "
                "wrappers, definitions, print!) and ALL five targets: the version-parameterised transcription of the code generator and "
                "hand-written models of the 3.7–3.10 and 3.11 evaluation loops give, on every target, the outcome of one version-independent "
                "source semantics (C13_same_outcome, C13_targets_agree) whenever the generator produces code; the generator is shown NOT to "
                "be total on the older targets (absolute jump argument through u16). The transcription is tied to codegen.rs "
                "instruction-for-instruction for each target on every run, the machine models to the five real interpreters. Programs "
                "outside stage 1, .pyc loading and interpreter selection are exercised differentially only."},
    "level_note": "proved: C13_same_outcome (all of 3.7–3.11), C13_targets_agree, C13_old_simulates, C13_v311_simulates, C13_jumpArgsO_isSome, "
                  "C13_witness_fill_jump_absolute, C13_select (command-line head only). Modelled rather than verified: CPython's evaluation loops "
                  "(validated against the real interpreters on every case), the runtime wrapper classes, the HIR projection and the decoders in "
                  "harness/src/bin/c13.rs. Differential only: loops, functions, lambdas, lists, floats, patterns (stream B), magic numbers, "
                  "`erg run` selection. Not covered: the import prelude, marshalling (C15), 3.12+.",
    "technique": "Lean 4 compiler-correctness proof per target (simulation) + instruction-level correspondence per target + differential runs on five interpreters",
}

VERS = ["3.7", "3.8", "3.9", "3.10", "3.11"]
MAGIC = {"3.7": 3394, "3.8": 3413, "3.9": 3425, "3.10": 3439, "3.11": 3495}    # CPython's Lib/importlib/_bootstrap_external.py


def unq(s):
    from checks.c07 import unq as u
    return u(s)


def vm_outcome(spec_col):
    m = re.search(r"\(vm \((\S+?)((?: \"(?:[^\"\\]|\\.)*\")*)\)\)", spec_col)
    if not m:
        return None
    lines = re.findall(r"\"((?:[^\"\\]|\\.)*)\"", m.group(2))
    return m.group(1), lines


def compile_and_run(erg, items, jobs, run_mode="compile+run"):
    """items: (id, src, ver). compile for that interpreter, check the magic number, run the .pyc under it."""
    env = core.erg_env()
    work = tempfile.mkdtemp(prefix="c13-")

    def one(it):
        cid, src, ver = it
        py = core.PYTHONS[ver]
        d = os.path.join(work, re.sub(r"[^A-Za-z0-9_]", "_", cid))
        os.makedirs(d, exist_ok=True)
        open(os.path.join(d, "m.er"), "w").write(src)
        if run_mode == "run":
            rc, out, err = fragrun.run_cmd([erg, "--py-command", py, "run", "m.er"], d, env, timeout=300)
            return {"id": cid, "ver": ver, "rc": rc, "out": out, "err": err[-1500:]}
        rc, out, err = fragrun.run_cmd([erg, "--py-command", py, "compile", "m.er"], d, env, timeout=600)
        ccls = fragrun.classify_erg(rc, out, err)
        res = {"id": cid, "ver": ver, "compile_class": ccls, "compile_err": err[:700] + " … " + err[-800:] if len(err) > 1500 else err, "magic": None, "class": None, "out": ""}
        pyc = os.path.join(d, "m.pyc")
        if ccls == "ok" and os.path.exists(pyc):
            b = open(pyc, "rb").read(4)
            res["magic"] = int.from_bytes(b[:2], "little") if len(b) == 4 and b[2:4] == b"\r\n" else -1
            rc, out, err = fragrun.run_cmd([py, "m.pyc"], d, env, timeout=120)
            res["out"] = out
            res["run_err"] = err[-800:]
            res["class"] = "timeout" if rc == 124 else ("ok" if rc == 0 else ("runtime-exc:" + fragrun.exc_class(err) if fragrun.exc_class(err) else f"exit:{rc}"))
        else:
            res["class"] = "rejected" if ccls == "ok" else ccls
        return res

    with ThreadPoolExecutor(max_workers=jobs) as ex:
        out = list(ex.map(one, items))
    shutil.rmtree(work, ignore_errors=True)
    return out


def known_match(ctx, feats, sig):
    for e in ctx.known_findings():
        m = e.get("match", {})
        if m.get("feature") and m["feature"] not in feats:
            continue
        if m.get("signature_contains") and m["signature_contains"] not in sig:
            continue
        return e
    return None


def size_features(src, ver):
    """structural feature of finding C13-fill-jump-absolute: an `and`/`or` whose code ends beyond the u16 range of the target's
    absolute jump argument. Estimated from the source: the first and/or sits after at least N top-level lines (each line is at
    least 10 bytes of code before 3.11), N*10 >= 65536 (<= 3.9) resp. 131072 (3.10)."""
    lines = src.split("\n")
    first = next((i for i, l in enumerate(lines) if re.search(r"\b(and|or)\b", re.sub(r'"(?:[^"\\]|\\.)*"', '""', l))), None)
    if first is None or ver == "3.11":
        return []
    limit = 131072 if ver == "3.10" else 65536
    return ["andor-beyond-u16"] if first * 22 >= limit else []


def long_programs(seed, n):
    """programs whose jump arguments exceed one byte on every target (>= 256 bytes resp. code units between a jump and its
    target), so that every EXTENDED_ARG path of the older targets is exercised: `for!`/`while!` loops with 12-30 statements and
    at least two iterations, long `if!` branches, long subroutine bodies, and `and`/`or`/`if` expressions with a long operand.
    Trees are fraggen trees (emitted by fraggen.to_erg); operand expressions come from the typed generator."""
    out = []
    for i in range(n):
        r = fraggen.Rng(seed * 2654435761 + 77000 + i)
        g = fraggen.Gen(r, floats=False, lists=False, funcs=False, lambdas=False, loops=False, conds=False, patterns=False,
                        interp=False, big_lits=False, str_mul=False)
        kind = i % 5
        nst = [28, 24, 14, 22, 30, 18][(i // 5 + i) % 6]      # number of statements in the long body
        prog = [("def", "a0", "Nat", ("lit", "Nat", 3), False), ("def", "s0", "Str", ("lit", "Str", "q"), False),
                ("def", "t0", "Bool", ("lit", "Bool", True), False)]
        g.vars = [("a0", "Nat"), ("s0", "Str"), ("t0", "Bool")]

        def stmts(env, k):
            return [("print", [g.expr(r.pick(["Nat", "Int", "Str", "Bool"]), 2, env), g.expr("Nat", 1, env), ("lit", "Nat", j)]) for j in range(k)]

        def long_nat(env, terms):
            e = g.expr("Nat", 1, env)
            for _ in range(terms):
                e = ("bin", r.pick(["+", "*", "+"]), e, g.expr("Nat", 1, env), "Nat")
            return e

        def long_bool(env, terms, op):
            e = ("cmp", "<", long_nat(env, 3), long_nat(env, 3))
            for _ in range(terms):
                e = ("boolop", r.pick(["and", "or"]), ("cmp", r.pick(["<", "<=", "==", ">"]), g.expr("Nat", 1, env), g.expr("Nat", 1, env)), e)
            return ("boolop", op, ("cmp", r.pick(["<", ">="]), ("var", "a0", "Nat"), ("lit", "Nat", r.pick([1, 5]))), e)

        if kind == 0:
            lo = r.below(2)
            prog.append(("for", "i1", lo, lo + 2 + r.below(2), stmts(g.vars + [("i1", "Nat")], nst)))
            feats = ["long-for"]
        elif kind == 1:
            prog.append(("while", "c1", 2 + r.below(2), stmts(g.vars, nst)))
            feats = ["long-while"]
        elif kind == 2:
            prog.append(("ifstmt", g.expr("Bool", 2), stmts(g.vars, nst), stmts(g.vars, nst)))
            prog.append(("ifstmt", ("not", g.expr("Bool", 1)), stmts(g.vars, nst), stmts(g.vars, 2)))
            feats = ["long-if-stmt"]
        elif kind == 3:
            params = [("p1", "Nat"), ("p2", "Str")]
            env = params + g.vars
            body = []
            for j in range(nst):
                body.append(("def", f"l{j}", "Nat", long_nat(env, 2), False))
                env = env + [(f"l{j}", "Nat")]
            prog.append(("func", "f1", params, "Nat", body, long_nat(env, 6)))
            prog.append(("print", [("call", "f1", [("lit", "Nat", 2), ("lit", "Str", "z")], "Nat"), ("call", "f1", [("var", "a0", "Nat"), ("var", "s0", "Str")], "Nat")]))
            feats = ["long-func"]
        else:
            prog.append(("print", [long_bool(g.vars, 14, "and"), long_bool(g.vars, 14, "or")]))
            prog.append(("def", "w1", "Nat", ("if", g.expr("Bool", 1), long_nat(g.vars, 26), long_nat(g.vars, 26), "Nat"), False))
            prog.append(("print", [("var", "w1", "Nat"), ("if", ("not", ("var", "t0", "Bool")), long_nat(g.vars, 26), long_nat(g.vars, 26), "Nat")]))
            feats = ["long-andor-if-expr"]
        prog.append(("print", [("lit", "Str", "end"), ("var", "a0", "Nat")]))
        out.append((f"L{i}", fraggen.to_erg(prog), feats))
    return out


def run(ctx):
    thorough = ctx.tier == "thorough"
    jobs = int(os.environ.get("VERIF_JOBS", "10"))
    ctx.assumptions = ["interpreters: CPython 3.7.16, 3.8.18, 3.9.18, 3.10.13, 3.11.7 (core.PYTHONS, absolute paths); 3.11 is the default target",
                       "the CLI is the debug build of the working tree"]
    ctx.cov["rule"] = ("A: stage-1 programs of vlib/fraggen.py (stage1=True) x 5 targets; non-trivial = inside the model with a definition or an "
                       "and/or jump; B: programs of the full fragment grammar x 5 interpreters, compared with the 3.11 run")
    proof = core.proof_stage(ctx, "C13", ["ErgVerif.C13.Props", "ergmodel_c13"])
    checker_cmd = "cd lean && lake build ErgVerif.C13.Props ergmodel_c13 && lake env lean Audit/C13.lean"
    extra = {"axioms": proof["axioms"], "theorems": proof["theorems"], "examples": proof["examples"]}
    ok_h, hlog, bindir = core.cargo_build(["c13"])
    ok_e, elog, erg = core.erg_binary()
    if not ok_h or not ok_e:
        ctx.violation({"kind": "build-failed", "harness_log": hlog if not ok_h else "", "erg_log": elog if not ok_e else ""}, no_input=True)
        ctx.write_evidence(proof["obligations"], proof["discharged"], checker_cmd, extra)
        ctx.finish()
    nA, nB = (400, 300) if thorough else (6, 4)

    # ------------------------------------------------------------------ stream A: model tie per target
    progsA = []
    for i in range(nA):
        g = fraggen.Gen(fraggen.Rng(ctx.seed * 7919 + 13000 + i), stage1=True, zero_div=(i % 4 == 0), big_lits=(i % 3 == 0),
                        hard_strings=(i % 5 == 0), conds=False, loops=False)
        p = g.program()
        progsA.append((f"a{i}", fraggen.to_erg(p), sorted(g.features | fraggen.tree_features(p))))
    rowsin = []
    for cid, inp in core.corpus_rows("C13"):
        if inp.startswith("(ver "):
            rowsin.append((cid, inp))
    for pid, src, _ in progsA:
        for v in VERS:
            rowsin.append((f"{pid}@{v}", f"(ver {v.split('.')[1]}) (src {core.quote(src)})"))
    _, rows, herr = core.run_harness(bindir, "c13", ["replay"], stdin="".join(f"{a}\t{b}\n" for a, b in rowsin))
    mrc, mrows, merr = core.run_model("C13", rows)
    res = core.compare(rows, mrows, {e["id"] for e in ctx.known_findings()})
    mmap = {m[0]: m for m in mrows}
    realA = compile_and_run(erg, [(f"{pid}@{v}", src, v) for pid, src, _ in progsA for v in VERS], jobs)
    realA = {r["id"]: r for r in realA}
    kinds = {}
    vm_mismatch = []
    nontrivial = 0
    per_ver_in_model = {v: 0 for v in VERS}
    for r in rows:
        impl = r[2]
        k = "in-model" if impl.startswith("(ver") else impl.split("(")[0]
        if impl.startswith("out-of-model"):
            k = impl[:44]
        kinds[k] = kinds.get(k, 0) + 1
        m = mmap.get(r[0])
        if not impl.startswith("(ver") or not m or "@" not in r[0]:
            continue
        ver = r[0].split("@")[1]
        per_ver_in_model[ver] += 1
        if "defv" in impl and ("jumpIf" in impl or "binaryOp" in impl):
            nontrivial += 1
        vo = vm_outcome(m[2])
        rr = realA.get(r[0])
        if vo is None or rr is None:
            continue
        ex, lines = vo
        want_out = "".join(unq(l) + "\n" for l in lines)
        want_cls = "ok" if ex == "ok" else "runtime-exc:" + ex.split(":", 1)[1] if ex.startswith("exc:") else ex
        if rr["class"] != want_cls or rr["out"] != want_out:
            vm_mismatch.append({"id": r[0], "input": r[1], "vm": [ex, lines], "real": [rr["class"], rr["out"]], "stderr": rr.get("run_err", rr["compile_err"])[-400:]})
    extra.update({"streamA_programs": len(progsA), "streamA_rows": len(rows), "streamA_outcome_kinds": kinds,
                  "streamA_in_model_per_target": per_ver_in_model, "streamA_codegen_disagreements": len(res.disagree),
                  "streamA_machine_vs_real_interpreter_mismatches": len(vm_mismatch)})

    # ------------------------------------------------------------------ stream B: behaviour across interpreters
    progsB = []
    for i in range(nB):
        g = fraggen.Gen(fraggen.Rng(ctx.seed * 104729 + 130000 + i), big_lits=(i % 2 == 0), hard_strings=(i % 4 == 0))
        p = g.program()
        progsB.append((f"b{i}", fraggen.to_erg(p), sorted(g.features | fraggen.tree_features(p))))
    # long bodies: jump arguments >= 256 on every target (quick tier: one program of each of the five shapes)
    progsB += long_programs(ctx.seed, 60 if thorough else 5)
    corpusB = []
    for cid, inp in core.corpus_rows("C13"):
        m = re.match(r'^\(src "(.*)"\)$', inp)
        if m:
            corpusB.append((cid, unq(m.group(1)), ["corpus"]))
    allB = corpusB + progsB + [(pid, src, feats) for pid, src, feats in progsA]      # the stage-1 programs count for B as well
    # quick tier: the (large) witnesses of listed findings run on 3.9, 3.10 and 3.11 only
    realB = compile_and_run(erg, [(f"{pid}@{v}", src, v) for pid, src, _ in corpusB + progsB for v in VERS
                                  if thorough or not pid.startswith("k:") or v in ("3.9", "3.10", "3.11")], jobs)
    realB = {r["id"]: r for r in realB}
    realB.update(realA)
    classes = {v: {} for v in VERS}
    diffs = []
    feats_hist = {}
    accepted = 0
    for pid, src, feats in allB:
        ref = realB.get(f"{pid}@3.11")
        if ref is None:
            continue
        if ref["class"] not in ("rejected", "crash", "timeout"):
            accepted += 1
            for f in feats:
                feats_hist[f] = feats_hist.get(f, 0) + 1
        for v in VERS:
            r = realB.get(f"{pid}@{v}")
            if r is None:
                continue
            classes[v][r["class"]] = classes[v].get(r["class"], 0) + 1
            bad = []
            if r["magic"] is not None and r["magic"] != MAGIC[v]:
                bad.append(f"magic {r['magic']} != {MAGIC[v]}")
            if (r["class"], r["out"]) != (ref["class"], ref["out"]):
                bad.append("behaviour differs from target 3.11")
            if bad:
                diffs.append((pid, src, feats, v, r, ref, bad))
    extra.update({"streamB_programs": len(allB), "streamB_accepted_by_3.11": accepted, "streamB_outcome_classes_per_target": classes,
                  "streamB_feature_histogram": feats_hist, "streamB_runs": len(realB)})

    # ------------------------------------------------------------------ selection
    sel_src = 'sys = pyimport "sys"\nprint! sys.version_info.major, sys.version_info.minor\n'
    sel = compile_and_run(erg, [(f"sel@{v}", sel_src, v) for v in VERS], jobs, run_mode="run")
    sel_bad = []
    for r in sel:
        want = " ".join(r["ver"].split("."))
        last = [l for l in r["out"].strip().split("\n") if l.strip()][-1:] or [""]
        if r["rc"] != 0 or last[0].strip() != want:
            sel_bad.append({"ver": r["ver"], "rc": r["rc"], "stdout": r["out"][-300:], "stderr": r["err"][-500:], "want_last_line": want})
    extra["selection_runs"] = len(sel)
    extra["selection_failures"] = len(sel_bad)

    # ------------------------------------------------------------------ verdict
    ctx.cov["evaluations"] = len(rows) + len(realB) + len(sel)
    ctx.cov["distinct_nontrivial"] = nontrivial + accepted
    ctx.cov["traces_validated_against_impl"] = res.agree
    ctx.cov["samples"] = [{"input": r[1][:300], "impl": r[2][:400]} for r in rows[:2]] + \
                         [{"behavioural_src": progsB[0][1][:300], "per_target": {v: [realB[f"{progsB[0][0]}@{v}"]["class"], realB[f"{progsB[0][0]}@{v}"]["out"][:80]] for v in VERS}}]
    known_hits = {}
    unexplained = []
    for pid, src, feats, v, r, ref, bad in diffs:
        sig = (r["class"] or "") + " " + re.sub(r"\x1b\[[0-9;]*m", "", r.get("compile_err", ""))
        e = known_match(ctx, list(feats) + size_features(src, v), sig)
        if e:
            known_hits.setdefault(e["id"], []).append(f"{pid}@{v}")
        else:
            unexplained.append((pid, src, feats, v, r, ref, bad))
    gone = []
    for e in ctx.known_findings():
        wit = [h for h in known_hits.get(e["id"], []) if h.startswith("k:" + e["id"] + "@")]
        if wit:
            ctx.print_known(e, f"{e.get('summary', '')} [witness still fails as recorded on target(s) {', '.join(w.split('@')[1] for w in wit)}; "
                               f"{len(known_hits[e['id']]) - len(wit)} generated case(s) of this class in this run]")
        else:
            gone.append(e["id"])
    extra["known_findings_no_longer_reproducing"] = gone
    extra["differences_known"] = {k: len(v) for k, v in known_hits.items()}
    extra["differences_unexplained"] = len(unexplained)
    if unexplained:
        pid, src, feats, v, r, ref, bad = unexplained[0]
        ctx.violation({"kind": "target-behaves-differently", "case_id": f"{pid}@{v}", "erg_source": src, "target": v, "what": bad, "features": feats,
                       "target_run": {"class": r["class"], "stdout": r["out"][-1500:], "magic": r["magic"], "stderr": (r.get("run_err") or r.get("compile_err", ""))[-800:]},
                       "default_target_run": {"class": ref["class"], "stdout": ref["out"][-1500:]},
                       "others": [{"id": f"{u[0]}@{u[3]}", "what": u[6], "erg_source": u[1][:1500]} for u in unexplained[1:6]]})
    elif sel_bad:
        ctx.violation({"kind": "run-does-not-use-selected-interpreter", "erg_source": sel_src, "failures": sel_bad})
    elif res.spec_viol:
        x = res.spec_viol[0]
        ctx.violation({"kind": "implementation-violates-spec", "case_id": x[0], "input": x[1], "impl": x[2], "model": x[3], "spec": x[4]})
    elif res.disagree or vm_mismatch or not proof["ok"] or mrc != 0:
        ctx.violation({"kind": "no-longer-shown",
                       "what": "the version-parameterised transcription of the code generator (or a machine model) no longer corresponds to the "
                               "implementation, or a proof obligation fails; no program that behaves differently on two targets was found among "
                               f"{len(allB)} programs x 5 interpreters",
                       "proof_problems": proof["problems"], "build_log_tail": proof["log"][-2000:] if not proof["ok"] else "",
                       "correspondence_disagreements": [dict(id=x[0], input=x[1], impl=x[2], model=x[3]) for x in res.disagree[:5]],
                       "machine_model_vs_real_interpreter": vm_mismatch[:5]}, no_input=True)
    ctx.write_evidence(proof["obligations"], proof["discharged"], checker_cmd, extra,
                       trusted=["models of the CPython 3.7–3.10 and 3.11 evaluation loops + runtime wrappers for the stage-1 instructions (validated against the five interpreters on every case)",
                                "HIR projection and per-version bytecode decoders in harness/src/bin/c13.rs (opcode numbers from each interpreter's opcode.opmap)",
                                "magic numbers per version (importlib.util.MAGIC_NUMBER of the installed interpreters)"])
    ctx.finish()


def replay(ctx, path):
    rp = json.load(open(path))
    ok_e, _, erg = core.erg_binary()
    if "erg_source" in rp and rp.get("kind") == "target-behaves-differently":
        v = rp["target"]
        rs = compile_and_run(erg, [("r@" + v, rp["erg_source"], v), ("r@3.11", rp["erg_source"], "3.11")], 2)
        for r in rs:
            print(r["ver"], r["class"], "magic", r["magic"], repr(r["out"][-300:]))
        bad = (rs[0]["class"], rs[0]["out"]) != (rs[1]["class"], rs[1]["out"]) or (rs[0]["magic"] is not None and rs[0]["magic"] != MAGIC[v])
        print("still failing" if bad else "no longer failing")
        raise SystemExit(1 if bad else 0)
    if rp.get("kind") == "run-does-not-use-selected-interpreter":
        rs = compile_and_run(erg, [(f"sel@{f['ver']}", rp["erg_source"], f["ver"]) for f in rp["failures"]], 2, run_mode="run")
        bad = 0
        for r in rs:
            print(r["ver"], r["rc"], repr(r["out"][-200:]))
            bad += r["rc"] != 0 or " ".join(r["ver"].split(".")) not in r["out"]
        print("still failing" if bad else "no longer failing")
        raise SystemExit(1 if bad else 0)
    core.standard_replay(ctx, path, "c13")
