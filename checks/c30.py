"""C30 — language-server rename preserves program meaning: Lean α-renaming theorems for a scoped mini-language (definitions, parameters,
default arguments, lambdas/closures, shadowing), tied to the real server by sending a rename request for EVERY name token of generated
programs and comparing the WorkspaceEdit with Model.renameEdits; the edit is applied to the text and original and edited program are
checked/run with the real compiler."""
import concurrent.futures
import os
import re
import tempfile
from vlib import core

MANIFEST_ENTRY = {
    "level_claimed": {"category": "proof",
        "text": "Lean theorems for every program of a scoped mini-language (variable and function definitions, parameters with default "
                "arguments evaluated in the enclosing scope, lambdas/closures, shadowing in nested blocks): with a fresh new name, editing "
                "exactly the tokens that resolve to the binder yields the α-renamed program, every token keeps its binder (binding structure "
                "preserved), and nothing that denotes the renamed binder is still spelled with the old name; freshness is shown necessary by a "
                "capture witness. The model's resolver and edit ranges are tied to the real reference index by rename requests at every name "
                "token of generated programs; the returned edit is applied and original/edited programs are run with the real compiler."},
    "level_note": "partial: the resolver is a specification (the lowerer's reference index is not transcribed) — agreement with it is checked on "
                  "every name token of the generated programs only; 'typing and behaviour depend on names only through the binding structure' "
                  "is not proved for Erg itself but exercised by running both programs. Edit RANGES are exact only when the lexer reports true "
                  "columns (C30_edit_ranges); after a string literal with escapes on the same line they drift (shared root cause with C08, "
                  "recorded as C30-range-drift-after-escape until the lexer is fixed). Cross-module rename, methods/attributes and the "
                  "server's re-check after rename are not covered. Trusted: Lean kernel + {propext, Quot.sound, Classical.choice}.",
    "technique": "Lean 4 proof (mutual structural induction over terms/parameter lists with scope environments) + differential rename requests + real compiler runs",
}

STR = r'"((?:[^"\\]|\\.)*)"'


def unq(s):
    out, i = [], 0
    while i < len(s):
        c = s[i]
        if c == "\\":
            i += 1
            e = s[i]
            if e == "n": out.append("\n")
            elif e == "t": out.append("\t")
            elif e == "r": out.append("\r")
            elif e == "u": out.append(chr(int(s[i + 1:i + 5], 16))); i += 4
            elif e == "U": out.append(chr(int(s[i + 1:i + 7], 16))); i += 6
            else: out.append(e)
        else:
            out.append(c)
        i += 1
    return "".join(out)


def nontrivial(row):
    # at least one request returned an edit set with three or more sites
    return re.search(r"\(r \d+( \(\d+ \d+ \d+\)){3,}\)", row[2]) is not None


def run_erg(erg, env, text, d, name):
    p = os.path.join(d, name)
    with open(p, "w", encoding="utf-8") as f:
        # warnings are printed (on stdout) while compiling; everything after the marker line is the program's own output
        f.write('print! "@@RUN@@"\n' + text)
    rc, out, err = core.sh([erg, p], env=env, timeout=120, cwd=d)
    out = out.split("@@RUN@@\n", 1)[1] if "@@RUN@@\n" in out else ""
    kind = ""
    if rc != 0:
        m = re.findall(r"(\w+Error)", err + out)
        kind = ",".join(sorted(set(m)))
        # failure signatures used to attribute a changed verdict to a recorded finding (kept out of the compared error kinds)
        if "co_varnames is too small" in err + out:
            kind += "|sig:co_varnames-too-small"
        if "before its definition" in err + out:
            kind += "|sig:use-before-definition"
    return rc, out, kind


def run_erg_raw(erg, env, text, d):
    """compiler diagnostics of `text`, colour codes removed"""
    p = os.path.join(d, "raw.er")
    with open(p, "w", encoding="utf-8") as f:
        f.write(text)
    rc, out, err = core.sh([erg, "check", p], env=env, timeout=120, cwd=d)
    return re.sub(r"\x1b\[[0-9;]*m", "", err + out)


def idents(text):
    # identifier tokens outside string literals
    no_str = re.sub(r'"(?:[^"\\]|\\.)*"', '""', text)
    return re.findall(r"[A-Za-z_][A-Za-z_0-9]*!?", no_str)


def post(ctx, rows, res, bindir):
    ok, log, erg = core.erg_binary()
    if not ok:
        ctx.violation({"kind": "erg-cli-build-failed", "log": log}, no_input=True)
        return
    env = core.erg_env()
    known = {e["id"] for e in ctx.known_findings()}
    jobs = []
    stats = {"programs": 0, "renames_run": 0, "skipped_known_class_binders": 0, "original_ok": 0, "original_rejected": 0}
    # spec column per case id (the driver lists the binders whose ranges drifted)
    lim = 100 if ctx.tier == "thorough" else 8
    # scratch inside the harness' target directory (nothing outside /verif / the scratch root is needed)
    tbase = os.path.join(core.harness_dir("harness-els"), "target", "scratch")
    os.makedirs(tbase, exist_ok=True)
    td = tempfile.mkdtemp(prefix="c30-run-", dir=tbase)
    work = []
    for r in rows[:lim]:
        m = re.search(r"\(src " + STR + r"\)", r[1])
        if not m or r[2].startswith("crash") or r[2].startswith("out-of-model"):
            continue
        src = unq(m.group(1))
        new = unq(re.search(r"\(new " + STR + r"\)", r[1]).group(1))
        toks = re.findall(r"\(t " + STR + r" (\d+) (\d+) (\d+)\)", r[1])
        binders = dict((int(b), int(t)) for b, t in re.findall(r"\((\d+) (\d+)\)", (re.search(r"\(binders((?: \(\d+ \d+\))*) ?\)", r[1]) or re.search(r"()", "")).group(1)))
        drifted_toks = {i for i, t in enumerate(toks) if t[2] != t[3]}
        edited = [(int(b), unq(t)) for b, t in re.findall(r"\(edited (\d+) " + STR + r"\)", r[2])]
        work.append((r, src, new, toks, binders, drifted_toks, edited))
    stats["programs"] = len(work)

    def one(w):
        r, src, new, toks, binders, drifted_toks, edited = w
        d = tempfile.mkdtemp(dir=td)
        base = run_erg(erg, env, src, d, "orig.er")
        out = []
        # class of C30-original-unbound-local: the ORIGINAL is accepted by `erg check` but dies with UnboundLocalError when run (a local
        # definition and a later module-level definition share a name and the generated code confuses them); renaming one of the two
        # then repairs the program, so "behaves identically" cannot hold for it
        clash = False
        if base[0] != 0 and "UnboundLocalError" in base[2]:
            rc_chk, _, _ = core.sh([erg, "check", os.path.join(d, "orig.er")], env=env, timeout=120, cwd=d)
            clash = rc_chk == 0
        sites = {}
        for m in re.finditer(r"\(r (\d+)((?: \(\d+ \d+ \d+\))*)\)", r[2]):
            sites[int(m.group(1))] = re.findall(r"\((\d+) (\d+) (\d+)\)", m.group(2))
        for b, text in edited:
            tok = binders.get(b)
            my_sites = sites.get(tok, [])
            # a binder is in a known-finding class when one of its edit ranges is not a true token range (drift) or occurs twice
            true_ranges = {(t[1], t[2], str(int(t[2]) + len(unq(t[0])))) for t in toks}
            if any(tuple(s) not in true_ranges for s in my_sites) or len(set(map(tuple, my_sites))) != len(my_sites):
                out.append(("skip", b))
                continue
            old = unq(toks[tok][0])
            got = run_erg(erg, env, text, d, "edit%d.er" % b)
            problems = []
            if clash and (base[0] == 0) != (got[0] == 0):
                out.append(("clash", b))
                continue
            if base[0] != 0 and got[0] == 0 and "sig:co_varnames-too-small" in base[2]:
                # class of C30-original-invalid-code-object: the ORIGINAL passes `erg check` and the code generator then emits a code
                # object the interpreter refuses to build; renaming one of the two same-named parameters repairs the program
                rc_chk, _, _ = core.sh([erg, "check", os.path.join(d, "orig.er")], env=env, timeout=120, cwd=d)
                if rc_chk == 0:
                    out.append(("known", b, "C30-original-invalid-code-object"))
                    continue
            if base[0] != 0 and got[0] == 0 and "sig:use-before-definition" in base[2] and \
                    re.search(r"cannot access \S*%s\S* before its definition" % re.escape(old), run_erg_raw(erg, env, src, d)):
                # class of C30-use-before-definition-left-behind: the original is rejected because a local is used before its definition;
                # the edit for that local leaves the early use alone, which then resolves to an outer binding and the program is accepted
                out.append(("known", b, "C30-use-before-definition-left-behind"))
                continue
            if (base[0] == 0) != (got[0] == 0):
                problems.append("verdict changed: original rc=%d, edited rc=%d (%s)" % (base[0], got[0], got[2]))
            elif base[0] == 0 and base[1] != got[1]:
                problems.append("output changed")
            elif base[0] != 0 and base[2] != got[2]:
                problems.append("error kinds changed: %s -> %s" % (base[2], got[2]))
            n_old_before, n_old_after = idents(src).count(old), idents(text).count(old)
            if n_old_before - n_old_after != len(my_sites):
                problems.append("old name occurrences: %d before, %d after, %d sites" % (n_old_before, n_old_after, len(my_sites)))
            if idents(text).count(new) != len(my_sites):
                problems.append("new name occurrences differ from the number of sites")
            out.append(("run", b, problems, text, base, got))
        return r, src, base, out

    with concurrent.futures.ThreadPoolExecutor(max_workers=8) as ex:
        results = list(ex.map(one, work))
    clash_rows = []
    known_rows = {}
    for r, src, base, out in results:
        stats["original_ok" if base[0] == 0 else "original_rejected"] += 1
        for o in out:
            if o[0] == "skip":
                stats["skipped_known_class_binders"] += 1
                continue
            if o[0] == "known":
                known_rows.setdefault(o[2], []).append(r[0])
                continue
            if o[0] == "clash":
                stats["original_unbound_local"] = stats.get("original_unbound_local", 0) + 1
                clash_rows.append(r[0])
                continue
            stats["renames_run"] += 1
            if o[2]:
                ctx.violation({"kind": "renamed-program-differs", "case_id": r[0], "input": r[1], "binder": o[1], "problems": o[2],
                               "original": src, "edited": o[3], "original_run": list(o[4]), "edited_run": list(o[5])})
    for e in ctx.known_findings():
        if e["id"] == "C30-original-unbound-local" and clash_rows:
            if "k:C30-nested-def-site-empty" in clash_rows or "k:C30-original-unbound-local" in clash_rows:
                ctx.print_known(e, f"{e['summary']} [witness still fails as recorded; {len(set(clash_rows))} program(s) of this class in this run]")
            else:
                ctx.print_known(e, f"{e['summary']} [{len(set(clash_rows))} program(s) of this class in this run]")
    listed = {e["id"]: e for e in ctx.known_findings()}
    for fid, rows_ in sorted(known_rows.items()):
        if fid in listed:
            ctx.print_known(listed[fid], f"{listed[fid]['summary']} [{len(set(rows_))} program(s) of this class in this run]")
            stats["known_class_" + fid] = len(rows_)
        else:
            ctx.violation({"kind": "renamed-program-differs", "what": f"class {fid} is not (or no longer) listed", "cases": rows_[:10]})
    if clash_rows and not any(e["id"] == "C30-original-unbound-local" for e in ctx.known_findings()):
        ctx.violation({"kind": "renamed-program-differs", "what": "original dies with UnboundLocalError, renamed program runs", "cases": clash_rows})
    ctx.cov["behaviour_check"] = stats
    core.sh(["rm", "-rf", td])


def run(ctx):
    ctx.cov["rule"] = ("programs of 4-8 top-level statements: variable definitions, functions with 1-2 parameters (last one optionally with a default "
                       "argument over the enclosing scope), nested blocks with local definitions and closures, lambdas, print! lines with string "
                       "literals (plain and with \\t \\\\ \\n \\\" escapes); names drawn from small pools so that shadowing is frequent; one rename "
                       "request per name token (+ one at the true position when the lexer's column differs); non-trivial = an edit set of >= 3 sites")
    ctx.assumptions = ["single-file programs, ASCII", "new name zz9 is fresh by construction",
                       "the client touches the file and sends didSave after each rename (the server clears the module cache on rename)"]
    core.standard_check(ctx, harness_bin="c30", kind="harness-els", n_quick=10, n_thorough=100, nontrivial=nontrivial, post=post,
                        trusted=["generator's rendering of the mini-language to Erg text (token positions)",
                                 "real lexer's token columns enter the model as facts (rcol); the spec compares with true columns"])


def replay(ctx, path):
    core.standard_replay(ctx, path, "c30", kind="harness-els")
