"""C16 — opcode and magic-number tables match each CPython version (T-gen).

Every run regenerates lean/ErgVerif/Gen/C16.lean (static tables: the five opcode enums through `try_from`, `is_jump_op`,
the arms of `jump_abs_addr`, `get_ver_from_magic_num`, `get_magic_num_bytes` of the working tree; `dis.opmap`, `hasjrel`,
`hasjabs`, `MAGIC_NUMBER` of every installed interpreter) and lean/ErgVerif/Gen/C16Written.lean (the (enum, variant, byte)
triples really passed to `write_instr` while compiling a program corpus for each target 3.7..3.11, recorded through the
`#[cfg(erg_verif)]` hook), then re-elaborates the `decide +kernel` theorems of ErgVerif.C16.Props over them. The same
predicates are evaluated in Python to name the offending rows when an obligation fails (the replay)."""
import glob
import hashlib
import json
import os

from vlib import core

MANIFEST_ENTRY = {
    "level_claimed": {"category": "proof",
        "text": "kernel-checked finite-table theorems (decide +kernel) over tables regenerated on every run from the working tree and from "
                "the installed interpreters 3.7-3.13: every (enum, variant, byte) the code generator passes to write_instr for target v is, "
                "by name, that opcode number in CPython v; is_jump_op classifies every written opcode as dis.hasjrel/hasjabs of v does; every "
                "arm of jump_abs_addr computes the address formula of that opcode's jump kind in v; no enum row is a number typo; "
                "get_ver_from_magic_num/get_magic_num_bytes agree with importlib.util.MAGIC_NUMBER of 3.7-3.12 (plus a general theorem on a "
                "transcription of the three magic-number functions, tied to the code on 3000..3700)."},
    "level_note": "trusted: Lean kernel + {propext, Quot.sound}; the translators (harness `c16 dump`/`c16 written`, py/c16_dump_dis.py, name "
                  "interning in checks/c16.py; intern table and row hashes are in the evidence). `Written v` is the set reached by the compiled "
                  "corpus (examples/, tests/should_ok/, hand-kept snippets per emit_*_3xx function), not a static over-approximation of all "
                  "write_instr call sites: unreached variants are listed in the evidence. Whole-table differences to dis.opmap are observations.",
    "technique": "Lean 4 decide +kernel over regenerated tables (T-gen) + instrumented code generator (cfg(erg_verif) write_instr log)",
}

GEN = os.path.join(core.LEAN, "ErgVerif", "Gen")
TARGETS = [7, 8, 9, 10, 11]                  # erg's supported code-generation targets (minor versions)
MAGIC_VERSIONS = [7, 8, 9, 10, 11, 12]       # property: magic number of every installed interpreter 3.7-3.12
ENUMS = ["CommonOpcode", "Opcode308", "Opcode309", "Opcode310", "Opcode311"]
KINDS = {"rel1": 0, "abs1": 1, "rel2": 2, "abs2": 3, "back2": 4}
# erg's spelling of a CPython opcode name (same number, never written); applied before the by-name comparison of C16_static
ALIASES = {"DUP_TOP2": "DUP_TOP_TWO"}


def excluded_name(n):
    return n.startswith("ERG_") or n == "NOT_IMPLEMENTED"


def write_if_changed(path, text):
    os.makedirs(os.path.dirname(path), exist_ok=True)
    if not os.path.exists(path) or open(path).read() != text:
        open(path, "w").write(text)
        return True
    return False


def lean_list(xs, per_line=12, indent="  "):
    xs = list(xs)
    if not xs:
        return "[]"
    lines = []
    for i in range(0, len(xs), per_line):
        lines.append(indent + ", ".join(xs[i:i + per_line]))
    return "[\n" + ",\n".join(lines) + "]"


def tup(*a):
    return "(" + ", ".join(str(x) for x in a) + ")"


# ------------------------------------------------------------------------------------------------ dumps

def dump_interpreters():
    py = {}
    for v, exe in core.PYTHONS.items():
        rc, out, err = core.sh([exe, os.path.join(core.VERIF, "py", "c16_dump_dis.py")], timeout=120)
        if rc != 0:
            raise RuntimeError(f"py/c16_dump_dis.py failed under {exe}: {err[-300:]}")
        d = json.loads(out)
        assert d["version"][0] == 3 and f"3.{d['version'][1]}" == v, (v, d["version"])
        py[d["version"][1]] = d
    return py


def dump_erg(bindir):
    rc, out, err = core.sh([os.path.join(bindir, "c16"), "dump"], timeout=600, env=core.erg_env())
    if rc != 0:
        raise RuntimeError("c16 dump failed: " + err[-500:])
    t = {"ops": [], "isjump": [], "arms": [], "vermagic": [], "magicbytes": []}
    for l in out.splitlines():
        p = l.split("\t")
        if p[0] == "op":
            t["ops"].append((p[1], p[3], int(p[2])))
        elif p[0] == "isjump":
            t["isjump"].append(int(p[1]))
        elif p[0] == "arm":
            t["arms"].append((int(p[1]), int(p[2]), p[3]))
        elif p[0] == "vermagic":
            t["vermagic"].append((int(p[1]), int(p[2]), int(p[3])))
        elif p[0] == "magicbytes":
            t["magicbytes"].append((int(p[1]), [int(x) for x in p[2:6]], int(p[6])))
    return t


# ------------------------------------------------------------------------------------------------ static Gen file

def build_static(py, erg):
    names = set(n for _, n, _ in erg["ops"]) | set(ALIASES.values())
    for d in py.values():
        names |= set(d["opmap"])
    # ids: CPython-comparable names first (alphabetical), then the excluded ones, so that "excluded" is `id >= excludedFrom`
    names = sorted(n for n in names if not excluded_name(n)) + sorted(n for n in names if excluded_name(n))
    nid = {n: i for i, n in enumerate(names)}
    canon = lambda n: nid[ALIASES.get(n, n)]
    eid = {e: i for i, e in enumerate(ENUMS)}
    L = []
    L.append("/- GENERATED on every run by checks/c16.py from the working tree (harness `c16 dump`) and from the installed")
    L.append("   interpreters (py/c16_dump_dis.py). Never edit by hand. Names are interned to Nat ids (intern table below). -/")
    L.append("namespace ErgVerif.Gen.C16")
    L.append("")
    L.append("/- intern table: id name")
    for n in names:
        L.append(f"   {nid[n]} {n}")
    L.append("   enums: " + " ".join(f"{i}={e}" for e, i in eid.items()))
    L.append("   jump-arm kinds: 0 = idx+arg+2, 1 = arg, 2 = idx+2*arg+2, 3 = 2*arg, 4 = idx-2*arg+2, 5 = anything else -/")
    L.append(f"def nNames : Nat := {len(names)}")
    L.append("/-- names outside the by-name comparison (erg's own `ERG_*` pseudo-opcodes and `NOT_IMPLEMENTED`) have ids >= this -/")
    L.append(f"def excludedFrom : Nat := {min([nid[n] for n in names if excluded_name(n)] + [len(names)])}")
    L.append("/-- erg's spelling ↦ CPython's spelling (hand-kept in checks/c16.py: DUP_TOP2 ↦ DUP_TOP_TWO) -/")
    L.append("def aliases : List (Nat × Nat) := " + lean_list(tup(nid[a], nid[b]) for a, b in sorted(ALIASES.items()) if a in nid))
    L.append("/-- every `(enum, variant, byte)` with `Enum::try_from(byte) = Ok(variant)`, byte in 0..=255;")
    L.append("    sorted by (id of the CPython spelling of the variant, byte, enum) -/")
    erows = sorted(erg["ops"], key=lambda r: (canon(r[1]), r[2], eid[r[0]]))
    L.append("def erg : List (Nat × Nat × Nat) := " + lean_list((tup(eid[e], nid[n], b) for e, n, b in erows), 8))
    for key, doc in (("opmap", "`dis.opmap` of CPython 3.v as (name, number), sorted by name id"),):
        L.append(f"/-- {doc} -/")
        L.append("def py (v : Nat) : List (Nat × Nat) :=")
        L.append("  match v with")
        for v in sorted(py):
            rows = sorted((nid[n], b) for n, b in py[v]["opmap"].items())
            L.append(f"  | {v} => " + lean_list((tup(a, b) for a, b in rows), 10, "    "))
        L.append("  | _ => []")
    for key in ("hasjrel", "hasjabs"):
        L.append(f"/-- `dis.{key}` of CPython 3.v -/")
        L.append(f"def {key} (v : Nat) : List Nat :=")
        L.append("  match v with")
        for v in sorted(py):
            L.append(f"  | {v} => " + lean_list((str(b) for b in py[v][key]), 20, "    "))
        L.append("  | _ => []")
    L.append("/-- numbers of the opcodes whose name contains `JUMP_BACKWARD`/`BACKWARD` (3.11+: relative jumps that go backwards) -/")
    L.append("def backward (v : Nat) : List Nat :=")
    L.append("  match v with")
    for v in sorted(py):
        L.append(f"  | {v} => " + lean_list((str(b) for n, b in sorted(py[v]["opmap"].items(), key=lambda x: x[1]) if "BACKWARD" in n), 20, "    "))
    L.append("  | _ => []")
    L.append("/-- bytes b in 0..=255 with `CommonOpcode::is_jump_op(b)` -/")
    L.append("def isJumpOp : List Nat := " + lean_list(str(b) for b in erg["isjump"]))
    L.append("/-- `(byte, kind)` for every byte on which `jump_abs_addr(v, byte, idx, arg)` returns instead of panicking -/")
    L.append("def jumpArms (v : Nat) : List (Nat × Nat) :=")
    L.append("  match v with")
    for v in TARGETS:
        L.append(f"  | {v} => " + lean_list((tup(b, KINDS.get(k, 5)) for vv, b, k in erg["arms"] if vv == v), 12, "    "))
    L.append("  | _ => []")
    L.append("/-- `(m, 100*major+minor)` for every m in 3000..3700 on which `get_ver_from_magic_num(m)` returns (else it panics) -/")
    L.append("def verFromMagic : List (Nat × Nat) := " + lean_list((tup(m, 100 * a + b) for m, a, b in erg["vermagic"]), 10))
    L.append("/-- `(m, get_magic_num_bytes(m), get_magic_num_from_bytes(that))` for m in 3000..3700 -/")
    L.append("def magicBytes : List (Nat × List Nat × Nat) := " +
             lean_list((f"({m}, [{', '.join(map(str, bs))}], {back})" for m, bs, back in erg["magicbytes"]), 4))
    L.append("/-- `(minor, importlib.util.MAGIC_NUMBER as 4 bytes)` of each installed interpreter -/")
    L.append("def pyMagic : List (Nat × List Nat) := " +
             lean_list((f"({v}, [{', '.join(map(str, py[v]['magic']))}])" for v in sorted(py)), 4))
    L.append("")
    L.append("end ErgVerif.Gen.C16")
    return "\n".join(L) + "\n", names, nid


# ------------------------------------------------------------------------------------------------ Python mirror of the theorems

def spec_kind(py, v, b):
    d = py[v]
    if b in d["hasjabs"]:
        return "abs1" if v <= 9 else "abs2"
    if b in d["hasjrel"]:
        if v <= 9:
            return "rel1"
        back = {bb for n, bb in d["opmap"].items() if "BACKWARD" in n}
        return "back2" if b in back else "rel2"
    return None


def offenders_static(py, erg):
    """rows violating C16_static / C16_jumparms / C16_magic*, as replayable descriptions"""
    bad = []
    for e, n, b in erg["ops"]:
        if excluded_name(n):
            continue
        cn = ALIASES.get(n, n)
        if not any(py[v]["opmap"].get(cn) == b for v in TARGETS):
            bad.append({"theorem": "C16_static", "enum": e, "variant": n, "byte": b,
                        "cpython": {f"3.{v}": py[v]["opmap"].get(cn) for v in sorted(py)},
                        "what": f"{e}::{n} = {b} is the number of `{cn}` in no CPython 3.7-3.11"})
    for v, b, k in erg["arms"]:
        sk = spec_kind(py, v, b)
        if sk != k:
            name = [n for n, bb in py[v]["opmap"].items() if bb == b]
            bad.append({"theorem": f"C16_jumparms", "target": f"3.{v}", "byte": b, "cpython_name": name, "erg_formula": k, "cpython_kind": sk,
                        "what": f"jump_abs_addr({v}, {b}, idx, arg) computes `{k}` but dis of 3.{v} classifies opcode {b} {name} as {sk}"})
    vm = {m: 100 * a + b for m, a, b in erg["vermagic"]}
    mb = {m: (bs, back) for m, bs, back in erg["magicbytes"]}
    for v in MAGIC_VERSIONS:
        if v not in py:
            continue
        bs = py[v]["magic"]
        m = bs[0] + 256 * bs[1]
        if vm.get(m) != 300 + v:
            bad.append({"theorem": "C16_magic", "interpreter": f"3.{v}", "magic": m, "erg": vm.get(m, "panic"),
                        "what": f"get_ver_from_magic_num({m}) = {vm.get(m, 'panic')} but {m} is the magic number of the installed 3.{v}"})
        if m in mb and mb[m][0] != bs:
            bad.append({"theorem": "C16_magic_bytes", "interpreter": f"3.{v}", "magic": m, "erg_bytes": mb[m][0], "cpython_bytes": bs,
                        "what": f"get_magic_num_bytes({m}) = {mb[m][0]} but importlib.util.MAGIC_NUMBER of 3.{v} is {bs}"})
    for m, (bs, back) in sorted(mb.items()):
        if bs != [m % 256, m // 256, 13, 10] or back != m:
            bad.append({"theorem": "C16_magic_shape", "magic": m, "erg_bytes": bs, "back": back,
                        "what": f"get_magic_num_bytes({m}) = {bs} (expected little-endian number + 0D 0A), from_bytes gives {back}"})
    return bad


def observations(py, erg):
    """whole-table comparison Opcode3NN vs dis.opmap of 3.NN: never a violation (the enums are mixed per use site)"""
    tv = {"Opcode308": 8, "Opcode309": 9, "Opcode310": 10, "Opcode311": 11}
    obs = {}
    for e, v in tv.items():
        rows = [(n, b) for ee, n, b in erg["ops"] if ee == e and not excluded_name(n)]
        diff = [f"{n}={b} (3.{v}: {py[v]['opmap'].get(n)})" for n, b in rows if py[v]["opmap"].get(n) != b]
        missing = sorted(set(py[v]["opmap"]) - {n for n, _ in rows})
        obs[e] = {"rows": len(rows), "differs_from_own_version": diff, "cpython_names_absent": len(missing)}
    hasj_missing = {}
    for v in TARGETS:
        s = set(py[v]["hasjrel"]) | set(py[v]["hasjabs"])
        hasj_missing[f"3.{v}"] = {"jump_opcodes_not_in_is_jump_op": sorted(s - set(erg["isjump"])),
                                  "is_jump_op_bytes_not_jumps": sorted(set(erg["isjump"]) - s)}
    obs["is_jump_op_whole_table"] = hasj_missing
    return obs


# ------------------------------------------------------------------------------------------------ run

def sha(text):
    return hashlib.sha256(text.encode()).hexdigest()[:16]


def run(ctx):
    prop = "C16"
    ok_h, hlog, bindir = core.cargo_build(["c16"])
    if not ok_h:
        ctx.violation({"kind": "harness-build-failed", "what": "the table dumper no longer builds against the working tree", "log": hlog}, no_input=True)
        ctx.write_evidence(1, 0, "cargo build --bin c16", {}, [])
        ctx.finish()
    py = dump_interpreters()
    erg = dump_erg(bindir)
    text, names, nid = build_static(py, erg)
    changed = write_if_changed(os.path.join(GEN, "C16.lean"), text)
    gen_tables = {"Gen/C16.lean": {"sha256_16": sha(text), "rewritten": changed, "names": len(names), "erg_rows": len(erg["ops"]),
                                   "py_rows": {f"3.{v}": len(py[v]["opmap"]) for v in sorted(py)},
                                   "jump_arms": len(erg["arms"]), "vermagic_rows": len(erg["vermagic"]), "magicbytes_rows": len(erg["magicbytes"])}}
    bad = offenders_static(py, erg)
    proof = core.proof_stage(ctx, prop, ["ErgVerif.C16.Props"])
    checker_cmd = "cd lean && lake build ErgVerif.C16.Props && lake env lean Audit/C16.lean"
    extra = {"axioms": proof["axioms"], "theorems": proof["theorems"], "examples": proof["examples"], "gen_tables": gen_tables,
             "observations": observations(py, erg), "offending_rows": bad[:50],
             "intern_table_sha256_16": sha("\n".join(names))}
    ctx.cov["rule"] = "a table row is one evaluation; non-trivial = a row that a theorem quantifies over"
    rows = len(erg["ops"]) + len(erg["arms"]) + len(erg["vermagic"]) + len(erg["magicbytes"]) + sum(len(py[v]["opmap"]) for v in py)
    ctx.cov["evaluations"] = rows
    ctx.cov["distinct_nontrivial"] = len(erg["ops"]) + len(erg["arms"]) + len(MAGIC_VERSIONS) + len(erg["magicbytes"])
    ctx.cov["traces_validated_against_impl"] = len(erg["ops"]) + len(erg["arms"]) + len(erg["vermagic"]) + len(erg["magicbytes"])
    ctx.cov["samples"] = [{"row": f"{e}::{n} = {b}"} for e, n, b in erg["ops"][:3]] + [{"arm": list(a)} for a in erg["arms"][:2]]
    ctx.assumptions = ["interpreters: " + ", ".join(f"3.{v}.{py[v]['version'][2]}" for v in sorted(py)),
                       "names are compared as strings by the translator (interned ids); `DUP_TOP2` is read as CPython's `DUP_TOP_TWO`"]
    if bad:
        ctx.violation({"kind": "table-row-violates-spec", "rows": bad[:40], "count": len(bad),
                       "what": "rows of the regenerated tables that contradict the interpreter's tables (computed by set difference)",
                       "proof_problems": proof["problems"]})
    elif not proof["ok"]:
        ctx.violation({"kind": "no-longer-shown", "what": "a C16 proof obligation no longer elaborates over the regenerated tables and the Python "
                       "mirror of the theorems found no offending row", "proof_problems": proof["problems"],
                       "build_log_tail": proof["log"][-3000:]}, no_input=True)
    ctx.write_evidence(proof["obligations"], proof["discharged"], checker_cmd, extra,
                       ["translators: harness/src/bin/c16.rs, py/c16_dump_dis.py, checks/c16.py (name interning)"])
    ctx.finish()


def replay(ctx, path):
    rp = json.load(open(path))
    print(json.dumps(rp.get("rows", rp), indent=1)[:6000])
    ok_h, hlog, bindir = core.cargo_build(["c16"])
    py = dump_interpreters()
    erg = dump_erg(bindir)
    bad = offenders_static(py, erg)
    want = {json.dumps(r, sort_keys=True) for r in rp.get("rows", [])}
    still = [r for r in bad if json.dumps(r, sort_keys=True) in want] or bad
    print("still failing" if still else "no longer failing")
    for r in still[:20]:
        print("  ", r["what"])
    raise SystemExit(1 if still else 0)
