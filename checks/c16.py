"""C16 — opcode and magic-number tables match each CPython version (T-gen).

Every run regenerates lean/ErgVerif/Gen/C16.lean (static tables: the five opcode enums through `try_from`, `is_jump_op`,
the arms of `jump_abs_addr`, `get_ver_from_magic_num`, `get_magic_num_bytes` of the working tree; `dis.opmap`, `hasjrel`,
`hasjabs`, `MAGIC_NUMBER` of every installed interpreter) and lean/ErgVerif/Gen/C16Written.lean (the (enum, variant, byte)
triples really passed to `write_instr` while compiling a program corpus for each target 3.7..3.11, recorded through the
`#[cfg(erg_verif)]` hook), then re-elaborates the `decide +kernel` theorems of ErgVerif.C16.Props over them. The same
predicates are evaluated in Python to name the offending rows when an obligation fails (the replay)."""
import concurrent.futures
import glob
import hashlib
import json
import os
import re
import tempfile

from vlib import core

MANIFEST_ENTRY = {
    "level_claimed": {"category": "proof",
        "text": "kernel-checked finite-table theorems (decide +kernel) over tables regenerated on every run from the working tree and from "
                "the installed interpreters 3.7-3.13: every (enum, variant, byte) the code generator passes to write_instr for target v is, "
                "by name, that opcode number in CPython v; is_jump_op classifies every written opcode as dis.hasjrel/hasjabs of v does; every "
                "arm of jump_abs_addr computes the address formula of that opcode's jump kind in v; no enum row is a number typo; "
                "get_ver_from_magic_num/get_magic_num_bytes agree with importlib.util.MAGIC_NUMBER of 3.7-3.12 (plus a general theorem on a "
                "transcription of the three magic-number functions, tied to the code on 3000..3700)."},
    "level_note": "trusted: Lean kernel + {propext, Quot.sound}; the translators (harness `c16 dump`/`c16 written`, py/c16_dump_dis.py, name "
                  "interning in checks/c16.py; intern table and row hashes are in the evidence). `Written v` is the set reached by the compiled "
                  "corpus (examples/, tests/should_ok/, hand-kept snippets per emit_*_3xx function), not a static over-approximation of all "
                  "write_instr call sites: unreached variants are listed in the evidence. Whole-table differences to dis.opmap are observations.",
    "technique": "Lean 4 decide +kernel over regenerated tables (T-gen) + instrumented code generator (cfg(erg_verif) write_instr log)",
}

GEN = os.path.join(core.LEAN, "ErgVerif", "Gen")
TARGETS = [7, 8, 9, 10, 11]                  # erg's supported code-generation targets (minor versions)
MAGIC_VERSIONS = [7, 8, 9, 10, 11, 12]       # property: magic number of every installed interpreter 3.7-3.12
ENUMS = ["CommonOpcode", "Opcode308", "Opcode309", "Opcode310", "Opcode311"]
KINDS = {"rel1": 0, "abs1": 1, "rel2": 2, "abs2": 3, "back2": 4}
# erg's spelling of a CPython opcode name (same number, never written); applied before the by-name comparison of C16_static
ALIASES = {"DUP_TOP2": "DUP_TOP_TWO"}
# per target: the CPython-3.v name the generator *means* when it writes an erg variant of another version's enum. Hand-kept from the
# source: codegen.rs emit_if_instr says "Opcode310::POP_JUMP_IF_FALSE == Opcode311::POP_JUMP_FORWARD_IF_FALSE" and writes the 3.10
# variant for every target (the argument is computed as a forward offset on 3.11).
VER_ALIASES = {11: {"POP_JUMP_IF_FALSE": "POP_JUMP_FORWARD_IF_FALSE", "POP_JUMP_IF_TRUE": "POP_JUMP_FORWARD_IF_TRUE"}}
FINDING_NI = "C16-not-implemented-opcode"


def excluded_name(n):
    return n.startswith("ERG_") or n == "NOT_IMPLEMENTED"


def write_if_changed(path, text):
    os.makedirs(os.path.dirname(path), exist_ok=True)
    if not os.path.exists(path) or open(path).read() != text:
        open(path, "w").write(text)
        return True
    return False


def lean_list(xs, per_line=12, indent="  "):
    xs = list(xs)
    if not xs:
        return "[]"
    lines = []
    for i in range(0, len(xs), per_line):
        lines.append(indent + ", ".join(xs[i:i + per_line]))
    return "[\n" + ",\n".join(lines) + "]"


def tup(*a):
    return "(" + ", ".join(str(x) for x in a) + ")"


# ------------------------------------------------------------------------------------------------ dumps

def dump_interpreters():
    py = {}
    for v, exe in core.PYTHONS.items():
        rc, out, err = core.sh([exe, os.path.join(core.VERIF, "py", "c16_dump_dis.py")], timeout=120)
        if rc != 0:
            raise RuntimeError(f"py/c16_dump_dis.py failed under {exe}: {err[-300:]}")
        d = json.loads(out)
        assert d["version"][0] == 3 and f"3.{d['version'][1]}" == v, (v, d["version"])
        py[d["version"][1]] = d
    return py


def dump_erg(bindir):
    rc, out, err = core.sh([os.path.join(bindir, "c16"), "dump"], timeout=600, env=core.erg_env())
    if rc != 0:
        raise RuntimeError("c16 dump failed: " + err[-500:])
    t = {"ops": [], "isjump": [], "arms": [], "vermagic": [], "magicbytes": []}
    for l in out.splitlines():
        p = l.split("\t")
        if p[0] == "op":
            t["ops"].append((p[1], p[3], int(p[2])))
        elif p[0] == "isjump":
            t["isjump"].append(int(p[1]))
        elif p[0] == "arm":
            t["arms"].append((int(p[1]), int(p[2]), p[3]))
        elif p[0] == "vermagic":
            t["vermagic"].append((int(p[1]), int(p[2]), int(p[3])))
        elif p[0] == "magicbytes":
            t["magicbytes"].append((int(p[1]), [int(x) for x in p[2:6]], int(p[6])))
    return t


# ------------------------------------------------------------------------------------------------ static Gen file

def build_static(py, erg):
    names = set(n for _, n, _ in erg["ops"]) | set(ALIASES.values())
    for d in py.values():
        names |= set(d["opmap"])
    # ids: CPython-comparable names first (alphabetical), then the excluded ones, so that "excluded" is `id >= excludedFrom`
    names = sorted(n for n in names if not excluded_name(n)) + sorted(n for n in names if excluded_name(n))
    nid = {n: i for i, n in enumerate(names)}
    canon = lambda n: nid[ALIASES.get(n, n)]
    eid = {e: i for i, e in enumerate(ENUMS)}
    L = []
    L.append("/- GENERATED on every run by checks/c16.py from the working tree (harness `c16 dump`) and from the installed")
    L.append("   interpreters (py/c16_dump_dis.py). Never edit by hand. Names are interned to Nat ids (intern table below). -/")
    L.append("namespace ErgVerif.Gen.C16")
    L.append("")
    L.append("/- intern table: id name")
    for n in names:
        L.append(f"   {nid[n]} {n}")
    L.append("   enums: " + " ".join(f"{i}={e}" for e, i in eid.items()))
    L.append("   jump-arm kinds: 0 = idx+arg+2, 1 = arg, 2 = idx+2*arg+2, 3 = 2*arg, 4 = idx-2*arg+2, 5 = anything else -/")
    L.append(f"def nNames : Nat := {len(names)}")
    L.append("/-- names outside the by-name comparison (erg's own `ERG_*` pseudo-opcodes and `NOT_IMPLEMENTED`) have ids >= this -/")
    L.append(f"def excludedFrom : Nat := {min([nid[n] for n in names if excluded_name(n)] + [len(names)])}")
    L.append("/-- id of the variant name `NOT_IMPLEMENTED` (the class K of finding C16-not-implemented-opcode) -/")
    L.append(f"def notImplemented : Nat := {nid.get('NOT_IMPLEMENTED', len(names))}")
    L.append("/-- per target 3.v: erg variant name ↦ the CPython-3.v name the generator means (hand-kept in checks/c16.py from the source comments) -/")
    L.append("def verAliases (v : Nat) : List (Nat × Nat) :=")
    L.append("  match v with")
    for v in sorted(VER_ALIASES):
        L.append(f"  | {v} => " + lean_list((tup(nid[a], nid[b]) for a, b in sorted(VER_ALIASES[v].items()) if a in nid and b in nid), 8, "    "))
    L.append("  | _ => []")
    L.append("/-- erg's spelling ↦ CPython's spelling (hand-kept in checks/c16.py: DUP_TOP2 ↦ DUP_TOP_TWO) -/")
    L.append("def aliases : List (Nat × Nat) := " + lean_list(tup(nid[a], nid[b]) for a, b in sorted(ALIASES.items()) if a in nid))
    L.append("/-- every `(enum, variant, byte)` with `Enum::try_from(byte) = Ok(variant)`, byte in 0..=255;")
    L.append("    sorted by (id of the CPython spelling of the variant, byte, enum) -/")
    erows = sorted(erg["ops"], key=lambda r: (canon(r[1]), r[2], eid[r[0]]))
    L.append("def erg : List (Nat × Nat × Nat) := " + lean_list((tup(eid[e], nid[n], b) for e, n, b in erows), 8))
    for key, doc in (("opmap", "`dis.opmap` of CPython 3.v as (name, number), sorted by name id"),):
        L.append(f"/-- {doc} -/")
        L.append("def py (v : Nat) : List (Nat × Nat) :=")
        L.append("  match v with")
        for v in sorted(py):
            rows = sorted((nid[n], b) for n, b in py[v]["opmap"].items())
            L.append(f"  | {v} => " + lean_list((tup(a, b) for a, b in rows), 10, "    "))
        L.append("  | _ => []")
    for key in ("hasjrel", "hasjabs"):
        L.append(f"/-- `dis.{key}` of CPython 3.v -/")
        L.append(f"def {key} (v : Nat) : List Nat :=")
        L.append("  match v with")
        for v in sorted(py):
            L.append(f"  | {v} => " + lean_list((str(b) for b in py[v][key]), 20, "    "))
        L.append("  | _ => []")
    L.append("/-- numbers of the opcodes whose name contains `JUMP_BACKWARD`/`BACKWARD` (3.11+: relative jumps that go backwards) -/")
    L.append("def backward (v : Nat) : List Nat :=")
    L.append("  match v with")
    for v in sorted(py):
        L.append(f"  | {v} => " + lean_list((str(b) for n, b in sorted(py[v]["opmap"].items(), key=lambda x: x[1]) if "BACKWARD" in n), 20, "    "))
    L.append("  | _ => []")
    L.append("/-- bytes b in 0..=255 with `CommonOpcode::is_jump_op(b)` -/")
    L.append("def isJumpOp : List Nat := " + lean_list(str(b) for b in erg["isjump"]))
    L.append("/-- `(byte, kind)` for every byte on which `jump_abs_addr(v, byte, idx, arg)` returns instead of panicking -/")
    L.append("def jumpArms (v : Nat) : List (Nat × Nat) :=")
    L.append("  match v with")
    for v in TARGETS:
        L.append(f"  | {v} => " + lean_list((tup(b, KINDS.get(k, 5)) for vv, b, k in erg["arms"] if vv == v), 12, "    "))
    L.append("  | _ => []")
    L.append("/-- `(m, 100*major+minor)` for every m in 3000..3700 on which `get_ver_from_magic_num(m)` returns (else it panics) -/")
    L.append("def verFromMagic : List (Nat × Nat) := " + lean_list((tup(m, 100 * a + b) for m, a, b in erg["vermagic"]), 10))
    L.append("/-- `(m, get_magic_num_bytes(m), get_magic_num_from_bytes(that))` for m in 3000..3700 -/")
    L.append("def magicBytes : List (Nat × List Nat × Nat) := " +
             lean_list((f"({m}, [{', '.join(map(str, bs))}], {back})" for m, bs, back in erg["magicbytes"]), 4))
    L.append("/-- `(minor, importlib.util.MAGIC_NUMBER as 4 bytes)` of each installed interpreter -/")
    L.append("def pyMagic : List (Nat × List Nat) := " +
             lean_list((f"({v}, [{', '.join(map(str, py[v]['magic']))}])" for v in sorted(py)), 4))
    L.append("")
    L.append("end ErgVerif.Gen.C16")
    return "\n".join(L) + "\n", names, nid, eid


# ------------------------------------------------------------------------------------------------ Written v (instrumented code generator)

def corpus_files(tier="thorough"):
    """quick: examples/ + the hand-kept snippets (which were extended until they reach every variant the whole corpus reaches);
    thorough: additionally tests/should_ok/ (same table expected; a difference only re-elaborates the theorems)"""
    fs = sorted(glob.glob(os.path.join(core.REPO, "examples", "*.er")))
    if tier == "thorough":
        fs += sorted(glob.glob(os.path.join(core.REPO, "tests", "should_ok", "*.er")))
    fs = [f for f in fs if not f.endswith(".d.er")]
    fs += sorted(glob.glob(os.path.join(core.VERIF, "corpus", "C16", "snippets", "*.er")))
    return fs


def dump_written(bindir, py, tier="thorough"):
    """one harness process per target (in parallel): compile the whole corpus for that target, collect the write_instr log"""
    files = corpus_files(tier)

    def one(v):
        bs = py[v]["magic"]
        magic = bs[0] + 256 * bs[1]
        rc, out, err = core.sh([os.path.join(bindir, "c16"), "written", f"{v}:{magic}"] + files, cwd=core.REPO, timeout=3000, env=core.erg_env())
        rows, status, first = [], [], {}
        for l in out.splitlines():
            p = l.split("\t")
            if p[0] == "w":
                rows.append((p[2], p[4], int(p[3]), int(p[5])))      # enum, variant, byte, count
                first[(p[2], int(p[3]))] = p[6] if len(p) > 6 else ""
            elif p[0] == "file":
                status.append((p[2], p[3]))
        return v, rc, rows, status, err[-300:], first

    with concurrent.futures.ThreadPoolExecutor(max_workers=len(TARGETS)) as ex:
        res = list(ex.map(one, TARGETS))
    return {v: {"rc": rc, "rows": rows, "status": status, "err": err, "first": first} for v, rc, rows, status, err, first in res}, files


def build_written(py, nid, eid, written):
    L = ["/- GENERATED on every run by checks/c16.py: the `(enum, variant, byte)` triples passed to `PyCodeGenerator::write_instr` while",
         "   compiling examples/*.er, tests/should_ok/*.er and corpus/C16/snippets/*.er for each target (cfg(erg_verif) hook",
         "   `verif_instr_log` in crates/erg_compiler/codegen.rs). Ids as in ErgVerif.Gen.C16. Never edit by hand. -/",
         "namespace ErgVerif.Gen.C16Written", "",
         "/-- named writes `(enum id, variant name id, byte)` for target 3.v, sorted by (id of the name meant for 3.v, byte, enum) -/",
         "def written (v : Nat) : List (Nat × Nat × Nat) :=", "  match v with"]
    raw = {}
    for v in TARGETS:
        va = VER_ALIASES.get(v, {})
        named = sorted({(nid.get(va.get(n, n), len(nid)), b, eid[e], nid.get(n, len(nid))) for e, n, b, _ in written[v]["rows"] if e in eid})
        L.append(f"  | {v} => " + lean_list((tup(e, n, b) for _, b, e, n in named), 8, "    "))
        inv = {}
        for n, b in py[v]["opmap"].items():
            inv.setdefault(b, n)
        raw[v] = sorted({(nid.get(inv.get(b), len(nid)), b) for e, n, b, _ in written[v]["rows"] if e not in eid})
    L.append("  | _ => []")
    L.append("/-- writes of a bare `u8` (the opcode chosen by `select_load_instr`/`select_store_instr`…, enum type erased): `(name id that")
    L.append("    CPython 3.v gives this byte, byte)`; an id outside the intern table means v has no opcode with this number -/")
    L.append("def writtenRaw (v : Nat) : List (Nat × Nat) :=")
    L.append("  match v with")
    for v in TARGETS:
        L.append(f"  | {v} => " + lean_list((tup(n, b) for n, b in raw[v]), 10, "    "))
    L.append("  | _ => []")
    L.append("")
    L.append("end ErgVerif.Gen.C16Written")
    return "\n".join(L) + "\n"


def offenders_written(py, erg, written):
    bad = []
    ergpairs = {(ALIASES.get(n, n), b) for _, n, b in erg["ops"]} | {(n, b) for _, n, b in erg["ops"]}
    for v in TARGETS:
        d = py[v]
        jumps = set(d["hasjrel"]) | set(d["hasjabs"])
        inv = {b: n for n, b in d["opmap"].items()}
        prog = lambda e, b: {"program": written[v]["first"].get((e, b), ""), "target": f"3.{v}",
                             "how": f"erg --py-command {core.PYTHONS['3.%d' % v]} compile <program>; then disassemble / run the .pyc under 3.{v}"}
        for e, n, b, cnt in written[v]["rows"]:
            if e in ENUMS:
                if n == "NOT_IMPLEMENTED":
                    continue        # class K of the recorded finding (replayed separately)
                n = VER_ALIASES.get(v, {}).get(n, n)
                if d["opmap"].get(n) != b:
                    bad.append({"theorem": "C16_written", "target": f"3.{v}", "enum": e, "variant": n, "byte": b, "times_written": cnt,
                                "cpython_number_of_that_name": d["opmap"].get(n), "cpython_name_of_that_byte": inv.get(b),
                                "observable_with": prog(e, b), "what": f"compiling for 3.{v} the generator wrote {e}::{n} = {b}, but in CPython 3.{v} {n} is "
                                        f"{d['opmap'].get(n)} and {b} is {inv.get(b)}"})
            else:
                if b not in inv or (inv[b], b) not in ergpairs:
                    bad.append({"theorem": "C16_written_raw", "target": f"3.{v}", "byte": b, "times_written": cnt, "cpython_name_of_that_byte": inv.get(b),
                                "observable_with": prog(e, b), "what": f"compiling for 3.{v} the generator wrote the bare byte {b}, which is {inv.get(b)} in CPython 3.{v}; no erg "
                                        f"opcode enum has that name at that number"})
            if (b in erg["isjump"]) != (b in jumps):
                bad.append({"theorem": "C16_jumps", "target": f"3.{v}", "enum": e, "variant": n, "byte": b, "is_jump_op": b in erg["isjump"],
                            "cpython_is_jump": b in jumps, "observable_with": prog(e, b),
                            "what": f"opcode {b} ({inv.get(b)}) is written for 3.{v}; CommonOpcode::is_jump_op says {b in erg['isjump']}, "
                                    f"dis.hasjrel/hasjabs of 3.{v} say {b in jumps}"})
    return bad


def static_call_sites():
    """(enum, variant) pairs appearing literally as `write_instr(<Enum>::<VARIANT>)` / `write_instr(<VARIANT>)` in codegen.rs"""
    src = open(os.path.join(core.REPO, "crates", "erg_compiler", "codegen.rs")).read()
    sites = set()
    for m in re.finditer(r"write_instr\(\s*(?:(Opcode3\d\d)::)?([A-Z][A-Z0-9_]+)\s*\)", src):
        sites.add((m.group(1) or "CommonOpcode", m.group(2)))
    return sites


# ------------------------------------------------------------------------------------------------ Python mirror of the theorems

def spec_kind(py, v, b):
    d = py[v]
    if b in d["hasjabs"]:
        return "abs1" if v <= 9 else "abs2"
    if b in d["hasjrel"]:
        if v <= 9:
            return "rel1"
        back = {bb for n, bb in d["opmap"].items() if "BACKWARD" in n}
        return "back2" if b in back else "rel2"
    return None


def offenders_static(py, erg):
    """rows violating C16_static / C16_jumparms / C16_magic*, as replayable descriptions"""
    bad = []
    for e, n, b in erg["ops"]:
        if excluded_name(n):
            continue
        cn = ALIASES.get(n, n)
        if not any(py[v]["opmap"].get(cn) == b for v in TARGETS):
            bad.append({"theorem": "C16_static", "enum": e, "variant": n, "byte": b,
                        "cpython": {f"3.{v}": py[v]["opmap"].get(cn) for v in sorted(py)},
                        "what": f"{e}::{n} = {b} is the number of `{cn}` in no CPython 3.7-3.11"})
    for v, b, k in erg["arms"]:
        sk = spec_kind(py, v, b)
        if sk != k:
            name = [n for n, bb in py[v]["opmap"].items() if bb == b]
            bad.append({"theorem": f"C16_jumparms", "target": f"3.{v}", "byte": b, "cpython_name": name, "erg_formula": k, "cpython_kind": sk,
                        "what": f"jump_abs_addr({v}, {b}, idx, arg) computes `{k}` but dis of 3.{v} classifies opcode {b} {name} as {sk}"})
    vm = {m: 100 * a + b for m, a, b in erg["vermagic"]}
    mb = {m: (bs, back) for m, bs, back in erg["magicbytes"]}
    for v in MAGIC_VERSIONS:
        if v not in py:
            continue
        bs = py[v]["magic"]
        m = bs[0] + 256 * bs[1]
        if vm.get(m) != 300 + v:
            bad.append({"theorem": "C16_magic", "interpreter": f"3.{v}", "magic": m, "erg": vm.get(m, "panic"),
                        "what": f"get_ver_from_magic_num({m}) = {vm.get(m, 'panic')} but {m} is the magic number of the installed 3.{v}"})
        if m in mb and mb[m][0] != bs:
            bad.append({"theorem": "C16_magic_bytes", "interpreter": f"3.{v}", "magic": m, "erg_bytes": mb[m][0], "cpython_bytes": bs,
                        "what": f"get_magic_num_bytes({m}) = {mb[m][0]} but importlib.util.MAGIC_NUMBER of 3.{v} is {bs}"})
    for m, (bs, back) in sorted(mb.items()):
        if bs != [m % 256, m // 256, 13, 10] or back != m:
            bad.append({"theorem": "C16_magic_shape", "magic": m, "erg_bytes": bs, "back": back,
                        "what": f"get_magic_num_bytes({m}) = {bs} (expected little-endian number + 0D 0A), from_bytes gives {back}"})
    return bad


def observations(py, erg):
    """whole-table comparison Opcode3NN vs dis.opmap of 3.NN: never a violation (the enums are mixed per use site)"""
    tv = {"Opcode308": 8, "Opcode309": 9, "Opcode310": 10, "Opcode311": 11}
    obs = {}
    for e, v in tv.items():
        rows = [(n, b) for ee, n, b in erg["ops"] if ee == e and not excluded_name(n)]
        diff = [f"{n}={b} (3.{v}: {py[v]['opmap'].get(n)})" for n, b in rows if py[v]["opmap"].get(n) != b]
        missing = sorted(set(py[v]["opmap"]) - {n for n, _ in rows})
        obs[e] = {"rows": len(rows), "differs_from_own_version": diff, "cpython_names_absent": len(missing)}
    hasj_missing = {}
    for v in TARGETS:
        s = set(py[v]["hasjrel"]) | set(py[v]["hasjabs"])
        hasj_missing[f"3.{v}"] = {"jump_opcodes_not_in_is_jump_op": sorted(s - set(erg["isjump"])),
                                  "is_jump_op_bytes_not_jumps": sorted(set(erg["isjump"]) - s)}
    obs["is_jump_op_whole_table"] = hasj_missing
    return obs


# ------------------------------------------------------------------------------------------------ run

def sha(text):
    return hashlib.sha256(text.encode()).hexdigest()[:16]


def run(ctx):
    prop = "C16"
    ok_h, hlog, bindir = core.cargo_build(["c16"])
    if not ok_h:
        ctx.violation({"kind": "harness-build-failed", "what": "the table dumper no longer builds against the working tree", "log": hlog}, no_input=True)
        ctx.write_evidence(1, 0, "cargo build --bin c16", {}, [])
        ctx.finish()
    py = dump_interpreters()
    erg = dump_erg(bindir)
    text, names, nid, eid = build_static(py, erg)
    changed = write_if_changed(os.path.join(GEN, "C16.lean"), text)
    written, files = dump_written(bindir, py, ctx.tier)
    wtext = build_written(py, nid, eid, written)
    wchanged = write_if_changed(os.path.join(GEN, "C16Written.lean"), wtext)
    gen_tables = {"Gen/C16.lean": {"sha256_16": sha(text), "rewritten": changed, "names": len(names), "erg_rows": len(erg["ops"]),
                                   "py_rows": {f"3.{v}": len(py[v]["opmap"]) for v in sorted(py)},
                                   "jump_arms": len(erg["arms"]), "vermagic_rows": len(erg["vermagic"]), "magicbytes_rows": len(erg["magicbytes"])}}
    gen_tables["Gen/C16Written.lean"] = {"sha256_16": sha(wtext), "rewritten": wchanged,
                                         "rows": {f"3.{v}": len({(e, b) for e, n, b, c in written[v]["rows"]}) for v in TARGETS},
                                         "write_instr_calls": {f"3.{v}": sum(c for e, n, b, c in written[v]["rows"]) for v in TARGETS}}
    bad = offenders_static(py, erg) + offenders_written(py, erg, written)
    sites = static_call_sites()
    reached = {(e, n) for v in TARGETS for e, n, b, c in written[v]["rows"]}
    statuses = {f"3.{v}": {k: sum(1 for _, s_ in written[v]["status"] if s_.split("(")[0] == k) for k in ("ok", "rejected", "crash")} for v in TARGETS}
    harness_failed = [f"3.{v}: rc={written[v]['rc']} {written[v]['err']}" for v in TARGETS if written[v]["rc"] != 0 or not written[v]["rows"]]
    proof = core.proof_stage(ctx, prop, ["ErgVerif.C16.Props"])
    checker_cmd = "cd lean && lake build ErgVerif.C16.Props && lake env lean Audit/C16.lean"
    extra = {"axioms": proof["axioms"], "theorems": proof["theorems"], "examples": proof["examples"], "gen_tables": gen_tables,
             "observations": observations(py, erg), "offending_rows": bad[:50],
             "written_corpus": {"files": len(files), "status_per_target": statuses,
                                "crashed": sorted({f"{f_}: {s_}" for v in TARGETS for f_, s_ in written[v]["status"] if s_.startswith("crash")})[:20]},
             "write_instr_call_site_variants": {"static": len(sites), "reached": len(sites & reached),
                                                "not_reached": sorted(f"{e}::{n}" for e, n in sites - reached)},
             "raw_u8_writes": {f"3.{v}": sorted(b for e, n, b, c in written[v]["rows"] if e not in ENUMS) for v in TARGETS},
             "intern_table_sha256_16": sha("\n".join(names))}
    ctx.cov["rule"] = "a table row is one evaluation; non-trivial = a row that a theorem quantifies over"
    wrows = sum(len(written[v]["rows"]) for v in TARGETS)
    rows = wrows + len(erg["ops"]) + len(erg["arms"]) + len(erg["vermagic"]) + len(erg["magicbytes"]) + sum(len(py[v]["opmap"]) for v in py)
    ctx.cov["evaluations"] = rows
    ctx.cov["distinct_nontrivial"] = wrows + len(erg["ops"]) + len(erg["arms"]) + len(MAGIC_VERSIONS) + len(erg["magicbytes"])
    ctx.cov["traces_validated_against_impl"] = wrows + len(erg["ops"]) + len(erg["arms"]) + len(erg["vermagic"]) + len(erg["magicbytes"])
    ctx.cov["samples"] = [{"row": f"{e}::{n} = {b}"} for e, n, b in erg["ops"][:3]] + [{"arm": list(a)} for a in erg["arms"][:2]]
    ctx.assumptions = ["interpreters: " + ", ".join(f"3.{v}.{py[v]['version'][2]}" for v in sorted(py)),
                       "names are compared as strings by the translator (interned ids); `DUP_TOP2` is read as CPython's `DUP_TOP_TWO`"]
    # recorded finding: `<<`/`>>` make the generator write NOT_IMPLEMENTED = 255 (class K of C16_written_partial); replayed on the CLI
    for e in ctx.known_findings():
        if e["id"] != FINDING_NI:
            continue
        ni_rows = [(v, en, b) for v in TARGETS for en, n, b, c in written[v]["rows"] if n == "NOT_IMPLEMENTED"]
        wit = os.path.join(core.VERIF, "corpus", "C16", "snippets", "shift_not_implemented.er")
        # compile the witness in-process for 3.11 (real Compiler, same binary as the table dump) and run the .pyc under python3.11
        run = None
        with tempfile.TemporaryDirectory(prefix="c16_") as d:
            pyc = os.path.join(d, "w.pyc")
            m11 = py[11]["magic"][0] + 256 * py[11]["magic"][1]
            rc0, out0, err0 = core.sh([os.path.join(bindir, "c16"), "pyc", f"11:{m11}", wit, pyc], cwd=d, env=core.erg_env(), timeout=300)
            if os.path.exists(pyc):
                rc, out, err = core.sh([core.PYTHONS["3.11"], pyc], cwd=d, env=core.erg_env(), timeout=120)
                run = {"compile": out0.strip(), "compile_stderr_tail": err0[-200:], "rc": rc, "tail": (out + err)[-200:]}
        extra["known_finding_replay"] = {"rows": ni_rows, "erg_run": run}
        if ni_rows and all(b == 255 for _, _, b in ni_rows) and run and run["rc"] != 0 and "not implemented" in run["compile_stderr_tail"]:
            ctx.print_known(e, f"compiling `print! 7 << 1` writes NOT_IMPLEMENTED = 255 for targets {sorted({v for v, _, _ in ni_rows})}; the "
                               f"compiler prints the FeatureError, still emits the .pyc, and python3.11 dies on it (rc={run['rc']})")
        else:
            ctx.violation({"kind": "known-finding-not-reproduced", "finding": e["id"], "rows": ni_rows, "erg_run": run,
                           "what": "the recorded witness no longer behaves as recorded (model of the finding and implementation disagree)"}, no_input=True)
    if harness_failed:
        ctx.violation({"kind": "harness-run-failed", "what": "the instrumented compile of the program corpus produced no write_instr log", "targets": harness_failed},
                      no_input=True)
    if bad:
        ctx.violation({"kind": "table-row-violates-spec", "rows": bad[:40], "count": len(bad),
                       "what": "rows of the regenerated tables that contradict the interpreter's tables (computed by set difference)",
                       "proof_problems": proof["problems"]})
    elif not proof["ok"]:
        ctx.violation({"kind": "no-longer-shown", "what": "a C16 proof obligation no longer elaborates over the regenerated tables and the Python "
                       "mirror of the theorems found no offending row", "proof_problems": proof["problems"],
                       "build_log_tail": proof["log"][-3000:]}, no_input=True)
    ctx.write_evidence(proof["obligations"], proof["discharged"], checker_cmd, extra,
                       ["translators: harness/src/bin/c16.rs, py/c16_dump_dis.py, checks/c16.py (name interning)"])
    ctx.finish()


def replay(ctx, path):
    rp = json.load(open(path))
    print(json.dumps(rp.get("rows", rp), indent=1)[:6000])
    ok_h, hlog, bindir = core.cargo_build(["c16"])
    py = dump_interpreters()
    erg = dump_erg(bindir)
    written, _ = dump_written(bindir, py)
    bad = offenders_static(py, erg) + offenders_written(py, erg, written)
    want = {json.dumps(r, sort_keys=True) for r in rp.get("rows", [])}
    still = [r for r in bad if json.dumps(r, sort_keys=True) in want] or bad
    print("still failing" if still else "no longer failing")
    for r in still[:20]:
        print("  ", r["what"])
    raise SystemExit(1 if still else 0)
