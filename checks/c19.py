"""C19 — compilation output is deterministic and schedule-independent.
Lean: the aggregation protocol of the analysis threads as an abstract machine; every completed schedule yields the same registered
entries and the same multiset of diagnostics (C19_confluent), and agrees with the sequential build (C19_seq_eq_par).
Tie: the C20 project generator; every project compiled >= 5 times with seeded yields/sleeps injected at the analysis-thread
boundaries through the cfg(erg_verif) `sched_point` observer, and once by a harness built WITHOUT the `parallel` feature
(harness-seq/); bytes 16.. of the .pyc and the sorted diagnostics must be identical; every observed thread schedule must be a
completed run of the model's machine."""
import hashlib
import os
import re
import shutil
import tempfile
from concurrent.futures import ThreadPoolExecutor

from vlib import core

MANIFEST_ENTRY = {
    "level_claimed": {"category": "proof",
        "text": "Lean theorems on an abstract machine of the analysis threads (spawn in dependency order, a thread reads a dependency's "
                "registered result only after it finished, registers its own result and appends its diagnostics): every completed schedule "
                "gives the same registered entries and the same multiset of diagnostics, and the sequential build is one of the schedules. "
                "Tied to the real compiler by compiling generated multi-module projects repeatedly under seeded perturbation of the thread "
                "timing and with a build without the `parallel` feature: identical .pyc bytes 16.. and identical sorted diagnostics; every "
                "observed spawn/finish order is checked to be a run of the machine."},
    "level_note": "partial by design (DESIGN §8 C19): the theorem is about the protocol, with each analysis a function of the entries it "
                  "reads; hash-iteration order leaking into the bytes, preemption inside a step and state shared besides the module cache "
                  "are tie-only. One recorded finding (inlined-import race = C20-inlined-import-race) restricts the statement: a reader of a "
                  "module inlined elsewhere does not wait (C19_race_witness).",
    "technique": "Lean 4 proof (schedule invariant against a reference one-after-the-other analysis) + repeated compilation under a seeded "
                 "scheduling perturbation hook and with the sequential build",
}


def parse_child(out):
    ev, diags, status = [], [], ""
    for l in out.splitlines():
        f = l.split("\t")
        if f[0] == "E" and len(f) >= 5:
            ev.append((f[1], f[2], f[3], f[4]))
        elif f[0] == "D" and len(f) >= 2:
            diags.append(f[1])
        elif f[0] == "R" and len(f) >= 2:
            status = f[1]
    return ev, sorted(diags), status


def num(m):
    return m[1:] if m.startswith("m") else m


def uses_of(inp):
    """module -> modules whose public names it uses (uv, uf, bad)"""
    u = {}
    for m, uv, uf, bad in re.findall(r"\(m (\d+) \w \d \(imp[ \d]*\) \(uv([ \d]*)\) \(uf([ \d]*)\) \(bad([ \d]*)\)\)", inp):
        u[m] = set((uv + uf + bad).split())
    return u


def thread_deps(ev, uses):
    """for every spawned module the threads it joins: its graph edges to spawned modules whose names it uses, and those of the modules
    inlined into it"""
    graph, inl = {}, {}
    for tag, m, detail, _ in ev:
        if tag == "resolved":
            for sec in detail.split("|"):
                k, rest = sec[:2], sec[2:]
                if k == "G:":
                    for n in filter(None, rest.split(";")):
                        a, _, ds = n.partition(">")
                        graph[num(a)] = [num(x) for x in ds.split(",") if x]
                elif k == "I:":
                    for kv in filter(None, rest.split(";")):
                        a, _, b = kv.partition(">")
                        inl[num(a)] = num(b)
    spawned = [num(m) for tag, m, _, _ in ev if tag == "spawn"]

    def deps_of(m, seen):
        # joins are demand-driven (Context::get_mod_with_path): only an import whose attributes are actually used is waited for
        out = []
        for d in graph.get(m, []):
            if d in spawned:
                if d in uses.get(m, ()):
                    out.append(d)
            elif inl.get(d) == m and d not in seen:
                out += deps_of(d, seen | {d})
        return out

    deps = {m: sorted(set(deps_of(m, {m})) - {m}, key=int) for m in spawned}
    return deps, inl


def seq_build():
    """the compiler WITHOUT the `parallel` feature. `default-features = false` on the three crates is not enough: the workspace
    manifest declares erg_common / erg_parser with default features, so erg_parser and erg_compiler switch erg_common's `parallel`
    back on (Cargo unifies features). The check therefore builds from a copy of the working tree (`.seqrepo`, rsynced on every
    run) in which exactly those two `[workspace.dependencies]` lines carry `default-features = false`; no source file differs."""
    root = core.scratch_root()
    seqrepo = os.path.join(root, ".seqrepo")
    os.makedirs(seqrepo, exist_ok=True)
    core.sh(["rsync", "-a", "--delete", "--exclude", "/target", "--exclude", ".git", "--exclude", "/Cargo.toml", core.REPO + "/", seqrepo + "/"])
    man = open(os.path.join(core.REPO, "Cargo.toml")).read()
    man2 = re.sub(r'^(erg_(?:common|parser) = \{ version = "[^"]*", path = "[^"]*") \}', r"\1, default-features = false }", man, flags=re.M)
    if man2 == man:
        return False, "could not patch [workspace.dependencies] of the copied manifest", ""
    mp = os.path.join(seqrepo, "Cargo.toml")
    if not os.path.exists(mp) or open(mp).read() != man2:
        open(mp, "w").write(man2)
    src = os.path.join(core.VERIF, "harness-seq")
    if core.REPO == "/repo":
        hdir = src
    else:
        hdir = os.path.join(root, "harness-seq")
        os.makedirs(hdir, exist_ok=True)
        core.sh(["rsync", "-a", "--delete", "--exclude", "target", "--exclude", "Cargo.toml", src + "/", hdir + "/"])
    tmpl = open(os.path.join(src, "Cargo.toml.in")).read().replace("@SEQREPO@", seqrepo)
    out = os.path.join(hdir, "Cargo.toml")
    if not os.path.exists(out) or open(out).read() != tmpl:
        open(out, "w").write(tmpl)
    import time
    t = time.time()
    rc, o, e = core.sh(["cargo", "build", "--offline", "--bin", "c19seq"], cwd=hdir, timeout=7200)
    core.log(f"[build] cargo build c19seq (harness-seq, parallel off) rc={rc} {time.time()-t:.1f}s")
    return rc == 0, (o + e)[-4000:], os.path.join(hdir, "target", "debug")


def pyc_hash(d):
    p = os.path.join(d, "m0.pyc")
    if not os.path.exists(p):
        return "-"
    b = open(p, "rb").read()
    return hashlib.sha256(b[16:]).hexdigest()[:16]


def run(ctx):
    prop = "C19"
    thorough = ctx.tier == "thorough"
    n_proj = 60 if thorough else 8
    n_runs = 10 if thorough else 5
    ctx.cov["rule"] = (f"the C20 project generator (import graphs over 2..6/8 modules: DAGs, diamonds, self-imports, cycles, cycles with an outside "
                       f"importer); every project compiled {n_runs}x under seeded yields/sleeps at the analysis-thread boundaries + 1x by the build "
                       f"without `parallel`; non-trivial = at least 3 modules and 2 analysis threads")
    ctx.assumptions = ["the perturbation is seeded; the OS scheduler still decides the actual interleaving (real preemption is outside the model)",
                       "bytes 0..16 of the .pyc (magic, flags, timestamp, size) are not compared"]
    proof = core.proof_stage(ctx, prop, ["ErgVerif.C19.Props", "ergmodel_c19"])
    checker_cmd = "cd lean && lake build ErgVerif.C19.Props ergmodel_c19 && lake env lean Audit/C19.lean"
    extra = {"axioms": proof["axioms"], "theorems": proof["theorems"], "examples": proof["examples"]}
    trusted = ["the observer's event log (harness/src/bin/c20.rs) and the thread-dependency projection in checks/c19.py",
               "sha256 of bytes 16.. as the identity of a .pyc"]
    ok_h, hlog, bindir = core.cargo_build(["c19"])
    ok_s, slog, seqdir = seq_build()
    if not ok_h or not ok_s:
        ctx.violation({"kind": "harness-build-failed", "what": "the harness (or the build without the `parallel` feature) no longer builds",
                       "log": (hlog if not ok_h else slog)}, no_input=True)
        ctx.write_evidence(proof["obligations"], proof["discharged"], checker_cmd, extra, trusted)
        ctx.finish()
    env = core.erg_env()
    c19 = os.path.join(bindir, "c19")
    c19seq = os.path.join(seqdir, "c19seq")
    rc, out, err = core.sh([c19, "gen", "--seed", str(ctx.seed + 104729), "--n", str(n_proj), "--tier", ctx.tier, "--list"], env=env)
    ctx.cov["input_distribution"] = dict(kv.rsplit(":", 1) for kv in err.strip().split() if ":" in kv)
    cases = list(core.corpus_rows(prop)) + [tuple(l.split("\t")[:2]) for l in out.splitlines() if l]
    work = tempfile.mkdtemp(prefix="c19-")
    timeout = int(os.environ.get("VERIF_MM_TIMEOUT", "420"))

    def one(c):
        cid, inp = c
        d = os.path.join(work, re.sub(r"[^A-Za-z0-9]", "_", cid))
        core.sh([c19, "emit", d], input=f"{cid}\t{inp}\n", env=env)
        forced = re.search(r"\(runs((?: \([a-z-]+ \d+ \d+\))+)\)", inp)
        forced = re.findall(r"\(([a-z-]+) (\d+) (\d+)\)", forced.group(1)) if forced else []
        runs = []
        deps, inl = {}, {}
        k_total = max(n_runs, len(forced))
        for k in range(k_total):
            try:
                os.remove(os.path.join(d, "m0.pyc"))
            except OSError:
                pass
            if k < len(forced):
                delays, sseed = "%s,%s,%s" % forced[k], 0
            else:
                delays, sseed = "", 1 + (ctx.seed * 1000003 + k * 7919 + sum(map(ord, cid))) % (2 ** 31)
            rc, out, err = core.sh([c19, "child", d, "m0.er", delays, str(sseed)], env=env, timeout=timeout)
            ev, diags, status = parse_child(out)
            if rc == 124:
                status = "timeout"
            elif not status:
                status = "crash"
            if not deps and ev:
                deps, inl = thread_deps(ev, uses_of(inp))
            sched = ["(%s %s)" % ("spawn" if t == "spawn" else "end", num(m)) for t, m, _, _ in ev if t in ("spawn", "thread-end")]
            runs.append("(run par %d (st %s) (pyc %s) (diag%s) (sched%s))" % (sseed, status.split(" ")[0], pyc_hash(d),
                        "".join(" " + x for x in diags), "".join(" " + x for x in sched)))
        try:
            os.remove(os.path.join(d, "m0.pyc"))
        except OSError:
            pass
        rc, out, err = core.sh([c19seq, d, "m0.er"], env=env, timeout=timeout)
        _, diags, status = parse_child(out)
        par_flag = [l.split("\t")[1] for l in out.splitlines() if l.startswith("P\t")]
        if par_flag != ["false"]:
            status = "seq-build-has-parallel-on"
        runs.append("(run seq 0 (st %s) (pyc %s) (diag%s) (sched))" % ((status or ("timeout" if rc == 124 else "crash")).split(" ")[0],
                    pyc_hash(d), "".join(" " + x for x in diags)))
        impl = "(inl%s) (deps%s) (runs %s)" % (
            "".join(" (%s %s)" % kv for kv in sorted(inl.items(), key=lambda kv: int(kv[0]))),
            "".join(" (%s%s)" % (m, "".join(" " + x for x in ds)) for m, ds in sorted(deps.items(), key=lambda kv: int(kv[0]))),
            " ".join(runs))
        return [cid, inp, impl]

    with ThreadPoolExecutor(max_workers=int(os.environ.get("VERIF_MM_JOBS", "4"))) as ex:
        rows = list(ex.map(one, cases))
    shutil.rmtree(work, ignore_errors=True)
    mrc, mrows, merr = core.run_model(prop, rows)
    known = {e["id"] for e in ctx.known_findings()}
    res = core.compare(rows, mrows, known)
    if mrc != 0:
        ctx.violation({"kind": "model-driver-failed", "stderr": merr[-3000:]}, no_input=True)
    ctx.cov["evaluations"] = sum(r[2].count("(run ") for r in rows)
    ctx.cov["projects"] = len(rows)
    ctx.cov["traces_validated_against_impl"] = sum(r[2].count("(run par") for r in rows if r[0] not in {x[0] for x in res.disagree})
    seen = set()
    for r in rows:
        if r[1] not in seen and r[1].count("(m ") >= 3 and r[2].count("(spawn ") >= 2 * 1:
            seen.add(r[1])
    ctx.cov["distinct_nontrivial"] = len(seen)
    ctx.cov["samples"] = [{"input": r[1], "impl": r[2][:400]} for r in rows[:3]]
    orders = {}
    for r in rows:
        scheds = set(x.split("))")[0] for x in r[2].split("(sched")[1:] if x.split("))")[0].strip())
        orders[len(scheds)] = orders.get(len(scheds), 0) + 1
    ctx.cov["distinct_schedules_per_project_histogram"] = orders
    extra.update({"disagreements": len(res.disagree), "spec_violations": len(res.spec_viol), "in_known_class": len(res.known),
                  "corpus_cases": len(core.corpus_rows(prop))})
    for e in ctx.known_findings():
        hits = [k for k in res.known if k[5] == e["id"]]
        wit = [k for k in hits if k[0] == "k:" + e["id"]]
        if wit:
            ctx.print_known(e, f"{e.get('summary', '')} [witness still differs between the two forced schedules; {len(hits)} project(s) of this class differed in this run]")
        elif hits:
            ctx.print_known(e, f"{e.get('summary', '')} [{len(hits)} project(s) of this class differed in this run]")
    if res.spec_viol:
        v = res.spec_viol[0]
        ctx.violation({"kind": "implementation-violates-spec", "case_id": v[0], "input": v[1], "impl": v[2], "model": v[3], "spec": v[4],
                       "inK": v[5], "others": [x[1] for x in res.spec_viol[1:6]]})
    elif res.disagree or not proof["ok"]:
        ctx.violation({"kind": "no-longer-shown", "what": "a proof obligation no longer checks, or an observed thread schedule is not a run of "
                       "the model's machine (sched-rejected in the model column)", "proof_problems": proof["problems"],
                       "build_log_tail": proof["log"][-3000:] if not proof["ok"] else "",
                       "correspondence_disagreements": [dict(id=x[0], input=x[1], impl=x[2], model=x[3]) for x in res.disagree[:5]]},
                      no_input=not res.disagree)
    ctx.write_evidence(proof["obligations"], proof["discharged"], checker_cmd, extra, trusted)
    ctx.finish()


def replay(ctx, path):
    import json
    rp = json.load(open(path))
    cases = []
    if "input" in rp:
        cases.append((rp.get("case_id", "r0"), rp["input"]))
    for i, o in enumerate(rp.get("others", [])):
        cases.append((f"o{i}", o))
    for d in rp.get("correspondence_disagreements", []):
        cases.append((d.get("id", "d"), d["input"]))
    if not cases:
        print("replay file names no input:", str(rp.get("proof_problems", rp.get("what", "")))[:2000])
        raise SystemExit(1)
    os.makedirs(os.path.join(core.VERIF, "corpus", "C19"), exist_ok=True)
    tmp = os.path.join(core.VERIF, "corpus", "C19", "zz-replay.case")
    open(tmp, "w").write("".join(f"{a}\t{b}\n" for a, b in cases))
    try:
        run(ctx)   # the replayed projects run first, as corpus rows
    finally:
        os.remove(tmp)
