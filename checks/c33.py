"""C33 — an accepted match always has an arm that matches: Lean lemmas on the C06 model (run-time arm selection, the
contains_operator decision table, exact union of refinement predicates) tied to the real front end (`erg check`), to the emitted
code (`erg run` on every scrutinee value of a sampled domain, arm index printed by the arm body) and to the real
`contains_operator` under python3.11."""
import json
import os
import random
import re
import shutil
import tempfile

from vlib import core

PROP = "C33"

MANIFEST_ENTRY = {
    "level_claimed": {"category": "proof",
        "text": "Lean theorems on the C06 type model: the arm the emitted code takes (arms in order, last arm unconditional) contains "
                "the value whenever the arm patterns cover the scrutinee type (C33_taken_matches), the contains_operator decision table "
                "agrees with the denotation on the pattern types of G (C33_contains_correct), union_pred is exact (C33_union_pred_exact, "
                "`{1} or {3}` does not become `1..3`); tied to the real `erg check` / `erg run` on generated matches over Int/Nat/Str, "
                "literal enums, intervals and unions with literal/type/wildcard arms, run on every value of a sampled domain."},
    "level_note": "PROVED: C33_taken_matches (any table, any arm list: if some arm's run-time test holds for v, the arm the emitted code takes - arms in "
                  "order, last arm unconditional - is one whose test holds), C33_last_arm_unconditional, C33_outcome_of_no_crash, C33_contains_correct_class/"
                  "_refine (the hand-written contains_operator table equals the C06 denotation for Int/Nat/Str/Obj and refinements of Int/Str, of Nat when "
                  "I>=0 :> P; under TableFacts, which C33_table_facts decides on the regenerated table), C33_union_pred_exact (every branch of union_pred "
                  "denotes the union; `{1} or {3}` is not widened). NOT PROVED: C33_full as one statement - the step `accepted => the arm patterns cover the "
                  "scrutinee type` needs C06_sound and exactness of Context::union beyond the refinement/refinement case; C06_sound is proved per arm only and "
                  "is FALSE of the code (C33_witness_nonexhaustive_accepted: `f(x: 0..3) = match x: (s: Str) -> 0; (i: 0..2) -> 1` type-checks and f(3) takes arm "
                  "0..2). That step is exercised differentially only. The contains table is hand-written, validated against the real Python function on sampled "
                  "(pattern, value) pairs each run, not regenerated from the file. Acceptance is observed through `erg check`; the transcription `accepted` is "
                  "compared with it and differences are reported, not required to vanish (1 of 45, 0 of 24 in the runs made). Two findings recorded, none fixed: "
                  "non-exhaustive match accepted (root C06-derefine-unsound); the arm test raises: a non-negative integer literal arm for negative integers and strings (`f(x: Int) = match x: 0 -> 0; _ -> 1; f(-1)` dies), the Nat arm and interval arms for strings. No Rust "
                  "harness (tie driven from checks/c33.py through the erg CLI and python3.11 only); quick tier = 24 programs + corpus, 36-49 s wall (223-476 s when the machine was saturated); Bool/Float literals, tuple/record patterns, other targets not covered; one seeded change run (C33-m12, left-open interval arm: missed at first because only closed intervals were generated, caught after all four forms and end-point sampling were added).",
    "technique": "Lean 4 proof (induction over the arm list) + differential runs of the real checker, emitted code and contains_operator",
}

INTS = [-2, -1, 0, 1, 2, 3, 5, 10, 11, 12]
STRS = [0, 1]


# ---- types and patterns: (surface syntax, S-expression of the model type, python-side membership, contains-helper form)

def t_int():
    return ("Int", "Int", lambda v: v[0] == "int", ["class", "Int"])


def t_nat():
    return ("Nat", "Nat", lambda v: v[0] == "int" and v[1] >= 0, ["class", "Nat"])


def t_str():
    return ("Str", "Str", lambda v: v[0] == "str", ["class", "Str"])


def t_enum(ks):
    ks = sorted(set(ks))
    base = "Nat" if all(k >= 0 for k in ks) else "Int"
    pred = "(eq %d)" % ks[0] if len(ks) == 1 else "(or " + " ".join("(eq %d)" % k for k in sorted(ks, key=lambda k: "(eq %d)" % k)) + ")"
    return ("{" + ", ".join(str(k) for k in ks) + "}", "(ref %s %s)" % (base, pred), lambda v: v[0] == "int" and v[1] in ks,
            ["enum", [["int", k] for k in ks]])


def t_senum(ks):
    ks = sorted(set(ks))
    pred = "(eq %d)" % ks[0] if len(ks) == 1 else "(or " + " ".join("(eq %d)" % k for k in ks) + ")"
    return ("{" + ", ".join('"s%d"' % k for k in ks) + "}", "(ref Str %s)" % pred, lambda v: v[0] == "str" and v[1] in ks,
            ["enum", [["str", "s%d" % k] for k in ks]])


IV_OP = {"cc": "..", "oc": "<..", "co": "..<", "oo": "<..<"}


def t_range(a, b, kind="cc"):
    """the four interval forms: cc `a..b`, oc `a<..b` (left-open), co `a..<b`, oo `a<..<b`; the checker reads them as lo..hi with
    lo = a (+1 if left-open), hi = b (-1 if right-open); at run time each form is its own Range class in lib/core/_erg_range.py"""
    lo = a + (1 if kind[0] == "o" else 0)
    hi = b - (1 if kind[1] == "o" else 0)
    sexp = "(ref Int (and (ge %d) (le %d)))" % (a, b) if kind == "cc" else "(iv %s %d %d)" % (kind, a, b)
    return ("%d%s%d" % (a, IV_OP[kind], b), sexp, lambda v: v[0] == "int" and lo <= v[1] <= hi, ["range", kind, a, b])


def gen_range(rng, starts, widths):
    """a non-empty interval of a random form"""
    kind = rng.choice(["cc", "cc", "oc", "oc", "co", "oo"])
    a = rng.choice(starts)
    need = (1 if kind[0] == "o" else 0) + (1 if kind[1] == "o" else 0)
    return t_range(a, a + need + rng.choice(widths), kind)


def end_points(sexps):
    """a-1, a, a+1, b-1, b, b+1 for every interval occurring in the model S-expressions: the sampled domain always holds both end
    points of every interval arm and scrutinee interval (a changed `<` / `<=` in one Range class shows at exactly one of them)"""
    pts = set()
    for sx in sexps:
        for a, b in re.findall(r"\(iv \w+ (-?\d+) (-?\d+)\)", sx) + re.findall(r"\(ge (-?\d+)\) \(le (-?\d+)\)", sx):
            for c in (int(a), int(b)):
                pts.update((c - 1, c, c + 1))
    return pts


def t_or(ts):
    sx = sorted(set(t[1] for t in ts))
    return (" or ".join("(%s)" % t[0] if " " in t[0] else t[0] for t in ts), "(or " + " ".join(sx) + ")" if len(sx) > 1 else sx[0],
            lambda v: any(t[2](v) for t in ts), ["or", [t[3] for t in ts]])


def gen_scrutinee(rng):
    k = rng.randrange(10)
    if k == 0:
        return t_int()
    if k == 1:
        return t_nat()
    if k == 2:
        return t_str()
    if k in (3, 4):
        return t_enum(rng.sample([0, 1, 2, 3, 5, 10], rng.randint(1, 3)))
    if k == 5:
        return gen_range(rng, [0, 1, 2], [0, 1, 3, 9])
    if k == 6:
        return t_or([t_int(), t_str()])
    if k == 7:
        return t_or([t_enum(rng.sample([0, 1, 2, 3], rng.randint(1, 2))), t_str()])
    if k == 8:
        return t_or([t_nat(), t_senum([rng.choice(STRS)])])
    return t_or([gen_range(rng, [0], [1, 3, 9]), t_enum([rng.choice([5, 11, 12])])])


def gen_arm(rng, scrut, last):
    """(surface pattern, model type sexp, membership, contains form); a wildcard has the type Obj"""
    k = rng.randrange(12)
    if last and rng.randrange(3) == 0:
        k = 11
    if k in (0, 1):
        c = rng.choice(INTS[2:])
        t = t_enum([c])
        # an integer LITERAL arm: same type as the enum arm `(e: {c})` but different emitted code -> own spelling, no contains row
        return ("%d" % c, "(lit %d)" % c, t[2], None)
    if k == 2:
        c = rng.choice(STRS)
        t = t_senum([c])
        return ('"s%d"' % c, t[1], t[2], t[3])
    if k in (3, 4):
        t = gen_range(rng, [0, 1, 2, 3], [0, 1, 2, 8, 10])
        return ("(i: %s)" % t[0], t[1], t[2], t[3])
    if k == 5:
        t = t_enum(rng.sample([0, 1, 2, 3, 5, 10, 11], rng.randint(1, 3)))
        return ("(e: %s)" % t[0], t[1], t[2], t[3])
    if k == 6:
        t = t_nat()
        return ("(n: Nat)", t[1], t[2], t[3])
    if k == 7:
        t = t_int()
        return ("(i: Int)", t[1], t[2], t[3])
    if k == 8:
        t = t_str()
        return ("(s: Str)", t[1], t[2], t[3])
    if k == 9:
        t = t_or([t_nat(), t_str()])
        return ("(u: Nat or Str)", t[1], t[2], t[3])
    if k == 10:
        t = t_senum(STRS)
        return ("(e: %s)" % t[0], t[1], t[2], t[3])
    return ("_", "Obj", lambda v: True, ["class", "Obj"])


# ---- back from the model S-expressions (corpus rows, replays)

def parse_sexp(txt):
    toks = re.findall(r"\(|\)|[^\s()]+", txt)
    pos = [0]

    def go():
        t = toks[pos[0]]
        pos[0] += 1
        if t != "(":
            return t
        out = []
        while toks[pos[0]] != ")":
            out.append(go())
        pos[0] += 1
        return out
    return go()


def type_of_sexp(x):
    """model type S-expression -> (surface, sexp, membership, contains form); None outside the generated shapes"""
    if isinstance(x, list) and x[0] == "lit":
        t = t_enum([int(x[1])])
        return ("%d" % int(x[1]), "(lit %d)" % int(x[1]), t[2], None)
    if isinstance(x, str):
        return {"Int": t_int, "Nat": t_nat, "Str": t_str}.get(x, lambda: None)() if x != "Obj" else ("_", "Obj", lambda v: True, ["class", "Obj"])
    if x[0] == "iv":
        return t_range(int(x[2]), int(x[3]), x[1]) if x[1] in IV_OP else None
    if x[0] == "ref":
        base, p = x[1], x[2]
        if p[0] == "and" and p[1][0] == "ge" and p[2][0] == "le":
            return t_range(int(p[1][1]), int(p[2][1]))
        ks = [int(p[1])] if p[0] == "eq" else [int(q[1]) for q in p[1:] if q[0] == "eq"] if p[0] == "or" else None
        if ks is None:
            return None
        return t_senum(ks) if base == "Str" else t_enum(ks)
    if x[0] == "or":
        ts = [type_of_sexp(y) for y in x[1:]]
        return None if any(t is None for t in ts) else t_or(ts)
    return None


def arm_of_type(t, i):
    if t[1].startswith("(lit "):
        return t
    if t[1] == "Obj":
        return ("_", "Obj", t[2], t[3])
    return ("(a%d: %s)" % (i, t[0]), t[1], t[2], t[3])


def case_of_sexp(inp):
    x = parse_sexp(inp)
    if not isinstance(x, list) or x[0] != "match":
        return None
    scrut = type_of_sexp(x[1])
    arms = [type_of_sexp(a) for a in x[2][1:]]
    if scrut is None or any(a is None for a in arms):
        return None
    vals = [(v[0], int(v[1])) for v in x[3][1:]]
    return scrut, [arm_of_type(a, i) for i, a in enumerate(arms)], vals


def val_src(v):
    if v[0] == "int":
        return str(v[1])
    return '"s%d"' % v[1]


def val_sexp(v):
    return "(%s %d)" % (v[0], v[1])


def int_pool(sexps):
    return sorted(set(INTS) | end_points(sexps))


def domain(scrut, arms=()):
    vals = [("int", i) for i in int_pool([scrut[1]] + [a[1] for a in arms])] + [("str", s) for s in STRS]
    return [v for v in vals if scrut[2](v)]


def program(scrut, arms, vals):
    lines = ["f(x: %s) = match x:" % scrut[0]]
    for i, a in enumerate(arms):
        lines.append("    %s -> %d" % (a[0], i))
    for v in vals:
        lines.append("print! f(%s)" % val_src(v))
    return "\n".join(lines) + "\n"


def run_erg(erg, mode, path):
    rc, out, err = core.sh([erg, mode, path], timeout=120, env=core.erg_env())
    return rc, out, err


ANSI = re.compile(r"\x1b\[[0-9;]*m")


def check_and_run(erg, wd, scrut, arms, vals, cid):
    """→ impl output of a `(match …)` row"""
    path = os.path.join(wd, "m_%s.er" % re.sub(r"\W", "_", cid))
    open(path, "w").write(program(scrut, arms, []))
    rc, out, err = run_erg(erg, "check", path)
    if rc != 0:
        txt = ANSI.sub("", out + err)
        if "panicked" in txt:
            return "crash(front-end-panic)"
        kinds = sorted(set(re.findall(r"\b([A-Z][A-Za-z]*Error)\b", txt)))
        return "(reject %s)" % " ".join(kinds or ["Error"])
    taken = []
    rest = list(vals)
    guard = 0
    while rest and guard < 40:
        guard += 1
        open(path, "w").write(program(scrut, arms, rest))
        rc, out, err = run_erg(erg, "run", path)
        got = [l.strip() for l in ANSI.sub("", out).splitlines() if l.strip().isdigit()]
        taken += got[:len(rest)]
        if len(got) >= len(rest):
            rest = []
        else:
            txt = ANSI.sub("", out + err)
            taken.append("nomatch" if "no arm matched" in txt.lower() or "MatchError" in txt else "crash")
            rest = rest[len(got) + 1:]
    return "(accept) (taken %s)" % " ".join(taken)


def gen_rows(ctx, erg, n_prog, seed):
    rng = random.Random(seed * 7919 + 33)
    wd = tempfile.mkdtemp(prefix="c33_")
    rows, contains_rows = [], []
    try:
        # corpus first
        for cid, inp in core.corpus_rows(PROP):
            m = re.match(r"\(src (.*)\)$", inp)
            if m:
                src = json.loads(m.group(1))
                path = os.path.join(wd, "c_%s.er" % re.sub(r"\W", "_", cid))
                open(path, "w").write(src)
                rc, out, err = run_erg(erg, "check", path)
                rows.append((cid, inp, "(accept)" if rc == 0 else "(reject)"))
                continue
            if inp.startswith("(match"):
                c = case_of_sexp(inp)
                if c:
                    rows.append((cid, inp, check_and_run(erg, wd, c[0], c[1], c[2], cid)))
                continue
            m = re.match(r"\(contains (Int|Nat|Str|Obj) \((int|str) (-?\d+)\)\)$", inp)
            if m:
                v = (m.group(2), int(m.group(3)))
                contains_rows.append((cid, (m.group(1), m.group(1), None, ["class", m.group(1)]), v))
        for i in range(n_prog):
            scrut = gen_scrutinee(rng)
            arms = [gen_arm(rng, scrut, j == k - 1) for k in [rng.randint(1, 4)] for j in range(k)]
            # mostly covering matches: with probability 1/2 make the last arm cover what is left
            if rng.randrange(2) == 0 and arms[-1][0] != "_":
                arms[-1] = ("_", "Obj", lambda v: True, ["class", "Obj"]) if rng.randrange(2) == 0 else \
                    (("(z: %s)" % scrut[0]), scrut[1], scrut[2], scrut[3])
            vals = domain(scrut, arms)
            cid = "m%d" % i
            inp = "(match %s (arms %s) (vals %s))" % (scrut[1], " ".join(a[1] for a in arms), " ".join(val_sexp(v) for v in vals))
            out = check_and_run(erg, wd, scrut, arms, vals, cid)
            rows.append((cid, inp, out))
            rows.append(("a%d" % i, "(accept %s (arms %s))" % (scrut[1], " ".join(a[1] for a in arms)),
                         "(accept)" if out.startswith("(accept)") else "(reject)" if out.startswith("(reject") else out))
            for j, a in enumerate(arms):
                if a[3] is None:
                    continue
                for v in [("int", k) for k in int_pool([a[1]])] + [("str", s) for s in STRS]:
                    contains_rows.append(("c%d_%d_%s%d" % (i, j, v[0][0], v[1]), a, v))
    finally:
        shutil.rmtree(wd, ignore_errors=True)
    # the real contains_operator on (pattern, value) pairs (deduplicated)
    seen, reqs, meta = set(), [], {}
    for cid, a, v in contains_rows:
        key = (a[1], v)
        if key in seen:
            continue
        seen.add(key)
        pv = ["int", v[1]] if v[0] == "int" else ["str", "s%d" % v[1]]
        reqs.append(json.dumps({"id": cid, "pat": a[3], "val": pv}))
        meta[cid] = "(contains %s %s)" % (a[1], val_sexp(v))
    libcore = os.path.join(core.REPO, "crates", "erg_compiler", "lib", "core")
    rc, out, err = core.sh([core.PYTHONS["3.11"], os.path.join(core.VERIF, "py", "c33_contains.py"), libcore], input="\n".join(reqs) + "\n", timeout=600)
    for l in out.splitlines():
        p = l.split("\t")
        if len(p) == 2 and p[0] in meta:
            rows.append((p[0], meta[p[0]], "(r %s)" % p[1]))
    return rows


def nontrivial(r):
    return r[1].startswith("(match") and r[2].startswith("(accept)") and r[1].count("(ref") + r[1].count("(or") >= 1


def run(ctx):
    proof = core.proof_stage(ctx, PROP, ["ErgVerif.C33.Props", "ergmodel_c33"])
    checker_cmd = "cd lean && lake build ErgVerif.C33.Props ergmodel_c33 && lake env lean Audit/C33.lean"
    extra = {"axioms": proof["axioms"], "theorems": proof["theorems"], "examples": proof["examples"]}
    ok, log, erg = core.erg_binary()
    if not ok:
        ctx.violation({"kind": "erg-build-failed", "log": log}, no_input=True)
        ctx.write_evidence(proof["obligations"], proof["discharged"], checker_cmd, extra)
        ctx.finish()
    n = int(os.environ.get("C33_N", "0")) or (400 if ctx.tier == "thorough" else 24)
    rows = gen_rows(ctx, erg, n, ctx.seed)
    mrc, mrows, merr = core.run_model(PROP, rows)
    known = {e["id"] for e in ctx.known_findings()}
    res = core.compare(rows, mrows, known)
    mr = [r for r in rows if r[1].startswith("(match")]
    ar = [r for r in rows if r[1].startswith("(accept")]
    cr = [r for r in rows if r[1].startswith("(contains")]
    acc_dis = [d for d in res.disagree if d[1].startswith("(accept")]
    other_dis = [d for d in res.disagree if not d[1].startswith("(accept")]
    ctx.cov["evaluations"] = len(rows)
    ctx.cov["distinct_nontrivial"] = len({r[1] for r in rows if nontrivial(r)})
    ctx.cov["traces_validated_against_impl"] = res.agree
    ctx.cov["samples"] = [{"input": r[1][:300], "impl": r[2][:200]} for r in mr[:4]]
    ctx.cov["rule"] = ("generated `f(x: S) = match x: arms…` with S over Int/Nat/Str, literal enums, intervals, unions; 1-4 arms: literals, "
                       "intervals (all four forms a..b, a<..b, a..<b, a<..<b), enums, class arms, union arm, wildcard; half of them made covering; every value of ⟦S⟧ from "
                       "{-2,-1,0,1,2,3,5,10,11,12,\"s0\",\"s1\"} plus both end points +-1 of every interval is passed; non-trivial = accepted match with a refinement or union")
    ctx.cov["input_distribution"] = {
        "match_programs": len(mr), "accepted": sum(r[2].startswith("(accept)") for r in mr),
        "values_run": sum(len(r[2].split("(taken")[1].split()) for r in mr if "(taken" in r[2]),
        "contains_rows": len(cr), "acceptance_rows": len(ar),
        "acceptance_model_differs_from_front_end": len(acc_dis),
        "acceptance_difference_samples": [{"case": d[1][:200], "front_end": d[2], "model": d[3]} for d in acc_dis[:6]]}
    ctx.assumptions = ["acceptance is observed through `erg check` (whole front end); the transcription `accepted` (union fold + supertype_of) is "
                       "compared with it and differences are reported, not required to vanish: sub_unify/coercion are outside the model",
                       "run time under python3.11 only (code generator target of the CLI default)"]
    extra.update({"disagreements": len(other_dis), "spec_violations": len(res.spec_viol), "in_known_class": len(res.known),
                  "out_of_model": res.out_of_model, "corpus_cases": len(core.corpus_rows(PROP))})
    for e in ctx.known_findings():
        hits = [k for k in res.known if k[5] == e["id"]]
        wit = [k for k in hits if k[0] == "k:" + e["id"]]
        if wit or hits:
            ctx.print_known(e, f"{e.get('summary', '')} [{len(hits)} case(s) of this class in this run]")
    if res.spec_viol:
        v = sorted(res.spec_viol, key=lambda x: (not x[1].startswith("(match"), len(x[1])))[0]
        c = case_of_sexp(v[1]) if v[1].startswith("(match") else None
        ctx.violation({"kind": "implementation-violates-spec", "program": program(c[0], c[1], c[2]) if c else None, "case_id": v[0], "input": v[1], "impl": v[2], "model": v[3], "spec": v[4],
                       "inK": v[5], "others": [x[1] for x in res.spec_viol[1:6]]})
    elif other_dis or not proof["ok"] or mrc != 0:
        ctx.violation({"kind": "no-longer-shown", "proof_problems": proof["problems"], "build_log_tail": proof["log"][-3000:] if not proof["ok"] else "",
                       "correspondence_disagreements": [dict(id=x[0], input=x[1], impl=x[2], model=x[3]) for x in other_dis[:10]]}, no_input=True)
    ctx.write_evidence(proof["obligations"], proof["discharged"], checker_cmd, extra,
                       ["py/c33_contains.py (construction of the run-time pattern objects)", "checks/c33.py generator and output parsing"])
    ctx.finish()


def replay(ctx, path):
    rp = json.load(open(path))
    ok, log, erg = core.erg_binary()
    core.lake_build(["ergmodel_c33"])
    wd = tempfile.mkdtemp(prefix="c33_")
    rows = []
    for i, inp in enumerate([rp.get("input")] + list(rp.get("others", []))):
        c = case_of_sexp(inp) if inp and inp.startswith("(match") else None
        if c:
            print(program(c[0], c[1], c[2]))
            rows.append(("r%d" % i, inp, check_and_run(erg, wd, c[0], c[1], c[2], "r%d" % i)))
    shutil.rmtree(wd, ignore_errors=True)
    _, mrows, _ = core.run_model(PROP, rows)
    res = core.compare(rows, mrows, {e["id"] for e in ctx.known_findings()})
    for r_, m_ in zip(rows, mrows):
        print("input:", r_[1])
        print("  impl :", r_[2])
        print("  model:", m_[1])
        print("  spec :", m_[2], " inK:", m_[3])
    bad = len(res.disagree) + len(res.spec_viol)
    print("still failing" if bad else "no longer failing")
    import sys
    sys.exit(1 if bad else 0)
