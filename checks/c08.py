"""C08 — the lexer is total and reports faithful token positions.
Lean: complete transcription of erg_parser::lex::Lexer (lean/ErgVerif/Shared/Lex.lean, with the is_valid_*_symbol_ch tables REGENERATED from
the real predicates on every run), theorems C08_total / C08_terminates / C08_finishes / C08_shape / C08_or_error for every input, position
witnesses; tie: token kind/content/line/col streams and error locations+messages of Lexer::from_str on generated strings."""
import os
from vlib import core

MANIFEST_ENTRY = {
    "level_claimed": {"category": "proof",
        "text": "Lean theorems for EVERY input string on a complete transcription of Lexer (all of Iterator::next and its helpers, 1 200 Rust lines): "
                "no panic site is reachable (C08_total), the lexer terminates (C08_terminates/C08_finishes: explicit fuel bound), a lex without errors ends "
                "with EOF and has #Indent = #Dedent (C08_shape, invariant #Indent-#Dedent = indent_stack.len), otherwise an error is reported (C08_or_error). "
                "The transcription is tied to the Rust lexer by exact correspondence of token kind/content/line/column streams and of error locations and "
                "messages on generated strings. Token positions: proved for the emit helpers + machine-checked witnesses; for whole inputs checked on every "
                "correspondence case against the true position of each token's source offset."},
    "level_note": "proved for all inputs: C08_total, C08_terminates, C08_finishes, C08_shape, C08_or_error (fixed code, commit 92d1c2c3; legacy behaviour kept as "
                  "lexLegacy with crash/drift witness theorems). NOT proved in general: C08_pos (line/col = true position, source order) — it is false of the code "
                  "(recorded finding C08-line-drift: multi-line string tokens, line breaks consumed inside tokens) and outside that class it is only evaluated per "
                  "correspondence case (driver verdict viol:pos) plus C08_pos_partial_emit and witnesses. unicode_xid enters as a table regenerated from "
                  "Lexer::is_valid_start_symbol_ch/is_valid_continue_symbol_ch over all code points (not verified, exact). u32 overflow of line/col counters (inputs "
                  "> 4 GiB) is outside the model. Trusted: Lean kernel + {propext, Quot.sound, Classical.choice}; transcription checked differentially.",
    "technique": "Lean 4 proof (post-conditions of every sub-lexer, potential function for termination, loop invariant for the shape) + differential correspondence",
}


def regen_xid(ctx, bindir):
    if ctx.prop != "C08":      # C24/C10 reuse the lexer model: make sure the dumper exists next to their harness
        core.cargo_build(["c08"])
    out = os.path.join(core.LEAN, "ErgVerif", "Gen", "XidTable.lean")
    rc, o, e = core.sh([core.PYTHONS["3.11"], os.path.join(core.VERIF, "py", "c08_xidgen.py"), os.path.join(bindir, "c08"), out])
    ctx.cov["gen_tables"] = {"XidTable": (o or e).strip()}
    if rc != 0:
        ctx.violation({"kind": "xid-table-generation-failed", "stderr": e[-2000:]}, no_input=True)
    elif o.startswith("written"):
        # the table changed: the Lean side was built against the old one -> rebuild so that the theorems and the driver see the new table
        ok, log = core.lake_build([f"ErgVerif.{ctx.prop}.Props", "ergmodel_" + ctx.prop.lower()])
        if not ok:
            ctx.violation({"kind": "no-longer-shown", "what": "theorems do not re-check against the regenerated identifier table", "log": log[-3000:]}, no_input=True)


def nontrivial(row):
    # at least 4 tokens and either an indent, a string, or an error
    o = row[2]
    return o.count("(t ") >= 4 and ("Indent" in o or "Str" in o or "(e " in o)


def post(ctx, rows, res, bindir):
    # input distribution
    hist = {"crash": 0, "with_error": 0, "ok": 0, "indent": 0, "interp": 0, "multiline": 0, "escape": 0, "nonascii": 0, "tab": 0, "bidi": 0}
    lens = []
    for r in rows:
        o, i = r[2], r[1]
        hist["crash"] += "(crash" in o
        hist["with_error"] += "(e " in o
        hist["ok"] += "(e " not in o and "(crash" not in o
        hist["indent"] += "(t Indent" in o
        hist["interp"] += "StrInterp" in o
        hist["multiline"] += '\\"\\"\\"' in i or "'''" in i
        hist["escape"] += "\\\\" in i
        hist["nonascii"] += "\\u" in i or "\\U" in i
        hist["tab"] += "\\t" in i
        hist["bidi"] += "\\u202e" in i or "\\u200f" in i or "\\u2067" in i
        lens.append(len(i))
    ctx.cov["input_histogram"] = hist
    ctx.cov["input_len_max"] = max(lens) if lens else 0
    # the legacy model (code before 92d1c2c3) must still predict the recorded panics / drift: run the L: rows through the driver only
    legacy = [l.rstrip("\n").split("\t") for l in open(os.path.join(core.VERIF, "corpus", "C08", "legacy.rows")) if l.strip()]
    _, mrows, _ = core.run_model("C08", [(a, b, "") for a, b in legacy])
    ctx.cov["legacy_model"] = {m[0]: m[2][:60] for m in mrows}
    if not all(m[2].startswith("viol") for m in mrows):
        ctx.violation({"kind": "no-longer-shown", "what": "legacy model no longer reproduces the recorded pre-fix failures", "rows": mrows}, no_input=True)


def run(ctx):
    ctx.cov["rule"] = ("generated programs (indentation ladders, definitions, operators, all number shapes, strings with every escape, interpolations nested <= 3, "
                       "multi-line strings, raw identifiers, backquoted operators, comments) 40%, the same mutated (truncate/delete/insert/replace/duplicate/"
                       "trailing backslash) 30%, expressions 10%, raw random strings over the Erg alphabet incl. tabs, CR, bidi, NUL, non-ASCII 20%; "
                       "non-trivial = >= 4 tokens and an indent, a string token or an error; distinct by input")
    ctx.assumptions = ["line/column counters are modelled as unbounded naturals (u32 in the code)",
                       "is_xid_start/is_xid_continue enter through a table regenerated from the real predicates on every run"]
    core.standard_check(ctx, harness_bin="c08", n_quick=6000, n_thorough=120000, nontrivial=nontrivial, pre=regen_xid, post=post,
                        trusted=["generated table of Lexer::is_valid_start_symbol_ch / is_valid_continue_symbol_ch (py/c08_xidgen.py)"])


def replay(ctx, path):
    core.standard_replay(ctx, path, "c08")
