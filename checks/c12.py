"""C12 — optimisation never changes observable behaviour: Lean theorem C12_full (trace preservation of dead-definition
elimination at every level) on a transcription of optimize.rs + is_impure, tied to the real HIROptimizer by correspondence on
generated programs, plus the behavioural stream `erg -o N run` for N = 0..3."""
import os
import re
import tempfile

from vlib import core
from vlib import minihir_tie as mt

MANIFEST_ENTRY = {
    "level_claimed": {"category": "proof",
        "text": "Lean theorem for every mini-HIR program and every optimisation level: the transcribed dead-definition elimination "
                "(eliminate_unused_def + is_impure) preserves the sequence of side-effecting call sites, because every expression is_impure calls "
                "pure has none; levels 1..3 are proved identical and level 0 the identity. The transcription is tied to the real HIROptimizer by "
                "correspondence (which definitions disappear at each level) and the compiled programs are run at -o 0..3 and compared."},
    "level_note": "partial in one respect, recorded as finding C12-raising-def-dropped: an unused definition whose (effect-free) initialiser raises at "
                  "run time is dropped at -o>=1, so the uncaught exception disappears; the theorem is about printed output/effects, not exceptions of "
                  "pure code. Hypothesis okL (no effect site in parameter default values) is evaluated on every case. The reference index (referrers) "
                  "is an input of the model, exercised by the behavioural stream only. trusted: Lean kernel + {propext, Quot.sound}; projection; "
                  "CPython as the executor of the behavioural stream.",
    "technique": "Lean 4 proof (mutual structural recursion: pure => silent, elimination preserves the trace) + differential correspondence + "
                 "cross-level behavioural comparison of `erg -o N run`",
}

HARNESS = "c12"
WITNESS_RAISE = 'x = int("a")\nprint! "done"\n'


def nontrivial(row):
    # at least one definition eliminated at -o 1
    return bool(re.search(r"\(o1 \(", row[2]))


def delete_defs(src, lines):
    """the source without the definitions that start on the given (1-based) lines, each with its more-indented continuation"""
    ls = src.rstrip("\n").split("\n")
    drop = set()
    for n in lines:
        i = n - 1
        if 0 <= i < len(ls):
            ind = len(ls[i]) - len(ls[i].lstrip(" "))
            drop.add(i)
            j = i + 1
            while j < len(ls) and ls[j].strip() and (len(ls[j]) - len(ls[j].lstrip(" "))) > ind:
                drop.add(j)
                j += 1
    return "\n".join(l for k, l in enumerate(ls) if k not in drop) + "\n"


def run_levels(exe, src, levels=(0, 1, 2, 3)):
    """[(rc, stdout, exception type, traceback line)] for -o 0..3"""
    res = []
    with tempfile.TemporaryDirectory(prefix="verif_c12_") as d:
        f = os.path.join(d, "case.er")
        open(f, "w").write(src)
        for n in levels:
            rc, out, err = core.sh([exe, "-o", str(n), "run", f], env=core.erg_env(), timeout=180, cwd=d)
            err = mt.ANSI.sub("", err)
            # compile-time warnings are printed on stdout before the program runs: keep the program's own output
            out = mt.ANSI.sub("", out)
            ws = list(re.finditer(r"^\w*Warning: .*\n\n?", out, re.M))
            if ws:
                out = out[ws[-1].end():]
            exc = None
            m = re.findall(r"^(\w+(?:Error|Exception|Interrupt)\b)", err, re.M)
            if rc != 0 and m:
                exc = m[-1]
            ln = re.findall(r"line (\d+), in <module>", err)
            res.append((rc, out, exc, int(ln[-1]) if ln else None))
    return res


def eliminated_lines(model_out):
    m = re.search(r"\(o1((?: \(\d+ \d+ \"[^\"]*\"\))*)\)", model_out)
    return {int(x) for x in re.findall(r"\((\d+) \d+ \"", m.group(1))} if m else set()


def behaviour_stream(ctx, rows, mrows_by_id):
    exe = mt.erg_cli(ctx)
    if not exe:
        return
    n = 36 if ctx.tier == "thorough" else 6
    cand = [r for r in rows if r[2].startswith("(o0")]
    plain = [r for r in cand if not r[0].startswith("x")]
    rais = [r for r in cand if r[0].startswith("x")]
    picked = plain[:: max(len(plain) // n, 1)][:n] + rais[:: max(len(rais) // max(n // 3, 1), 1)][: max(n // 3, 1)]
    stats = {"programs": 0, "runs": 0, "same_all_levels": 0, "known_class": 0, "exit_nonzero": 0, "stdout_lines": 0}
    for r in picked:
        src = mt.src_of(r[1])
        res = run_levels(exe, src)
        stats["programs"] += 1
        stats["runs"] += 4
        stats["stdout_lines"] += res[0][1].count("\n")
        if res[0][0] != 0:
            stats["exit_nonzero"] += 1
        obs = [(x[0], x[1], x[2]) for x in res]
        if all(o == obs[0] for o in obs):
            stats["same_all_levels"] += 1
            continue
        # class of the recorded finding: -o 0 dies with an uncaught exception, the optimised levels agree with each other, and
        # -o 1 behaves exactly like -o 0 of the program with the removed definitions (impl == model, effect trace kept) deleted
        # from the source — i.e. the whole difference is the exception of an eliminated, effect-free initialiser.
        # (The traceback line cannot be used: on targets >= 3.10 module lines collapse to 1, finding C14 #20.)
        if (res[0][2] is not None and obs[1] == obs[2] == obs[3]
                and any(e["id"] == "C12-raising-def-dropped" for e in ctx.known_findings())):
            stripped = delete_defs(src, eliminated_lines(r[2]))
            r0 = run_levels(exe, stripped, levels=(0,))[0]
            if (r0[0], r0[1], r0[2]) == obs[1]:
                stats["known_class"] += 1
                continue
        ctx.violation({"kind": "behaviour-differs-across-levels", "input": r[1], "impl": r[2],
                       "levels": [{"o": i, "rc": x[0], "stdout": x[1][-600:], "exception": x[2], "line": x[3]} for i, x in enumerate(res)],
                       "what": "`erg -o N run` gives different stdout / exception / exit status at different optimisation levels"})
        break
    ctx.cov["behaviour_stream"] = stats


def known_replay(ctx, e, bindir):
    if e["id"] != "C12-raising-def-dropped":
        return
    exe = mt.erg_cli(ctx)
    if not exe:
        return
    res = run_levels(exe, WITNESS_RAISE)
    o0, o1 = res[0], res[1]
    if o0[0] != 0 and o0[2] == "ValueError" and o1[0] == 0 and "done" in o1[1] and res[1][:3] == res[2][:3] == res[3][:3]:
        ctx.print_known(e, f"{e.get('summary', '')} [witness `x = int(\"a\")`: -o 0 exits {o0[0]} with {o0[2]}, -o 1..3 exit 0 and print `done`]")
    elif all((x[0], x[1], x[2]) == (o0[0], o0[1], o0[2]) for x in res):
        ctx.notes.append("C12-raising-def-dropped no longer reproduces: all levels behave alike on the witness")
    else:
        ctx.violation({"kind": "known-finding-changed-shape", "input": "(src %s)" % mt.quote(WITNESS_RAISE),
                       "levels": [{"o": i, "rc": x[0], "stdout": x[1][-300:], "exception": x[2]} for i, x in enumerate(res)]})


def post(ctx, rows, res, bindir):
    st = mt.input_stats(rows)
    ctx.cov["input_distribution"] = st
    ctx.cov["refusal_rate"] = st["refusal_rate"]
    elim = sum(len(re.findall(r"\(\d+ \d+ \"", (re.search(r"\(o1((?: \(\d+ \d+ \"[^\"]*\"\))*)\)", r[2]) or [None, ""])[1])) for r in rows)
    ctx.cov["definitions_eliminated_at_o1"] = elim
    behaviour_stream(ctx, rows, None)


def run(ctx):
    ctx.cov["rule"] = ("generated Erg programs: 3..10 statements over a prelude — unused private definitions with 24 kinds of initialisers "
                       "(pure; print!/procedure call directly, as attribute receiver, argument, *unpacked/**unpacked/keyword argument, in "
                       "list/tuple/set/dict/record/binop, in a block, procedural method, procedure lambda), used and public definitions, `_ =`, "
                       "unused functions/procedures, inside for!/if! bodies (reached through call arguments and lambda bodies); one program in "
                       "eight may contain an initialiser that raises; non-trivial = at least one definition eliminated at -o 1")
    ctx.assumptions = ["programs go through the real pipeline build -> link -> desugar before HIROptimizer::optimize",
                       "the behavioural stream compares stdout, uncaught exception type and exit status of `erg -o N run` for N = 0..3"]
    core.standard_check(ctx, harness_bin=HARNESS, n_quick=200, n_thorough=3000, nontrivial=nontrivial,
                        trusted=["HIR -> mini-HIR projection harness/src/minihir.rs incl. referrer counts read from the module index",
                                 "CPython 3.11 + erg code generator as executors of the behavioural stream"],
                        search_more=mt.make_search_more(HARNESS), shrink=mt.make_shrinker(HARNESS), post=post,
                        known_replay=known_replay)


def replay(ctx, path):
    core.standard_replay(ctx, path, HARNESS)
