"""C27 — stdlib declarations name attributes that really exist (T-gen).

Every run: (1) harness `c27 dump` parses every file under <repo>/crates/erg_compiler/lib/pystd with the real erg_parser and
lists the top-level public declarations as (module, ergName, pyName); (2) py/c27_dump_attrs.py prints dir(import_module(M))
under each installed interpreter 3.7..3.13; (3) py/c27_typeshed.py lists the names the bundled typeshed stubs define for M over
all sys.platform / sys.version_info branches; (4) lean/ErgVerif/Gen/C27.lean is regenerated (names interned per module to Nat
ids; `known` as one bitset per module) and the `decide +kernel` theorems of ErgVerif.C27.Props are re-elaborated; (5) the same
inclusion is computed in Python to name offending (module, name) pairs (the replay), which are confirmed by `erg run` of
`m = pyimport "M"; print! m.name`."""
import concurrent.futures
import hashlib
import json
import os
import re
import tempfile

from vlib import core

MANIFEST_ENTRY = {
    "level_claimed": {"category": "proof",
        "text": "kernel-checked finite-table theorem (decide +kernel) over tables regenerated on every run: for every module of the bundled "
                "pystd declarations and every top-level public declaration in it (parsed by the real erg_parser; Python name = quoted name "
                "or erg name without `!`), the Python name is an attribute of that module in at least one installed interpreter 3.7-3.13 or "
                "in a branch of the bundled typeshed stub — except the recorded finite set K of (module, name) pairs, whose size is pinned "
                "in Props.lean and each of which is re-confirmed absent on every run."},
    "level_note": "trusted: Lean kernel + {propext, Quot.sound}; translators (harness/src/bin/c27.rs walks the real AST; py/c27_dump_attrs.py, "
                  "py/c27_typeshed.py; per-module interning in checks/c27.py — intern tables are written to evidence/aux/C27.intern.json and hashed). "
                  "Attribute *types* and class-body attributes are not covered by the theorem (class bodies are dumped one level deep and "
                  "compared as an observation list only). `known` = union over interpreters and typeshed branches, as the property states.",
    "technique": "Lean 4 decide +kernel over regenerated tables (T-gen); offending rows by set difference, confirmed with erg run",
}

GEN = os.path.join(core.LEAN, "ErgVerif", "Gen")
TYPESHED = "/opt/veriftools/pyvenv/lib/python3.11/site-packages/typeshed_client/typeshed"
FINDING_ID = "C27-undeclared-attrs"


def sha(text):
    return hashlib.sha256(text.encode()).hexdigest()[:16]


def write_if_changed(path, text):
    os.makedirs(os.path.dirname(path), exist_ok=True)
    if not os.path.exists(path) or open(path).read() != text:
        open(path, "w").write(text)
        return True
    return False


# ------------------------------------------------------------------------------------------------ dumps

def dump_decls(bindir):
    root = os.path.join(core.REPO, "crates", "erg_compiler", "lib", "pystd")
    rc, out, err = core.sh([os.path.join(bindir, "c27"), "dump", root], timeout=600, env=core.erg_env())
    if rc != 0:
        raise RuntimeError("c27 dump failed: " + err[-500:])
    t = {"files": [], "decls": [], "cattrs": [], "skips": []}
    for l in out.splitlines():
        p = l.split("\t")
        if p[0] == "file":
            t["files"].append({"module": p[1], "path": p[2], "status": p[3]})
        elif p[0] == "decl":
            t["decls"].append({"module": p[1], "erg": p[2], "py": p[3], "kind": p[4], "line": int(p[5])})
        elif p[0] == "cattr":
            t["cattrs"].append({"module": p[1], "class_erg": p[2], "class_py": p[3], "erg": p[4], "py": p[5], "line": int(p[6])})
        elif p[0] == "skip":
            t["skips"].append({"module": p[1], "line": int(p[2]), "what": p[3]})
    return t


def dump_interpreters(t):
    mods = [f["module"] for f in t["files"]]
    classes, subm = {}, {}
    for c in t["cattrs"]:
        classes.setdefault(c["module"], set()).add(c["class_py"])
    for d in t["decls"]:
        if d["kind"].startswith("submodule"):
            subm.setdefault(d["module"], set()).add(d["py"])
    req = json.dumps({"modules": mods, "classes": {k: sorted(v) for k, v in classes.items()},
                      "submods": {k: sorted(v) for k, v in subm.items()}})

    def one(item):
        v, exe = item
        rc, out, err = core.sh([exe, os.path.join(core.VERIF, "py", "c27_dump_attrs.py")], input=req, timeout=900)
        if rc != 0:
            raise RuntimeError(f"py/c27_dump_attrs.py failed under {exe}: {err[-300:]}")
        return v, json.loads(out)

    with concurrent.futures.ThreadPoolExecutor(max_workers=4) as ex:
        py = dict(ex.map(one, core.PYTHONS.items()))
    rc, out, err = core.sh([core.PYTHONS["3.13"], os.path.join(core.VERIF, "py", "c27_typeshed.py"), TYPESHED],
                           input=json.dumps({"modules": mods}), timeout=900)
    if rc != 0:
        raise RuntimeError("py/c27_typeshed.py failed: " + err[-500:])
    return py, json.loads(out)


def known_sets(t, py, ts):
    known, where = {}, {}
    for f in t["files"]:
        m = f["module"]
        k = set()
        w = {}
        for v in sorted(py, key=lambda x: int(x.split(".")[1])):
            r = py[v]["modules"][m]
            for n in list(r["attrs"]) + list(r["submods"]):
                k.add(n)
                w.setdefault(n, []).append(v)
        for n in ts["modules"][m]["names"]:
            k.add(n)
            w.setdefault(n, []).append("typeshed")
        known[m] = k
        where[m] = w
    return known, where


# ------------------------------------------------------------------------------------------------ Gen file

def build_gen(t, known, kpairs):
    """per module: local intern table over known ∪ declared names (sorted); decl ids; known as a bitset"""
    mods = [f["module"] for f in t["files"]]
    mid = {m: i for i, m in enumerate(mods)}
    intern = {}
    L = ["/- GENERATED on every run by checks/c27.py from the working tree (harness `c27 dump`: pystd declarations parsed by erg_parser),",
         "   the installed interpreters 3.7-3.13 (py/c27_dump_attrs.py) and the bundled typeshed stubs (py/c27_typeshed.py). Never edit.",
         "   Per module: names are interned to Nat ids over (known ∪ declared) in sorted order (full tables: evidence/aux/C27.intern.json);",
         "   `decls` = ids of the Python names of the top-level public declarations (sorted, distinct), `known` = bitset of the ids that",
         "   are attributes of the module in some interpreter or typeshed branch. -/",
         "namespace ErgVerif.Gen.C27", ""]
    rows = []
    kf = []
    for m in mods:
        dn = sorted({d["py"] for d in t["decls"] if d["module"] == m})
        names = sorted(known[m] | set(dn))
        nid = {n: i for i, n in enumerate(names)}
        intern[m] = names
        bits = 0
        for n in known[m]:
            bits |= 1 << nid[n]
        L.append(f"/- module {mid[m]} = {m}: " + " ".join(f"{nid[n]}={n}" for n in dn) + " -/")
        rows.append(f"  ({mid[m]}, [{', '.join(str(nid[n]) for n in dn)}], 0x{bits:x})")
        for (km, kn) in kpairs:
            if km == m and kn in nid:
                kf.append((mid[m], nid[kn], km, kn))
    L.append("/-- `(module id, ids of declared Python names, bitset of known attribute ids)` -/")
    L.append("def modules : List (Nat × List Nat × Nat) := [")
    L.append(",\n".join(rows) + "]")
    L.append("")
    L.append("/-- recorded finding K (known_findings.json, id C27-undeclared-attrs): `(module id, name id)` of declarations that name no")
    L.append("    attribute, kept unfixed: " + ", ".join(f"{a}.{b}" for _, _, a, b in kf) + " -/")
    L.append("def kfind : List (Nat × Nat) := [" + ", ".join(f"({a}, {b})" for a, b, _, _ in sorted(kf)) + "]")
    L.append("")
    L.append("end ErgVerif.Gen.C27")
    return "\n".join(L) + "\n", intern, mid


# ------------------------------------------------------------------------------------------------ confirmation on the real compiler

def erg_confirm(ergbin, module, name, pyexe):
    """`m = pyimport "M"; print! m.name` compiled and run by the erg CLI of the working tree"""
    with tempfile.TemporaryDirectory(prefix="c27_") as d:
        f = os.path.join(d, "w.er")
        leaf = module.replace(".", "/")
        open(f, "w").write(f'm = pyimport "{leaf}"\nprint! m.{name}\n')
        rc, out, err = core.sh([ergbin, "--py-command", pyexe, "run", f], cwd=d, env=core.erg_env(), timeout=300)
        txt = (out + err)
        if "AttributeError" in txt:
            verdict = "AttributeError"
        elif rc == 0:
            verdict = "ran"
        else:
            verdict = "other-failure"
        return {"program": f'm = pyimport "{leaf}"; print! m.{name}', "rc": rc, "verdict": verdict, "tail": txt[-300:]}


def class_observations(t, py, ts):
    """one level below (not part of the theorem): `.Class.attr` names found neither in dir(class) of any interpreter nor in the stub"""
    out = []
    for c in t["cattrs"]:
        if c["py"].startswith("__") or c["py"] == "new":
            continue
        k, found = set(), False
        for v in py:
            r = py[v]["modules"][c["module"]]["classes"].get(c["class_py"])
            if r is not None:
                found = True
                k |= set(r)
        r = ts["modules"][c["module"]]["classes"].get(c["class_py"])
        if r is not None:
            found = True
            k |= set(r)
        if found and c["py"] not in k:
            out.append(f"{c['module']}.{c['class_py']}.{c['py']}")
    return out


# ------------------------------------------------------------------------------------------------ run

def run(ctx):
    prop = "C27"
    ok_h, hlog, bindir = core.cargo_build(["c27"])
    if not ok_h:
        ctx.violation({"kind": "harness-build-failed", "what": "the declaration dumper no longer builds against the working tree", "log": hlog}, no_input=True)
        ctx.write_evidence(1, 0, "cargo build --bin c27", {}, [])
        ctx.finish()
    t = dump_decls(bindir)
    py, ts = dump_interpreters(t)
    known, where = known_sets(t, py, ts)
    entries = [e for e in ctx.known_findings() if e["id"] == FINDING_ID]
    kpairs = [tuple(p) for e in entries for p in e.get("pairs", [])]
    text, intern, mid = build_gen(t, known, kpairs)
    changed = write_if_changed(os.path.join(GEN, "C27.lean"), text)
    os.makedirs(os.path.join(core.VERIF, "evidence"), exist_ok=True)
    itext = json.dumps(intern, sort_keys=True)
    os.makedirs(os.path.join(core.VERIF, "evidence", "aux"), exist_ok=True)
    open(os.path.join(core.VERIF, "evidence", "aux", "C27.intern.json"), "w").write(itext)

    # Python mirror of C27_all
    unmatched = [d for d in t["decls"] if d["py"] not in known[d["module"]]]
    offenders = [d for d in unmatched if (d["module"], d["py"]) not in kpairs]
    in_k = [d for d in unmatched if (d["module"], d["py"]) in kpairs]
    stale_k = [p for p in kpairs if not any((d["module"], d["py"]) == p for d in unmatched)]

    # corpus: witnesses of the recorded finding (must still be unmatched declarations in K) and the names repaired by the fix
    # commit (must not be declared again while they exist nowhere) — run first, like every corpus
    corpus_bad = []
    crow = core.corpus_rows(prop)
    for cid, inp in crow:
        mm = re.match(r'\(pair "([^"]*)" "([^"]*)"\)', inp)
        if not mm:
            continue
        pair = (mm.group(1), mm.group(2))
        declared = any((d["module"], d["py"]) == pair for d in t["decls"])
        absent = pair[1] not in known.get(pair[0], set())
        if cid.startswith("k:") and not (declared and absent and pair in kpairs):
            corpus_bad.append({"id": cid, "pair": list(pair), "what": "recorded K pair is no longer an unmatched declaration (remove it from known_findings.json)"})
        if cid.startswith("fixed:") and declared and absent and pair not in kpairs:
            corpus_bad.append({"id": cid, "pair": list(pair), "what": "a misspelling repaired earlier is declared again"})

    proof = core.proof_stage(ctx, prop, ["ErgVerif.C27.Props"])
    checker_cmd = "cd lean && lake build ErgVerif.C27.Props && lake env lean Audit/C27.lean"

    need_erg = bool(offenders) or bool(in_k)
    ergbin = None
    if need_erg:
        ok_e, elog, ergbin = core.erg_binary()
        if not ok_e:
            ergbin = None
    confirmations = []
    if offenders:
        for d in offenders[:6]:
            c = erg_confirm(ergbin, d["module"], d["erg"], core.PYTHONS["3.11"]) if ergbin else None
            confirmations.append({"module": d["module"], "erg_name": d["erg"], "py_name": d["py"], "line": d["line"],
                                  "hasattr": {v: (d["py"] in py[v]["modules"][d["module"]]["attrs"]) for v in py},
                                  "typeshed": d["py"] in ts["modules"][d["module"]]["names"], "erg_run": c})
        ctx.violation({"kind": "declaration-names-no-attribute",
                       "what": "top-level pystd declarations whose Python name is an attribute of the module in no installed interpreter "
                               "3.7-3.13 and in no typeshed branch (set difference decls \\ known \\ K)",
                       "pairs": [[d["module"], d["py"], f"{d['erg']} (line {d['line']})"] for d in offenders[:60]], "count": len(offenders),
                       "confirmed": confirmations, "proof_problems": proof["problems"]})
    elif not proof["ok"]:
        ctx.violation({"kind": "no-longer-shown", "what": "a C27 proof obligation no longer elaborates over the regenerated tables and the Python "
                       "mirror found no offending (module, name) pair", "proof_problems": proof["problems"],
                       "build_log_tail": proof["log"][-3000:]}, no_input=True)
    # known finding: every pair of K must still be absent everywhere; representative pairs are run through the erg CLI
    for e in entries:
        if in_k and not stale_k:
            reps = in_k if ctx.tier == "thorough" else in_k[:2]
            runs = [erg_confirm(ergbin, d["module"], d["erg"], core.PYTHONS["3.11"]) for d in reps] if ergbin else []
            if all(r["verdict"] == "AttributeError" for r in runs):
                ctx.print_known(e, f"{len(in_k)} declared names are attributes of their module in no interpreter and no typeshed branch "
                                   f"({', '.join(d['module'] + '.' + d['py'] for d in in_k)}); erg run of "
                                   f"`{runs[0]['program'] if runs else ''}` raises AttributeError")
            else:
                ctx.violation({"kind": "known-finding-not-reproduced", "runs": runs,
                               "what": "a recorded K pair no longer raises AttributeError through the erg CLI although no interpreter lists it"},
                              no_input=True)
    n_mod = len(t["files"])
    ctx.cov["rule"] = "one evaluation = one (module, declared Python name) membership; non-trivial = declaration in a module that some interpreter imports"
    ctx.cov["evaluations"] = len(t["decls"])
    ctx.cov["distinct_nontrivial"] = len({(d["module"], d["py"]) for d in t["decls"]})
    ctx.cov["traces_validated_against_impl"] = len(t["decls"]) - len(unmatched)
    ctx.cov["samples"] = [{"decl": f"{d['module']}.{d['erg']} -> {d['py']}", "found_in": where[d["module"]].get(d["py"], [])[:8]}
                          for d in t["decls"][:3] + t["decls"][len(t["decls"]) // 2:len(t["decls"]) // 2 + 2]]
    only_ts = [f"{d['module']}.{d['py']}" for d in t["decls"] if where[d["module"]].get(d["py"]) == ["typeshed"]]
    extra = {"axioms": proof["axioms"], "theorems": proof["theorems"], "examples": proof["examples"],
             "gen_tables": {"Gen/C27.lean": {"sha256_16": sha(text), "rewritten": changed, "modules": n_mod, "decl_rows": len(t["decls"]),
                                             "known_names_total": sum(len(v) for v in known.values())},
                            "evidence/aux/C27.intern.json": {"sha256_16": sha(itext)}},
             "decl_kinds": {k: sum(1 for d in t["decls"] if d["kind"].split(":")[0] == k) for k in ("attr", "renamed", "def", "submodule")},
             "files_with_parse_errors": [f for f in t["files"] if f["status"] != "ok"],
             "import_failures": {v: [m for m, r in py[v]["modules"].items() if not r["ok"]] for v in py},
             "modules_without_stub": [m for m, r in ts["modules"].items() if not r["stub"]],
             "matched_only_by_typeshed": only_ts, "unmatched_in_K": [f"{d['module']}.{d['py']}" for d in in_k],
             "stale_K_pairs": stale_k, "corpus_cases": len(crow), "corpus_problems": corpus_bad, "offending_pairs": [f"{d['module']}.{d['py']}" for d in offenders][:60],
             "class_attr_rows": len(t["cattrs"]), "class_attr_observations": class_observations(t, py, ts)[:200],
             "skipped_chunks": {k: sum(1 for s in t["skips"] if s["what"].split(" ")[0] == k) for k in sorted({s["what"].split(" ")[0] for s in t["skips"]})}}
    ctx.assumptions = ["interpreters: " + ", ".join(f"{v}.{py[v]['version'][2]} ({py[v]['platform']})" for v in py),
                       "Python name of a declaration = text between the quotes of `.Name = 'py_name': T`, else the erg name without trailing `!` "
                       "(declare.rs declare_ident / hir Accessor::local_name)",
                       "typeshed: a plain `from m import y` in a stub is not counted as an attribute (PEP 484 re-export rule); both arms of every "
                       "sys.platform / sys.version_info test are walked",
                       "a file with a parse error contributes the declarations before the error (that is what the compiler loads)"]
    ctx.write_evidence(proof["obligations"], proof["discharged"], checker_cmd, extra,
                       ["translators: harness/src/bin/c27.rs, py/c27_dump_attrs.py, py/c27_typeshed.py, checks/c27.py (interning, bitsets)"])
    ctx.finish()


def replay(ctx, path):
    rp = json.load(open(path))
    pairs = rp.get("pairs", [])
    ok_h, hlog, bindir = core.cargo_build(["c27"])
    t = dump_decls(bindir)
    py, ts = dump_interpreters(t)
    known, _ = known_sets(t, py, ts)
    ok_e, elog, ergbin = core.erg_binary()
    still = 0
    for m, n, what in pairs[:20]:
        decl = [d for d in t["decls"] if d["module"] == m and d["py"] == n]
        if not decl:
            print(f"{m}.{n}: no longer declared")
            continue
        absent = n not in known[m]
        r = erg_confirm(ergbin, m, decl[0]["erg"], core.PYTHONS["3.11"]) if ok_e else {"verdict": "erg-not-built"}
        print(f"{m}.{n} ({what}): in known = {not absent}; erg run: {r['verdict']}  {r.get('tail', '')[-120:].strip()}")
        if absent:
            still += 1
    print("still failing" if still else "no longer failing")
    raise SystemExit(1 if still else 0)
