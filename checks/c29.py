"""C29 — incremental language-server analysis converges to a fresh analysis: Lean theorems on a transcription of els/diff.rs and of the
didOpen/didChange/didSave state machine (parameterised by the analysis), tied to the real server by (a) correspondence on the hooked
ASTDiff::diff/update with really parsed modules and (b) edit histories played against an in-process server, whose per-notification
behaviour (quick-check diff, cache patch, change kind, publication) is predicted by the model and whose final diagnostics are compared
with those of a fresh server opened on the final text."""
import re
from vlib import core

MANIFEST_ENTRY = {
    "level_claimed": {"category": "proof",
        "text": "Lean theorems: ASTDiff::diff is Nop iff the modules are chunk-wise content-equal; patching with the reported difference "
                "reproduces any single-chunk edit (and provably not a two-chunk edit); for every notification history and every analysis "
                "function, a didSave whose change kind is not NoChange publishes the analysis of the current text (hence every history in a "
                "workspace without dependencies converges); the NoChange shortcut is right under the cache invariant + equal positions, "
                "and is refuted otherwise by two machine-checked witnesses that are replayed on the real server. The model is tied to "
                "crates/els by correspondence on the hooked ASTDiff and by end-to-end histories against a fresh server."},
    "level_note": "partial: the analysis (lowerer, HIRDiff::new/fix, dependents re-check, scheduler) is an abstract parameter of the model, so "
                  "'incremental analysis = fresh analysis' beyond the publish/skip decision is only exercised differentially (histories vs "
                  "fresh server, sorted diagnostics). Parser, lowerer verdict and analysis enter the state-machine tie as observed facts. "
                  "Trusted: Lean kernel + {propext, Quot.sound, Classical.choice}; the server's debug log lines used as observations "
                  "('diff:', 'hir_diff:', 'no changes:', 'checking'); the periodic auto-diagnostics thread is switched off "
                  "(files.autoSave=afterDelay) for the deterministic stream and only sampled in the 'auto' stream.",
    "technique": "Lean 4 proof (induction over chunk lists; state-machine invariants) + differential correspondence + fresh-server oracle",
}


def nontrivial(row):
    # a history with at least one change that ran the quick check with a non-Nop diff, or a diff case that is not Nop
    return "(qc (" in row[2] or ("(d (" in row[2])


def post(ctx, rows, res, bindir):
    kinds = {}
    for r in rows:
        for m in re.finditer(r"\((open pub|chg noqc|chg qc-noast|chg \(qc nop\)|chg \(qc \((add|del|mod) \d+\)( patched)?\)|save nochange|save check pub)", r[2]):
            k = re.sub(r"\d+", "i", m.group(1))
            kinds[k] = kinds.get(k, 0) + 1
        m = re.match(r"\(d (nop|\((add|del|mod))", r[2])
        if m:
            k = "diff:" + (m.group(2) or "nop")
            kinds[k] = kinds.get(k, 0) + 1
    ctx.cov["observation_histogram"] = kinds
    hist = [r for r in rows if r[1].startswith("(hist")]
    ctx.cov["histories"] = len(hist)
    ctx.cov["histories_with_dependencies"] = sum(1 for r in hist if "(deps true)" in r[1])
    ctx.cov["histories_auto_thread"] = sum(1 for r in hist if "(mode auto)" in r[1])
    ctx.cov["histories_converged"] = sum(1 for r in hist if "(converged true)" in r[2])
    ctx.cov["diff_cases"] = sum(1 for r in rows if r[1].startswith("(diff"))


def run(ctx):
    ctx.cov["rule"] = ("histories: open, 1-5 didChange notifications of 1-3 item-level edits each (insert/delete/replace a top-level definition, "
                       "insert/delete comment or blank lines, modify the tail of a line, type a trigger character), optional intermediate saves, "
                       "final didSave; 60% in a two-file workspace (document imports b.er); 25 parser-level diff cases per history; "
                       "non-trivial = a non-Nop diff was computed")
    ctx.assumptions = ["ASCII documents (UTF-16 offsets = columns; C28 covers the rest)",
                       "the dependency b.er is not edited; cross-file re-check of dependents is not modelled",
                       "debug build of els/molc (the server's log lines are observations)"]
    core.standard_check(ctx, harness_bin="c29", kind="harness-els", n_quick=28, n_thorough=400, nontrivial=nontrivial, post=post,
                        trusted=["els debug log lines as observations of quick_check_file / change_kind",
                                 "real parser's Display of a chunk as its content key (checked against Expr::eq on every zipped pair: eqs column)"])


def replay(ctx, path):
    core.standard_replay(ctx, path, "c29", kind="harness-els")
