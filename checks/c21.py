"""C21 — module dependency graph: Lean refinement proof of ModuleGraph (vector + index map) to a plain reference graph for
every operation history, topological-sort correctness, and the state-machine correspondence that ties the model to
crates/erg_compiler/module/graph.rs + crates/erg_common/tsort.rs: operation histories of length <= 40 over 6 paths, every
query after every operation (2 000 histories quick, 200 000 thorough), shrinking by operation deletion."""
import json
import os
import re
import tempfile
import time
from concurrent.futures import ThreadPoolExecutor

from vlib import core

PROP = "C21"
HARNESS = "c21"
CHUNK = 2000
THOROUGH_CHUNKS = 100        # 100 x 2000 = 200 000 histories (the first chunk is the standard run)
WORKERS = 6                 # chunks in flight (harness gen -> model driver -> diff); nothing but one chunk per worker is held in memory

MANIFEST_ENTRY = {
    "level_claimed": {"category": "proof",
        "text": "Lean theorems, for every history of add_node_if_none / inc_ref / remove / rename_path / sort from the empty graph (no bound "
                "on length or on the number of paths): the vector+index representation of ModuleGraph keeps its invariant, refines a plain "
                "reference graph (node set, edge set, transitive closure) at every operation, reports the result the reference graph "
                "prescribes and never panics (C21_inv, C21_refine, C21_no_crash, C21_history, C21_history_result); every query — get_node, "
                "depends_on, deep_depends_on (DFS with visited set = reachability), children, parents, ancestors — answers as the reference "
                "graph (C21_query_*, C21_history_queries); inc_ref refuses exactly the edges that would close a cycle, leaves the edge "
                "set unchanged when it refuses and preserves acyclicity (C21_incref_cycle, C21_acyclic, C21_history_acyclic); tsort returns "
                "a permutation with every node after its dependencies, reports CyclicReference exactly when a closed graph has a cycle, "
                "KeyNotFound only for a dangling dependency, and never panics (C21_tsort_sound, C21_tsort_complete, C21_tsort_errors, "
                "C21_tsort_total, C21_sort). The model transcribes graph.rs and tsort.rs (after fix f50fd18b) and is tied to the Rust code by a "
                "state-machine correspondence: histories <= 40 over 6 paths, every query after every operation, 2 000 histories quick / "
                "200 000 thorough, shrinking by operation deletion."},
    "level_note": "trusted: Lean kernel + {propext, Classical.choice, Quot.sound}; transcription checked by differential runs, not verified. "
                  "Module paths are opaque keys (non-existent files: is_dir() false, the is_dir early returns / DEBUG panics of "
                  "add_node_if_none and inc_ref are outside the model; NormalizedPathBuf construction is C31). FxHashSet is a duplicate-free "
                  "list whose order is arbitrary in every theorem; the driver adopts the real iteration order from the implementation's state "
                  "dump (C21_order_irrelevant) so that tsort's exact output order is compared. 'Leaves the graph unchanged' on a refused "
                  "inc_ref is proved as: edge set unchanged, node set grows at most by the referrer (add_node_if_none(referrer) precedes the "
                  "test); fully unchanged when the referrer was registered (C21_incref_refused_unchanged). Rename onto a registered path "
                  "follows file-system semantics (the target is replaced) and can create a cycle in the reference graph too, so "
                  "C21_history_acyclic is stated for rename-free histories. On graphs with a dangling edge (inc_ref does not register its "
                  "target) sort has no reference answer beyond 'an error': KeyNotFound, or CyclicReference if there is a cycle as well. "
                  "tsort theorems assume duplicate-free node ids (an invariant of ModuleGraph, proved). The executable reference graph "
                  "in the driver (spec-verdict column) is an independent naive implementation of Spec.lean, not proved equal to it.",
    "technique": "Lean 4 proof (representation invariant + refinement to a reference graph, visited-set lemmas for the two DFS queries, DFS "
                 "post-conditions for tsort, induction on the history) + differential state-machine correspondence with an independent "
                 "executable reference graph",
}


# ------------------------------------------------------------------------------------------------- helpers

def nontrivial(row):
    """a history is non-trivial when at least one inc_ref succeeded and some query answer is non-empty (an edge is reachable)"""
    impl = row[2]
    return "(s ok " in impl and re.search(r"\(deep [01]*1", impl) is not None


def parse_ops(inp):
    return re.findall(r"\((?:add|remove|inc|rename|sort)[^()]*\)", inp)


def fmt_ops(ops):
    return "(ops " + " ".join(ops) + ")"


def split_steps(out):
    return re.split(r" (?=\(s )", out) if out else []


def failing(rec):
    """rec = (impl, model, spec, inK)"""
    return rec is not None and (rec[0] != rec[1] or rec[2].startswith("viol"))


def evaluate(bindir, cases):
    """cases: [(id, input)] -> {id: (impl, model, spec, inK)} through harness `replay` + model driver"""
    if not cases:
        return {}
    _, rows, _ = core.run_harness(bindir, HARNESS, ["replay"], stdin="".join(f"{a}\t{b}\n" for a, b in cases), env=core.BASE_ENV)
    _, mrows, _ = core.run_model(PROP, rows)
    m = {r[0]: r for r in mrows}
    out = {}
    for r in rows:
        mr = m.get(r[0])
        out[r[0]] = (r[2], mr[1], mr[2], mr[3]) if mr else (r[2], "<no model output>", "-", "-")
    return out


def first_bad_step(rec):
    m = re.match(r"viol:step(\d+):", rec[2])
    ks = []
    if m:
        ks.append(int(m.group(1)))
    if rec[0] != rec[1]:
        a, b = split_steps(rec[0]), split_steps(rec[1])
        k = 0
        while k < len(a) and k < len(b) and a[k] == b[k]:
            k += 1
        ks.append(k)
    return min(ks) if ks else None


def shrink_input(bindir, inp):
    """delta debugging by operation deletion: truncate after the first failing step, then delete single operations, to a
    fixpoint; every candidate is re-run on the real code and on the model. Returns (input, rec) or None when the input does
    not fail (any more)."""
    ops = parse_ops(inp)
    cur = evaluate(bindir, [("s", fmt_ops(ops))]).get("s")
    if not failing(cur):
        return None
    for _ in range(200):
        changed = False
        k = first_bad_step(cur)
        if k is not None and k + 1 < len(ops):
            cand = ops[:k + 1]
            rec = evaluate(bindir, [("s", fmt_ops(cand))]).get("s")
            if failing(rec):
                ops, cur, changed = cand, rec, True
        if len(ops) > 1:
            cands = [(f"c{i}", fmt_ops(ops[:i] + ops[i + 1:])) for i in range(len(ops))]
            recs = evaluate(bindir, cands)
            for i in range(len(ops)):
                rec = recs.get(f"c{i}")
                if failing(rec):
                    ops, cur, changed = ops[:i] + ops[i + 1:], rec, True
                    break
        if not changed:
            break
    return fmt_ops(ops), cur


def shrink(ctx, v, bindir):
    """v = (id, input, impl, model, spec, inK) -> the same shape, minimised"""
    r = shrink_input(bindir, v[1])
    if not r:
        return v
    inp, rec = r
    return (v[0], inp, rec[0], rec[1], rec[2], rec[3])


def search_more(ctx, res, proof, bindir):
    """only model/implementation disagreements: minimise the first one into a concrete replay"""
    if not res.disagree:
        return None
    d = res.disagree[0]
    r = shrink_input(bindir, d[1])
    inp, rec = r if r else (d[1], (d[2], d[3], "-", "-"))
    return {"kind": "model-implementation-disagreement", "case_id": d[0], "input": inp, "impl": rec[0], "model": rec[1],
            "spec": rec[2], "original_input": d[1],
            "what": "the Lean model of ModuleGraph and the real code answer differently on this history (the specification "
                    "verdict on the implementation's answer is in `spec`)",
            "others": [x[1] for x in res.disagree[1:6]]}


def parse_hist(err):
    for l in reversed(err.strip().split("\n")):
        l = l.strip()
        if l.startswith("{"):
            try:
                return json.loads(l)
            except ValueError:
                return None
    return None


def add_hist(acc, h):
    for k, v in h.items():
        if isinstance(v, dict):
            add_hist(acc.setdefault(k, {}), v)
        else:
            acc[k] = acc.get(k, 0) + v


# ------------------------------------------------------------------------------------------------- callbacks

def stats_file(ctx):
    return os.path.join(tempfile.gettempdir(), f"verif-c21-stats-{os.getpid()}-{ctx.seed}.json")


def run_chunk(bindir, seed, known):
    t = time.time()
    rc, rows, err = core.run_harness(bindir, HARNESS, ["gen", "--seed", str(seed), "--n", str(CHUNK), "--tier", "thorough"],
                                     env=core.BASE_ENV)
    if rc != 0:
        return {"seed": seed, "error": "harness-run-failed", "stderr": err[-2000:]}
    mrc, mrows, merr = core.run_model(PROP, rows)
    if mrc != 0:
        return {"seed": seed, "error": "model-driver-failed", "stderr": merr[-2000:]}
    res = core.compare(rows, mrows, known)
    seen, nt = set(), 0
    for r in rows:
        if r[1] not in seen:
            seen.add(r[1])
            if nontrivial(r):
                nt += 1
    return {"seed": seed, "n": len(rows), "agree": res.agree, "nontrivial": nt, "hist": parse_hist(err) or {},
            "spec_viol": res.spec_viol[:3], "disagree": res.disagree[:3], "n_spec_viol": len(res.spec_viol),
            "n_disagree": len(res.disagree), "bytes": sum(len(r[2]) for r in rows), "wall_s": round(time.time() - t, 1)}


def post(ctx, rows, res, bindir):
    # the input distribution of the standard run (written by the harness: --stats-file)
    sf = stats_file(ctx)
    try:
        ctx.cov["input_distribution"] = json.load(open(sf))
        os.remove(sf)
    except (OSError, ValueError):
        ctx.cov["input_distribution"] = {"error": "no histogram from the harness"}
    if ctx.tier != "thorough" or ctx.violations:
        return
    t0 = time.time()
    known = {e["id"] for e in ctx.known_findings()}
    hist = dict(ctx.cov.get("input_distribution") or {})
    hist.pop("error", None)
    seeds = [ctx.seed * 1000 + k + 1 for k in range(THOROUGH_CHUNKS - 1)]
    done, total_bytes, bad = 0, 0, None
    with ThreadPoolExecutor(max_workers=WORKERS) as ex:
        for w in range(0, len(seeds), WORKERS):
            outs = list(ex.map(lambda s: run_chunk(bindir, s, known), seeds[w:w + WORKERS]))
            for o in outs:
                if "error" in o:
                    bad = bad or o
                    continue
                done += 1
                total_bytes += o["bytes"]
                ctx.cov["evaluations"] += o["n"]
                ctx.cov["traces_validated_against_impl"] += o["agree"]
                ctx.cov["distinct_nontrivial"] += o["nontrivial"]
                add_hist(hist, o["hist"])
                if (o["n_spec_viol"] or o["n_disagree"]) and bad is None:
                    bad = o
            if bad:
                break
            core.log(f"[C21] thorough: {done + 1}/{THOROUGH_CHUNKS} chunks of {CHUNK} histories agree ({time.time() - t0:.0f}s)")
    ctx.cov["input_distribution"] = hist
    ctx.cov["distinct_nontrivial_note"] = "distinct inputs are counted per chunk of 2000 (a history repeated in another chunk counts twice)"
    ctx.cov["thorough_chunks"] = {"chunks_of_2000_after_the_first": done, "seeds": f"{seeds[0]}..{seeds[-1]}",
                                  "impl_output_bytes": total_bytes, "wall_s": round(time.time() - t0, 1)}
    if not bad:
        return
    if "error" in bad:
        ctx.violation({"kind": bad["error"], "chunk_seed": bad["seed"], "stderr": bad["stderr"]}, no_input=True)
    elif bad["spec_viol"]:
        v = shrink(ctx, bad["spec_viol"][0], bindir)
        ctx.violation({"kind": "implementation-violates-spec", "case_id": v[0], "input": v[1], "impl": v[2], "model": v[3],
                       "spec": v[4], "inK": v[5], "chunk_seed": bad["seed"], "original_input": bad["spec_viol"][0][1],
                       "others": [x[1] for x in bad["spec_viol"][1:]]})
    else:
        d = bad["disagree"][0]
        r = shrink_input(bindir, d[1])
        inp, rec = r if r else (d[1], (d[2], d[3], "-", "-"))
        ctx.violation({"kind": "model-implementation-disagreement", "case_id": d[0], "input": inp, "impl": rec[0],
                       "model": rec[1], "spec": rec[2], "chunk_seed": bad["seed"], "original_input": d[1],
                       "others": [x[1] for x in bad["disagree"][1:]]})


def run(ctx):
    ctx.cov["rule"] = ("operation histories of length 1..40 over the 6 paths /verif-nonexistent/m0.er .. m5.er: add_node_if_none 18 %, "
                       "inc_ref 42 % (half of them between registered ids, so chains and cycle refusals are frequent; the target is "
                       "sometimes unregistered = dangling edge), remove 12 %, rename_path 12 % (onto unused / registered / any path, "
                       "including old = new), sort 16 %; per-history universe of 2..6 paths (small = dense); after EVERY operation: "
                       "state dump, get_node x6, depends_on x36, deep_depends_on x36, children x6, parents x6, ancestors x6, compared "
                       "with the Lean model and with an independent reference graph; distinct by input text; non-trivial = at least "
                       "one successful inc_ref and a non-empty reachability answer; corpus/C21 first; thorough = 100 chunks of 2 000")
    ctx.assumptions = ["the 6 module paths do not exist on disk, so NormalizedPathBuf::is_dir() is false (the is_dir early returns / "
                       "DEBUG panics of add_node_if_none and inc_ref are outside the model)",
                       "hash-set iteration order is adopted from the implementation's state dump (only the order; the dump must be a "
                       "permutation of the model's own dependency lists, otherwise nothing is adopted); it influences tsort's output "
                       "order only, and every theorem holds for all orders",
                       "on graphs with a dangling edge the specification only demands that sort reports an error"]
    core.standard_check(ctx, harness_bin=HARNESS, n_quick=CHUNK, n_thorough=CHUNK, nontrivial=nontrivial, shrink=shrink,
                        search_more=search_more, post=post, extra_gen_args=("--stats-file", stats_file(ctx)),
                        trusted=["executable reference graph XG inside Driver/C21.lean (naive transitive closure; mirrors "
                                 "ErgVerif/C21/Spec.lean, which the theorems are about)",
                                 "adoption of the implementation's hash-set iteration order by the driver (checked to be a permutation)"])


def replay(ctx, path):
    core.standard_replay(ctx, path, HARNESS)
