#!/usr/bin/env python3
"""Regenerates the generated tables at the end of DESIGN.md (between the BEGIN/END GENERATED markers) from MANIFEST.json,
known_findings.json, seeded/*/{meta,result,confirm}.json and `git -C /repo log`."""
import json, os, re, subprocess, glob
V = os.path.dirname(os.path.dirname(os.path.abspath(__file__)))
man = json.load(open(os.path.join(V, "MANIFEST.json")))
kf = json.load(open(os.path.join(V, "known_findings.json")))
props = [json.loads(l) for l in open(os.path.join(V, "properties.jsonl"))]
out = ["<!-- BEGIN GENERATED (tools/mkdesign_tables.py) -->", ""]
out += ["### 12.5 Claimed properties, level and technique (from MANIFEST.json)", "", "| Property | Technique | Obligations (last evidence) | Notes |", "|---|---|---|---|"]
for c in man["checks"]:
    p = c["property_id"]
    ob = ""
    try:
        ev = json.load(open(os.path.join(V, "evidence", p + ".json")))
        cv = ev["coverage"]
        ob = f"{cv.get('discharged')}/{cv.get('obligations')} theorems+examples; {cv.get('evaluations')} cases ({ev['tier']})"
    except Exception:
        pass
    out.append(f"| {p} | {c.get('technique','')} | {ob} | notes/{p}.md |")
if man.get("not_applicable"):
    out += ["", "Not claimed: " + ", ".join(f"{n['property_id']} ({n['reason'][:80]})" for n in man["not_applicable"])]
out += ["", "### 12.6 Defects found on the pinned tree", "", "| id | property | status | what failed | site / commit |", "|---|---|---|---|---|"]
for e in kf:
    what = e.get("summary", "").replace("|", "\\|").replace("\n", " ")
    site = (e.get("commit") or "") + " " + e.get("site", "")
    out.append(f"| {e['id']} | {e['property']} | {e['status']} | {what[:300]} | {site.strip()[:120].replace('|','/')} |")
fixes = subprocess.run(["git", "-C", "/repo", "log", "--reverse", "--format=%h %s", "--grep", "^fix:"], capture_output=True, text=True).stdout.strip().splitlines()
out += ["", f"`fix:` commits in /repo ({len(fixes)}):", ""] + [f"* `{l.split()[0]}` {l.split(' ',1)[1]}" for l in fixes]
hooks = subprocess.run(["git", "-C", "/repo", "log", "--reverse", "--format=%h %s", "--grep", "^verif-hook:"], capture_output=True, text=True).stdout.strip().splitlines()
out += ["", f"`verif-hook:` commits ({len(hooks)}, all `#[cfg(erg_verif)]`, add-only):", ""] + [f"* `{l.split()[0]}` {l.split(' ',1)[1]}" for l in hooks]
out += ["", "### 12.7 Seeded changes (written by independent agents that saw only the property text) and which check catches them", "",
        "| seeded id | property | what the change does | needs | confirmed (suite passes, demo flips) | check outcome |", "|---|---|---|---|---|---|"]
for d in sorted(glob.glob(os.path.join(V, "seeded", "*"))):
    sid = os.path.basename(d)
    try:
        meta = json.load(open(os.path.join(d, "meta.json")))
    except Exception:
        continue
    conf = res = {}
    try: conf = json.load(open(os.path.join(d, "confirm.json")))
    except Exception: pass
    try: res = json.load(open(os.path.join(d, "result.json")))
    except Exception: pass
    outcome = []
    for p, r in res.get("checks", {}).items():
        if r.get("caught"):
            outcome.append(f"{p}: VIOLATION" + (" (concrete replay)" if r.get("concrete_input") else " (no-failing-input-found)"))
        else:
            outcome.append(f"{p}: missed (rc {r.get('rc')})")
    cf = "yes" if conf.get("confirmed") else ("no: " + json.dumps({k: conf.get(k) for k in ("applies", "suite_ok", "demo_flips")}) if conf else "pending")
    out.append(f"| {sid} | {meta.get('property')} | {str(meta.get('summary',''))[:260].replace('|','/')} | {str(meta.get('manifests_when',''))[:200].replace('|','/')} | {cf} | {'; '.join(outcome) or 'pending'} |")
out += ["", "<!-- END GENERATED -->"]
p = os.path.join(V, "DESIGN.md")
s = open(p).read()
block = "\n".join(out) + "\n"
if "<!-- BEGIN GENERATED" in s:
    s = re.sub(r"<!-- BEGIN GENERATED.*?<!-- END GENERATED -->\n", lambda m: block, s, flags=re.S)
else:
    s = s.rstrip("\n") + "\n\n" + block
open(p, "w").write(s)
print("DESIGN.md tables regenerated")
