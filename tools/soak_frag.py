#!/usr/bin/env python3
"""tools/soak_frag.py <first-seed> <n-seeds> <programs-per-seed> — behavioural soak of the fragment generator against the real
compiler (stream B of C01): prints every mismatch that no listed finding explains, grouped by a crude signature."""
import collections, json, os, sys
V = os.path.dirname(os.path.dirname(os.path.abspath(__file__)))
sys.path.insert(0, V)
from vlib import core, fraggen, fragrun
from checks import c01
s0, ns, n = int(sys.argv[1]), int(sys.argv[2]), int(sys.argv[3])
ok, _, erg = core.erg_binary()
ctx = core.Ctx("C01", "quick", 0)
groups = collections.defaultdict(list)
tot = acc = 0
for seed in range(s0, s0 + ns):
    progs = []
    for i in range(n):
        g = fraggen.Gen(fraggen.Rng(seed * 104729 + 500000 + i), big_lits=(i % 2 == 0), hard_strings=(i % 4 == 0))
        p = g.program()
        progs.append((f"s{seed}_{i}", fraggen.to_erg(p), fraggen.to_python(p), sorted(g.features | fraggen.tree_features(p))))
    res = fragrun.run_programs([(a, b, c) for a, b, c, _ in progs], erg, jobs=6)
    for (pid, src, py, feats), r in zip(progs, res):
        tot += 1
        if r["erg_class"] in ("rejected", "no-pyc"):
            continue
        acc += 1
        if (r["erg_class"], r["erg_out"]) != (r["py_class"], r["py_out"]):
            e = c01.known_behavioural(ctx, list(feats) + c01.derived_features(py, r), r)
            if e is None:
                sig = (r["erg_class"], r["py_class"], (r["erg_err"].strip().splitlines() or [""])[-1][:80])
                groups[sig].append((pid, src, r["erg_out"][-200:], r["py_out"][-200:]))
    print(f"seed {seed}: total {tot} accepted {acc} unexplained groups {len(groups)}", flush=True)
for sig, items in groups.items():
    print("=" * 100); print(sig, len(items))
    pid, src, eo, po = items[0]
    print(pid); print(src); print("erg:", repr(eo)); print("py :", repr(po))
