#!/usr/bin/env python3
"""tools/mkmutprompt.py <name> Cxx Cyy ...  — prepares /tmp/mut_<name>/{wt,seeded_out,prompt.txt} for a seeded-change agent.
The agent gets only the brief and the property texts (nothing from /verif)."""
import json, os, subprocess, sys
V = os.path.dirname(os.path.dirname(os.path.abspath(__file__)))
name, ids = sys.argv[1], sys.argv[2:]
d = f"/tmp/mut_{name}"
os.makedirs(d + "/seeded_out", exist_ok=True)
if not os.path.exists(d + "/wt"):
    subprocess.run(["git", "-C", "/repo", "worktree", "add", "-q", "--detach", d + "/wt", "HEAD"], check=True)
brief = open(os.path.join(V, "work", "mutant_brief.md")).read().replace(
    "(independent of /verif — do not read anything under /verif except this file)", "(do not read anything under /verif)")
props = {json.loads(l)["id"]: json.loads(l) for l in open(os.path.join(V, "properties.jsonl"))}
txt = "\n\n".join(f"### {p['id']} — {p['title']}\nStatement: {p['statement']}\nQuantified over: {p['quantifier']['text']}\n"
                  f"Code to look at: {', '.join(p['anchors']['files'])}" for p in (props[i] for i in ids))
open(d + "/prompt.txt", "w").write(brief + f"\n\n## Your worktree\n`{d}/wt` (a git worktree of the repository at its current HEAD; output directory "
                                   f"`{d}/seeded_out/`).\n\n## Your properties\n\n" + txt + "\n")
print(d + "/prompt.txt")
