#!/usr/bin/env python3
"""Regenerate MANIFEST.json from the MANIFEST_ENTRY dict of every checks/cNN.py (single source of truth per property).
Properties without a check module are listed under not_applicable with the reason they are not claimed (yet)."""
import importlib
import json
import os
import subprocess
import sys

V = os.path.dirname(os.path.dirname(os.path.abspath(__file__)))
sys.path.insert(0, V)
props = [json.loads(l)["id"] for l in open(os.path.join(V, "properties.jsonl"))]
checks, na = [], []
NOT_CLAIMED = {}
try:
    NOT_CLAIMED = json.load(open(os.path.join(V, "not_claimed.json")))
except FileNotFoundError:
    pass
tracked = set(subprocess.run(["git", "-C", V, "ls-files", "checks"], capture_output=True, text=True).stdout.split())
HOLD = set(os.environ.get("MANIFEST_HOLD", "").split())   # properties whose check exists but is not green yet
for p in props:
    f = os.path.join(V, "checks", p.lower() + ".py")
    entry = None
    if os.path.exists(f) and ("checks/" + p.lower() + ".py") in tracked and p not in HOLD:
        mod = importlib.import_module("checks." + p.lower())
        entry = getattr(mod, "MANIFEST_ENTRY", None)
    if entry:
        e = {"property_id": p, "quick_cmd": f"./check {p} --tier quick", "thorough_cmd": f"./check {p} --tier thorough",
             "evidence_file": f"evidence/{p}.json", "replay_cmd_template": f"./check {p} --replay {{path}}",
             "engine": "lean-proof+correspondence"}
        e.update(entry)
        e["level_claimed"].setdefault("design_ref", f"DESIGN.md §8 {p}")
        checks.append(e)
    else:
        na.append({"property_id": p, "reason": NOT_CLAIMED.get(p, "no check built yet: the Lean model/theorems and the tie described in DESIGN.md §8 "
                   "for this property are not implemented at this commit, so nothing is claimed")})
hook_commits = []
try:
    out = subprocess.run(["git", "-C", "/repo", "log", "--format=%h %s"], capture_output=True, text=True).stdout
    hook_commits = [l.split()[0] for l in out.splitlines() if l.split(" ", 1)[1].startswith("verif-hook:")]
except Exception:
    pass
m = {"version": 1, "setup_cmd": "./check setup",
     "hooks": {"guard": "erg_verif",
               "enable": "rustc --cfg erg_verif, set through /verif/harness*/.cargo/config.toml (the harness crates depend on /repo/crates/* by path; /repo/target is never used)",
               "baseline_off_cmd": "cd /repo && cargo nextest run --workspace --no-fail-fast --tool-config-file pb:/w/lib/nextest.toml --profile pb --test-threads 8 --offline",
               "source_commits": hook_commits, "add_only": True},
     "engines": [{"name": "lean-proof+correspondence", "path": "/verif/check", "serves_properties": [c["property_id"] for c in checks],
                  "kind_free_text": "Lean 4 theorems about hand-written models (lean/ErgVerif/Cxx/{Model,Proofs,Props}.lean) tied to /repo on every run by "
                                    "differential correspondence (harness/ + harness-els/ Rust crates calling the real code in-process, compiled Lean model "
                                    "drivers lean/Driver/Cxx.lean), regenerated tables (lean/ErgVerif/Gen) and Lean-verified validators run on emitted artefacts"}],
     "checks": checks, "not_applicable": na,
     "notes": "./check <id> [--tier quick|thorough] [--replay file]; ERG_REPO=<worktree> points the machinery at a scratch worktree (seeded-change testing). "
              "known_findings.json lists recorded findings and fixed defects. DESIGN.md explains approach, trusted base and per-property limits."}
json.dump(m, open(os.path.join(V, "MANIFEST.json"), "w"), indent=1, ensure_ascii=False)
print(f"{len(checks)} claimed, {len(na)} not claimed")
