#!/usr/bin/env python3
"""tools/run_all.py [--tier quick] [--seed N] [--jobs J] [Cxx ...] — run the claimed checks (MANIFEST.json) and summarise
rc / wall / VIOLATION and KNOWN-FINDING lines / evidence validity into work/run_all_<seed>.json."""
import json, os, subprocess, sys, time
from concurrent.futures import ThreadPoolExecutor
V = os.path.dirname(os.path.dirname(os.path.abspath(__file__)))
av = sys.argv[1:]
tier, seed, jobs, only = "quick", "0", 1, []
i = 0
while i < len(av):
    if av[i] == "--tier": tier = av[i+1]; i += 1
    elif av[i] == "--seed": seed = av[i+1]; i += 1
    elif av[i] == "--jobs": jobs = int(av[i+1]); i += 1
    else: only.append(av[i])
    i += 1
m = json.load(open(os.path.join(V, "MANIFEST.json")))
checks = [c for c in m["checks"] if not only or c["property_id"] in only]
def one(c):
    p = c["property_id"]
    ev = os.path.join(V, c["evidence_file"])
    try: os.remove(ev)
    except FileNotFoundError: pass
    t = time.time()
    cmd = c["quick_cmd"] if tier == "quick" else c.get("thorough_cmd", c["quick_cmd"])
    r = subprocess.run(cmd, shell=True, cwd=V, env=dict(os.environ, VERIF_SEED=seed, VERIF_TIER=tier), capture_output=True, text=True)
    lines = [l for l in r.stdout.splitlines() if l.startswith(("VIOLATION", "KNOWN-FINDING"))]
    evok = "missing"
    if os.path.exists(ev):
        v = subprocess.run(["python3-vt", "-c", "import json,jsonschema,sys;jsonschema.validate(json.load(open(sys.argv[1])),json.load(open('/root/.vp/EVIDENCE.schema.json')))", ev], capture_output=True, text=True)
        evok = "valid" if v.returncode == 0 else "INVALID: " + v.stderr[-200:]
    res = {"property": p, "rc": r.returncode, "wall_s": round(time.time() - t, 1), "lines": lines, "evidence": evok, "stderr_tail": r.stderr[-400:] if r.returncode not in (0,) else ""}
    print(p, res["rc"], res["wall_s"], evok, [l[:100] for l in lines if l.startswith("VIOLATION")], flush=True)
    return res
with ThreadPoolExecutor(max_workers=jobs) as ex:
    out = list(ex.map(one, checks))
os.makedirs(os.path.join(V, "work"), exist_ok=True)
json.dump(out, open(os.path.join(V, "work", f"run_all_{tier}_{seed}.json"), "w"), indent=1)
bad = [o for o in out if o["rc"] != 0 or o["evidence"] != "valid"]
print("SUMMARY:", len(out), "checks;", len(bad), "need attention:", [o["property"] for o in bad])
