#!/usr/bin/env python3
"""Run registered checks against a seeded change:  tools/run_seeded.py <seeded-id> [Cxx ...]
Creates a scratch worktree of /repo (HEAD), applies seeded/<id>/patch.diff, runs `ERG_REPO=<wt> ./check Cxx --tier quick` for the
property named in meta.json (or the ones given), stores the outcome in seeded/<id>/result.json, removes the worktree and its scratch."""
import json
import os
import shutil
import subprocess
import sys
import time
import hashlib

V = os.path.dirname(os.path.dirname(os.path.abspath(__file__)))


def main():
    sid = sys.argv[1]
    d = os.path.join(V, "seeded", sid)
    meta = json.load(open(os.path.join(d, "meta.json")))
    props = sys.argv[2:] or [meta["property"]]
    wt = f"/tmp/seedwt_{sid}"
    subprocess.run(["git", "-C", "/repo", "worktree", "remove", "--force", wt], capture_output=True)
    r = subprocess.run(["git", "-C", "/repo", "worktree", "add", "-q", "--detach", wt, "HEAD"], capture_output=True, text=True)
    if r.returncode != 0:
        print("worktree failed:", r.stderr)
        return 2
    res = {"seeded": sid, "repo_head": subprocess.run(["git", "-C", "/repo", "rev-parse", "--short", "HEAD"], capture_output=True, text=True).stdout.strip(),
           "checks": {}}
    try:
        a = subprocess.run(["git", "-C", wt, "apply", os.path.join(d, "patch.diff")], capture_output=True, text=True)
        if a.returncode != 0:
            res["apply_error"] = a.stderr
            print("patch does not apply:", a.stderr)
        else:
            for p in props:
                t = time.time()
                env = dict(os.environ, ERG_REPO=wt)
                c = subprocess.run([os.path.join(V, "check"), p, "--tier", "quick"], cwd=V, env=env, capture_output=True, text=True)
                lines = [l for l in c.stdout.splitlines() if l.startswith("VIOLATION") or l.startswith("KNOWN-FINDING")]
                replay = None
                for l in lines:
                    if l.startswith("VIOLATION") and "replay=" in l:
                        rp = l.split("replay=")[1].split()[0]
                        try:
                            replay = json.load(open(rp))
                        except Exception:
                            replay = rp
                res["checks"][p] = {"rc": c.returncode, "lines": lines, "wall_s": round(time.time() - t, 1),
                                    "caught": c.returncode == 1 and any(l.startswith("VIOLATION") for l in lines),
                                    "concrete_input": bool(lines) and not any("no-failing-input-found" in l for l in lines if l.startswith("VIOLATION")),
                                    "replay_excerpt": json.dumps(replay, ensure_ascii=False)[:1500] if replay else None}
                print(p, res["checks"][p]["rc"], lines)
    finally:
        subprocess.run(["git", "-C", "/repo", "worktree", "remove", "--force", wt], capture_output=True)
        h = hashlib.sha1(wt.encode()).hexdigest()[:10]
        shutil.rmtree(os.path.join("/tmp", ".vsx-" + h), ignore_errors=True)
        # evidence files were rewritten by the run against the scratch tree: restore the committed ones
        subprocess.run(["git", "-C", V, "checkout", "--"] + [f"evidence/{p}.json" for p in props], capture_output=True)
    json.dump(res, open(os.path.join(d, "result.json"), "w"), indent=1, ensure_ascii=False)
    return 0


if __name__ == "__main__":
    sys.exit(main())
