#!/usr/bin/env python3
"""tools/confirm_seeded.py <seeded-id> [<seeded-id> ...] — independent confirmation of seeded changes in a scratch worktree.
 (1) every patch applies to /repo's HEAD; (2) with ALL the given patches applied together (they must touch disjoint code) the
 workspace builds and the 230-test baseline passes (tests that fail in the full run are re-run alone up to 3 times: the els tests
 are timing-sensitive under load); (3) for each change separately: its demonstration fails with only that change applied and
 passes on the clean tree. Writes seeded/<id>/confirm.json for each."""
import json, os, re, shutil, subprocess, sys, time
V = os.path.dirname(os.path.dirname(os.path.abspath(__file__)))
ids = sys.argv[1:]
tag = "_".join(i.replace("-", "") for i in ids)[:60]
wt = f"/tmp/confwt_{tag}"
env = dict(os.environ, CARGO_NET_OFFLINE="true")
def sh(cmd, cwd=None, timeout=10800):
    try:
        p = subprocess.run(cmd, shell=True, cwd=cwd, env=env, capture_output=True, text=True, timeout=timeout)
        return p.returncode, p.stdout + p.stderr
    except subprocess.TimeoutExpired:
        return 124, "TIMEOUT"
subprocess.run(["git", "-C", "/repo", "worktree", "remove", "--force", wt], capture_output=True)
shutil.rmtree(wt, ignore_errors=True)
sh(f"git -C /repo worktree add -q --detach {wt} HEAD")
res = {i: {"seeded": i, "at": time.strftime("%F %T"), "group": ids} for i in ids}
try:
    applied = []
    for i in ids:
        rc, out = sh(f"git -C {wt} apply {V}/seeded/{i}/patch.diff")
        res[i]["applies_in_group"] = rc == 0
        if rc == 0:
            applied.append(i)
        else:
            res[i]["apply_error"] = out[-300:]
    skip_suite = os.environ.get("CONFIRM_SKIP_SUITE") == "1"
    rc, out = (0, "") if skip_suite else sh("cargo nextest run --workspace --no-fail-fast --tool-config-file pb:/w/lib/nextest.toml --profile pb --test-threads 8 --offline", cwd=wt)
    m = re.search(r"(\d+) tests run: (\d+) passed(?: \((\d+) slow\))?(?:, (\d+) failed)?", out)
    suite = m.group(0) if m else out[-400:]
    failed = sorted(set(re.findall(r"^\s+FAIL \[.*?\] \(\s*\d+/\d+\) (\S+) (\S+)", out, re.M)))
    still = []
    for crate, test in failed:
        ok = False
        for _ in range(3):
            rc2, o2 = sh(f"cargo nextest run --offline -p {crate.split('::')[0]} {test}", cwd=wt, timeout=1800)
            if rc2 == 0:
                ok = True
                break
        if not ok:
            still.append(f"{crate} {test}")
    compiles = "could not compile" not in out
    if skip_suite:
        for i in ids:
            try:
                old = json.load(open(os.path.join(V, "seeded", i, "confirm.json")))
                res[i].update({k: old[k] for k in ("suite_with_group", "failed_in_full_run", "failed_when_run_alone", "compiles", "suite_ok", "group") if k in old})
            except Exception:
                pass
    for i in ([] if skip_suite else applied):
        res[i].update({"suite_with_group": suite, "failed_in_full_run": [" ".join(f) for f in failed], "failed_when_run_alone": still,
                       "compiles": compiles, "suite_ok": bool(m) and compiles and not still})
    for i in ids:
        d = os.path.join(V, "seeded", i)
        dd = f"/tmp/confdemo_{i}"
        shutil.rmtree(dd, ignore_errors=True)
        shutil.copytree(d, dd)
        sh(f"git -C {wt} checkout -- . && git -C {wt} clean -fdq -e target -e .ergpath")
        rc, out = sh(f"git -C {wt} apply {d}/patch.diff")
        res[i]["applies"] = rc == 0
        if os.path.exists(os.path.join(dd, "demo.sh")):
            # the demonstrations use the worktree's own build (target/debug/erg, runtime library under <wt>/.ergpath)
            prep = (f"cargo build --offline && mkdir -p {wt}/.ergpath && rsync -a --delete {wt}/crates/erg_compiler/lib {wt}/.ergpath/")
            sh(prep, cwd=wt, timeout=3600)
            rcw, ow = sh(f"ERG_PATH={wt}/.ergpath bash {dd}/demo.sh {wt}", cwd=dd, timeout=3600)
            sh(f"git -C {wt} checkout -- . && git -C {wt} clean -fdq -e target -e .ergpath")
            sh(prep, cwd=wt, timeout=3600)
            rco, oo = sh(f"ERG_PATH={wt}/.ergpath bash {dd}/demo.sh {wt}", cwd=dd, timeout=3600)
            res[i].update({"demo_with_change_rc": rcw, "demo_with_change_tail": ow[-500:], "demo_without_change_rc": rco,
                           "demo_without_change_tail": oo[-300:], "demo_flips": rcw != 0 and rco == 0})
        else:
            res[i]["demo_flips"] = None
            res[i]["demo_note"] = "no demo.sh"
        shutil.rmtree(dd, ignore_errors=True)
        res[i]["confirmed"] = bool(res[i].get("applies") and res[i].get("suite_ok") and res[i].get("demo_flips"))
finally:
    subprocess.run(["git", "-C", "/repo", "worktree", "remove", "--force", wt], capture_output=True)
    shutil.rmtree(wt, ignore_errors=True)
for i in ids:
    json.dump(res[i], open(os.path.join(V, "seeded", i, "confirm.json"), "w"), indent=1)
    print(json.dumps({k: res[i].get(k) for k in ["seeded", "applies", "suite_with_group", "failed_when_run_alone", "demo_with_change_rc", "demo_without_change_rc", "confirmed"]}))
