#!/usr/bin/env python3
"""tools/confirm_demo.py <seeded-id>... — demonstration part of the confirmation for changes whose demo needs another calling
convention than `demo.sh <worktree>` (erg binary as first argument / $ERG, a bare demo.er, a demo.py): in ONE scratch worktree, for
each change: find the calling convention under which the demonstration PASSES on the clean tree, then apply the patch, rebuild, and
require the same command to FAIL. Updates seeded/<id>/confirm.json (the suite part comes from tools/confirm_seeded.py)."""
import json, os, shutil, subprocess, sys
V = os.path.dirname(os.path.dirname(os.path.abspath(__file__)))
ids = sys.argv[1:]
wt = "/tmp/confdemo_wt"
env = dict(os.environ, CARGO_NET_OFFLINE="true")
def sh(cmd, cwd=None, timeout=3600, extra=None):
    e = dict(env); e.update(extra or {})
    try:
        p = subprocess.run(cmd, shell=True, cwd=cwd, env=e, capture_output=True, text=True, timeout=timeout)
        return p.returncode, (p.stdout + p.stderr)[-600:]
    except subprocess.TimeoutExpired:
        return 124, "TIMEOUT"
subprocess.run(["git", "-C", "/repo", "worktree", "remove", "--force", wt], capture_output=True)
shutil.rmtree(wt, ignore_errors=True)
sh(f"git -C /repo worktree add -q --detach {wt} HEAD")
PY = "/root/.pyenv/versions/3.11.7/bin/python3.11"
def prep():
    return sh(f"cargo build --offline && mkdir -p {wt}/.ergpath && rsync -a --delete {wt}/crates/erg_compiler/lib {wt}/.ergpath/", cwd=wt)
def styles(dd):
    ex = {"ERG_PATH": f"{wt}/.ergpath", "ERG": f"{wt}/target/debug/erg", "WT": wt, "RUNS": "6"}
    erg = f"{wt}/target/debug/erg"
    out = []
    if os.path.exists(f"{dd}/demo.sh"):
        out += [("demo.sh <erg binary>", f"bash {dd}/demo.sh {erg}", ex), ("ERG=<erg binary> demo.sh", f"bash {dd}/demo.sh", ex),
                ("demo.sh <worktree>", f"bash {dd}/demo.sh {wt}", ex)]
    if os.path.exists(f"{dd}/demo.py"):
        out += [("python3.11 demo.py <worktree>", f"{PY} {dd}/demo.py {wt}", ex)]
    if os.path.exists(f"{dd}/demo.er"):
        out += [("erg demo.er (run)", f"{erg} {dd}/demo.er", ex), ("erg check demo.er", f"{erg} check {dd}/demo.er", ex)]
    return out
try:
    for i in ids:
        d = os.path.join(V, "seeded", i)
        dd = f"/tmp/confdemo2_{i}"
        shutil.rmtree(dd, ignore_errors=True); shutil.copytree(d, dd)
        sh(f"git -C {wt} checkout -- . && git -C {wt} clean -fdq -e target -e .ergpath")
        prep()
        chosen = None
        for name, cmd, ex in styles(dd):
            rc, out = sh(cmd, cwd=dd, extra=ex)
            if rc == 0:
                chosen = (name, cmd, ex, out)
                break
        try:
            conf = json.load(open(os.path.join(d, "confirm.json")))
        except Exception:
            conf = {"seeded": i}
        if not chosen:
            conf.update({"demo_note": "no calling convention under which the demonstration passes on the clean tree was found", "demo_flips": False})
        else:
            name, cmd, ex, out0 = chosen
            rc, o = sh(f"git -C {wt} apply {d}/patch.diff")
            prep()
            rcw, ow = sh(cmd, cwd=dd, extra=ex)
            conf.update({"demo_convention": name, "demo_without_change_rc": 0, "demo_without_change_tail": out0[-300:],
                         "demo_with_change_rc": rcw, "demo_with_change_tail": ow[-500:], "demo_flips": rcw != 0, "applies": rc == 0})
        conf["confirmed"] = bool(conf.get("applies") and conf.get("suite_ok") and conf.get("demo_flips"))
        json.dump(conf, open(os.path.join(d, "confirm.json"), "w"), indent=1)
        print(i, conf.get("demo_convention"), conf.get("demo_with_change_rc"), "confirmed" if conf["confirmed"] else "NOT", flush=True)
        shutil.rmtree(dd, ignore_errors=True)
finally:
    subprocess.run(["git", "-C", "/repo", "worktree", "remove", "--force", wt], capture_output=True)
    shutil.rmtree(wt, ignore_errors=True)
