//! Program generator and in-process compilation shared by the C14 and C15 harnesses
//! (`#[path = "../c14c15/progs.rs"] mod progs;`). Everything random derives from the caller's `Rng`.
use erg_common::config::ErgConfig;
use erg_common::io::Input;
use erg_common::python_util::PythonVersion;
use erg_compiler::ty::codeobj::CodeObj;
use erg_compiler::Compiler;
use erg_harness::Rng;

pub const MINORS: [u8; 5] = [7, 8, 9, 10, 11];

/// a magic number that `get_ver_from_magic_num` maps to the given minor version
pub fn magic_of(minor: u8) -> u32 {
    match minor {
        6 => 3379,
        7 => 3394,
        8 => 3413,
        9 => 3425,
        10 => 3439,
        11 => 3495,
        _ => 3531,
    }
}

/// compile `src` for target 3.<minor> with the real pipeline (parse, check, link, desugar, optimise, codegen)
pub fn compile(src: &str, minor: u8) -> Result<CodeObj, String> {
    let mut cfg = ErgConfig::default();
    cfg.input = Input::str(src.to_string());
    cfg.target_version = Some(PythonVersion::new(3, Some(minor), Some(0)));
    cfg.py_magic_num = Some(magic_of(minor));
    cfg.quiet_repl = true;
    let mut compiler = Compiler::new(cfg);
    match compiler.compile(src.to_string(), "exec") {
        Ok(arti) => Ok(arti.object),
        Err(e) => Err(format!("{} error(s): {}", e.errors.len(), e.errors.iter().next().map(|x| x.core.main_message.clone()).unwrap_or_default())),
    }
}

fn int_lit(rng: &mut Rng) -> String {
    let pool: [i64; 14] = [0, 1, 2, 7, 255, 256, 65535, 65536, 2147483647, -1, -2, -128, -2147483647, 1000000];
    if rng.chance(1, 4) { format!("{}", rng.range(-300, 300)) } else { format!("{}", rng.pick(&pool)) }
}

fn nat_lit(rng: &mut Rng) -> String {
    let pool: [u64; 14] = [0, 1, 2, 255, 256, 65536, 2147483647, 2147483648, 2147483649, 4294967295, 4294967296, 4294967297,
        9223372036854775808, 18446744073709551615];
    if rng.chance(1, 3) { format!("{}", rng.below(1000)) } else { format!("{}", rng.pick(&pool)) }
}

fn float_lit(rng: &mut Rng) -> String {
    let pool = ["0.0", "-0.0", "1.5", "-2.25", "12345678901234567890.5", "0.000001", "3.141592653589793", "0.1", "123456789.125"];
    rng.pick(&pool).to_string()
}

fn str_lit(rng: &mut Rng) -> String {
    let pool = ["", "a", "hello", "héllo", "日本語", "😀", "a😀b", "x y", "tab\\there", "quote\\\"q", "nl\\n", "ÿ", "\u{80}", "\u{7ff}\u{800}",
        "\u{ffff}", "\u{10000}", "\u{10ffff}"];
    let mut s = rng.pick(&pool).to_string();
    if rng.chance(1, 12) {
        // long strings: around the ShortAscii limit (255/256 bytes) and beyond
        let n = *rng.pick(&[254usize, 255, 256, 257, 300, 70000]);
        s = "q".repeat(n);
        if rng.chance(1, 3) { s.push('é'); }
    }
    format!("\"{}\"", s)
}

/// one top-level statement (possibly several lines); `k` makes the defined names unique
fn stmt(rng: &mut Rng, k: usize) -> String {
    match rng.below(30) {
        0 => format!("i{k} = {}\nprint! i{k}\n", int_lit(rng)),
        1 => format!("n{k} = {}\nprint! n{k}\n", nat_lit(rng)),
        2 => format!("f{k} = {}\nprint! f{k}\n", float_lit(rng)),
        3 => format!("s{k} = {}\nprint! s{k}\n", str_lit(rng)),
        4 => format!("print! {} + {}\n", nat_lit(rng), nat_lit(rng)),
        5 => format!("add{k} x: Int, y: Int = x + y\nprint! add{k}({}, {})\n", int_lit(rng), int_lit(rng)),
        6 => format!("l{k} = [{}, {}, {}]\nprint! l{k}\n", nat_lit(rng), nat_lit(rng), nat_lit(rng)),
        7 => format!("t{k} = ({}, {}, {})\nprint! t{k}\n", int_lit(rng), str_lit(rng), float_lit(rng)),
        8 => format!("for! 0..<{}, i =>\n    print! i\n", rng.below(5) + 1),
        9 => format!("c{k} = !0\nwhile! do! c{k} < {}, do!:\n    c{k}.inc!()\nprint! c{k}\n", rng.below(4) + 1),
        10 => format!("if! {} > {}:\n    do!:\n        print! \"yes\"\n    do!:\n        print! \"no\"\n", int_lit(rng), int_lit(rng)),
        11 => format!("r{k} = if {} == {}, do {}, do {}\nprint! r{k}\n", nat_lit(rng), nat_lit(rng), str_lit(rng), str_lit(rng)),
        12 => format!("mk{k} x: Int =\n    inner y: Int = x + y\n    inner\ng{k} = mk{k} {}\nprint! g{k} {}\n", int_lit(rng), int_lit(rng)),
        13 => format!("cnt{k}!() =\n    acc = !0\n    step!() =\n        acc.inc!()\n    step!()\n    step!()\n    acc\nprint! cnt{k}!()\n"),
        14 => format!("m{k} = match {}:\n    0 -> \"zero\"\n    1 -> \"one\"\n    _ -> \"many\"\nprint! m{k}\n", rng.below(3)),
        15 => format!("P{k} = Class {{ .x = Int; .y = Int }}\nP{k}.\n    sum self = self.x + self.y\np{k} = P{k}.new {{ .x = {}; .y = {} }}\nprint! p{k}.sum()\n", rng.below(100), rng.below(100)),
        16 => format!("d{k} = {{\"a\": {}, \"b\": {}}}\nprint! d{k}[\"a\"]\n", nat_lit(rng), nat_lit(rng)),
        17 => format!("lam{k} = (x: Int) -> x * {}\nprint! lam{k} {}\n", rng.below(10), int_lit(rng)),
        18 => format!("a{k} = ![{}]\na{k}.push! {}\nprint! a{k}\n", rng.below(10), rng.below(10)),
        19 => format!("rec{k} = {{ .a = {}; .b = {} }}\nprint! rec{k}.a\n", int_lit(rng), str_lit(rng)),
        20 => format!("fc{k}(n: Nat): Nat =\n    if n == 0, do 1, do n * fc{k}(n - 1)\nprint! fc{k} {}\n", rng.below(6)),
        21 => format!("assert {} < {}\n", rng.below(3) + 1, 10),
        22 => format!("big{k} = [{}]\nprint! big{k}[0]\n", (0..(rng.below(3) * 130 + 3)).map(|j| format!("{}", j * 7)).collect::<Vec<_>>().join(", ")),
        23 => format!("u{k} = \"\\{{{}}} and \\{{{}}}\"\nprint! u{k}\n", int_lit(rng), str_lit(rng)),
        24 => format!("x{k} = {} * {} - {}\nprint! x{k}\n", rng.below(100), rng.below(100), rng.below(100)),
        25 => format!("b{k} = {} and not {}\nprint! b{k}\n", if rng.chance(1, 2) { "True" } else { "False" }, if rng.chance(1, 2) { "True" } else { "False" }),
        26 => format!("for! [{}, {}], e =>\n    if! e > 1, do!:\n        print! e\n", rng.below(4), rng.below(4)),
        27 => format!("outer{k} a: Int =\n    mid b: Int =\n        deep c: Int = a + b + c\n        deep\n    mid\nprint! outer{k}({})({})({})\n", rng.below(9), rng.below(9), rng.below(9)),
        28 => format!("sq{k} = map((x: Nat) -> x * x, [{}, {}])\nprint! list sq{k}\n", rng.below(9), rng.below(9)),
        _ => format!("print! {}, {}, {}\n", int_lit(rng), float_lit(rng), str_lit(rng)),
    }
}

pub fn gen_program(rng: &mut Rng) -> String {
    let n = 1 + rng.below(7) as usize;
    let mut s = String::new();
    for k in 0..n {
        s.push_str(&stmt(rng, k));
    }
    s
}

/// fixed programs that exercise constructs the random statements do not (closures over several cells, many constants so that
/// EXTENDED_ARG is needed, nested control flow, with!)
pub fn fixed_programs() -> Vec<String> {
    let mut v = vec![];
    v.push("print! 2147483648\n".to_string());
    v.push("f x: Int =\n    g y: Int =\n        h z: Int = x + y + z\n        h\n    g\nprint! f(1)(2)(3)\n".to_string());
    // > 256 distinct constants and names: EXTENDED_ARG on LOAD_CONST / STORE_NAME
    let mut many = String::new();
    for j in 0..300 {
        many.push_str(&format!("v{j} = {}\n", 1000 + j));
    }
    many.push_str("print! v299\n");
    v.push(many);
    // a long loop body so that jump offsets exceed one byte
    let mut body = String::from("for! 0..<3, i =>\n");
    for j in 0..150 {
        body.push_str(&format!("    print! i + {}\n", j));
    }
    v.push(body);
    let mut wbody = String::from("c = !0\nwhile! do! c < 2, do!:\n");
    for j in 0..150 {
        wbody.push_str(&format!("    print! c + {}\n", j));
    }
    wbody.push_str("    c.inc!()\n");
    v.push(wbody);
    let mut ifbody = String::from("x = 3\nif! x > 1:\n    do!:\n");
    for j in 0..150 {
        ifbody.push_str(&format!("        print! x + {}\n", j));
    }
    ifbody.push_str("    do!:\n        print! \"no\"\n");
    v.push(ifbody);
    v.push("with! open!(\"/dev/null\"), fh =>\n    print! fh.read!()\n".to_string());
    v.push("i = !0\nfor! 0..<3, a =>\n    for! 0..<2, b =>\n        if! a > b, do!:\n            i.inc!()\nprint! i\n".to_string());
    v.push("C = Class { .v = Int }\nC.\n    get self = self.v\n    make n: Int = C.new { .v = n }\nprint! C.make(3).get()\n".to_string());
    v.push("s = \"\u{e9}\u{3042}\u{1f600}\"\nprint! s, \"-0.0\", -0.0, 0.0\n".to_string());
    v
}
