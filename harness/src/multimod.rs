//! Multi-module projects for C20 / C19: project description <-> S-expression, generator, materialisation into a directory,
//! and the child-process runner that compiles a project in-process with the `verif_sched` observer installed.
//!
//! Project S-expression (the `input` column):
//!   (proj (m <id> <ty> <pre> (imp <id>…) (uv <id>…) (uf <id>…) (bad <id>…))… (delay (<tag> <id> <ms>)…))
//!   entry = the first module. File of module i = `m<i>.er`:
//!       [defs if pre=1]  m<j> = import "m<j>" (in (imp …) order)  [defs if pre=0]
//!       print! "M:m<i>"                         top-level marker
//!       print! "V:m<i>:m<j>", m<j>.x            for j in (uv …)   (public variable of an imported module)
//!       print! "F:m<i>:m<j>", m<j>.f()          for j in (uf …)   (public function of an imported module)
//!       bad<j>: <a type m<j>.x does not have> = m<j>.x   for j in (bad …)   (mistyped use: must be rejected)
//!   defs:  `.x: T = v` (ty i: Int = -(i+1); n: Nat = i+10; s: Str = "s<i>"; b: Bool = True)  and  `.f() = 100+i`
//!   (delay …): the observer sleeps <ms> at `sched_point(tag, m<id>)` — a forced schedule (witnesses of the race finding).
use crate::Rng;
use std::fmt::Write as _;
use std::path::{Path, PathBuf};

#[derive(Clone, Debug, Default)]
pub struct Mod {
    pub id: usize,
    pub ty: char,
    pub pre: bool,
    pub imports: Vec<usize>,
    pub uv: Vec<usize>,
    pub uf: Vec<usize>,
    pub bad: Vec<usize>,
}

#[derive(Clone, Debug, Default)]
pub struct Proj {
    pub mods: Vec<Mod>,
    pub delays: Vec<(String, usize, u64)>,
}

// ------------------------------------------------------------------------------------------ S-expressions

#[derive(Debug, Clone)]
pub enum S {
    A(String),
    L(Vec<S>),
}

pub fn parse_s(src: &str) -> Option<S> {
    let mut stack: Vec<Vec<S>> = vec![vec![]];
    let mut cur = String::new();
    let flush = |cur: &mut String, stack: &mut Vec<Vec<S>>| {
        if !cur.is_empty() {
            stack.last_mut().unwrap().push(S::A(std::mem::take(cur)));
        }
    };
    for c in src.chars() {
        match c {
            '(' => {
                flush(&mut cur, &mut stack);
                stack.push(vec![]);
            }
            ')' => {
                flush(&mut cur, &mut stack);
                let l = stack.pop()?;
                stack.last_mut()?.push(S::L(l));
            }
            c if c.is_whitespace() => flush(&mut cur, &mut stack),
            c => cur.push(c),
        }
    }
    flush(&mut cur, &mut stack);
    if stack.len() != 1 {
        return None;
    }
    stack.pop()?.into_iter().next()
}

fn atom(s: &S) -> Option<&str> {
    match s {
        S::A(a) => Some(a),
        _ => None,
    }
}

fn ids(items: &[S]) -> Option<Vec<usize>> {
    items.iter().map(|x| atom(x)?.parse().ok()).collect()
}

impl Proj {
    pub fn parse(input: &str) -> Option<Proj> {
        let S::L(top) = parse_s(input)? else { return None };
        if atom(top.first()?)? != "proj" {
            return None;
        }
        let mut p = Proj::default();
        for it in &top[1..] {
            let S::L(l) = it else { return None };
            match atom(l.first()?)? {
                "m" => {
                    let mut m = Mod { id: atom(l.get(1)?)?.parse().ok()?, ty: atom(l.get(2)?)?.chars().next()?,
                                      pre: atom(l.get(3)?)? == "1", ..Default::default() };
                    for f in &l[4..] {
                        let S::L(f) = f else { return None };
                        let v = ids(&f[1..])?;
                        match atom(f.first()?)? {
                            "imp" => m.imports = v,
                            "uv" => m.uv = v,
                            "uf" => m.uf = v,
                            "bad" => m.bad = v,
                            _ => return None,
                        }
                    }
                    p.mods.push(m);
                }
                "delay" => {
                    for d in &l[1..] {
                        let S::L(d) = d else { return None };
                        p.delays.push((atom(d.first()?)?.to_string(), atom(d.get(1)?)?.parse().ok()?, atom(d.get(2)?)?.parse().ok()?));
                    }
                }
                "runs" => {} // C19: per-run forced delays, read by checks/c19.py
                _ => return None,
            }
        }
        if p.mods.is_empty() { None } else { Some(p) }
    }

    pub fn to_sexp(&self) -> String {
        let mut o = String::from("(proj");
        let l = |name: &str, v: &[usize]| {
            let mut s = format!(" ({}", name);
            for x in v { write!(s, " {}", x).unwrap(); }
            s.push(')');
            s
        };
        for m in &self.mods {
            write!(o, " (m {} {} {}{}{}{}{})", m.id, m.ty, if m.pre { 1 } else { 0 }, l("imp", &m.imports), l("uv", &m.uv),
                   l("uf", &m.uf), l("bad", &m.bad)).unwrap();
        }
        if !self.delays.is_empty() {
            o.push_str(" (delay");
            for (t, m, ms) in &self.delays { write!(o, " ({} {} {})", t, m, ms).unwrap(); }
            o.push(')');
        }
        o.push(')');
        o
    }

    pub fn ty_name(ty: char) -> &'static str {
        match ty { 'i' => "Int", 'n' => "Nat", 's' => "Str", _ => "Bool" }
    }

    pub fn source(&self, m: &Mod) -> String {
        let mut defs = String::new();
        let v = match m.ty {
            'i' => format!("-{}", m.id + 1),
            'n' => format!("{}", m.id + 10),
            's' => format!("\"s{}\"", m.id),
            _ => "True".to_string(),
        };
        writeln!(defs, ".x: {} = {}", Self::ty_name(m.ty), v).unwrap();
        writeln!(defs, ".f() = {}", 100 + m.id).unwrap();
        let mut s = String::new();
        if m.pre { s.push_str(&defs); }
        for j in &m.imports { writeln!(s, "m{j} = import \"m{j}\"").unwrap(); }
        if !m.pre { s.push_str(&defs); }
        writeln!(s, "print! \"M:m{}\"", m.id).unwrap();
        for j in &m.uv { writeln!(s, "print! \"V:m{}:m{}\", m{}.x", m.id, j, j).unwrap(); }
        for j in &m.uf { writeln!(s, "print! \"F:m{}:m{}\", m{}.f()", m.id, j, j).unwrap(); }
        for j in &m.bad {
            let tj = self.mods.iter().find(|x| x.id == *j).map(|x| x.ty).unwrap_or('i');
            let wrong = if tj == 's' { "Int" } else { "Str" };
            writeln!(s, "bad{j}: {wrong} = m{j}.x").unwrap();
        }
        s
    }

    pub fn materialise(&self, dir: &Path) -> std::io::Result<()> {
        std::fs::create_dir_all(dir)?;
        for m in &self.mods {
            std::fs::write(dir.join(format!("m{}.er", m.id)), self.source(m))?;
        }
        Ok(())
    }

    pub fn entry(&self) -> String {
        format!("m{}.er", self.mods[0].id)
    }
}

// ------------------------------------------------------------------------------------------ generator

/// shapes: chain, tree/DAG, diamond, self-import, 2-cycle, 3-cycle, cycle + an importer from outside the cycle, random
pub fn gen_proj(rng: &mut Rng, tier: &str) -> (Proj, &'static str) {
    let shapes = ["dag", "dag", "diamond", "chain", "self", "cyc2", "cyc3", "cyc-out", "random", "cyc-root"];
    let shape = *rng.pick(&shapes);
    let maxn = if tier == "thorough" { 8 } else { 6 };
    let n = match shape {
        "diamond" => rng.range(4, maxn) as usize,
        "cyc3" | "cyc-out" => rng.range(4, maxn) as usize,
        _ => rng.range(2, maxn) as usize,
    };
    let mut edges: Vec<Vec<usize>> = vec![vec![]; n];
    let add = |e: &mut Vec<Vec<usize>>, a: usize, b: usize| { if !e[a].contains(&b) { e[a].push(b); } };
    // a random DAG skeleton (edges i -> j with i < j) that keeps everything reachable from 0
    for j in 1..n {
        let i = rng.below(j as u64) as usize;
        add(&mut edges, i, j);
    }
    match shape {
        "chain" => {
            edges = vec![vec![]; n];
            for i in 0..n - 1 { add(&mut edges, i, i + 1); }
        }
        "diamond" => {
            edges = vec![vec![]; n];
            add(&mut edges, 0, 1); add(&mut edges, 0, 2); add(&mut edges, 1, 3); add(&mut edges, 2, 3);
            for j in 4..n { let i = rng.below(j as u64) as usize; add(&mut edges, i, j); if rng.chance(1, 2) { add(&mut edges, rng.below(j as u64) as usize, j); } }
        }
        "dag" | "random" => {
            let extra = rng.below(n as u64 + 1);
            for _ in 0..extra {
                let a = rng.below(n as u64) as usize;
                let b = rng.below(n as u64) as usize;
                if a < b { add(&mut edges, a, b); }
                else if shape == "random" && rng.chance(1, 2) { add(&mut edges, a, b); }
            }
        }
        "self" => {
            let a = rng.below(n as u64) as usize;
            add(&mut edges, a, a);
        }
        "cyc2" => {
            // back edge along an existing edge
            let a = rng.range(1, n as i64 - 1) as usize;
            let p = (0..a).find(|&i| edges[i].contains(&a)).unwrap_or(0);
            if p != 0 || rng.chance(1, 3) { add(&mut edges, a, p); } else if n > 2 { let b = if a + 1 < n { a + 1 } else { 1 }; if a != b { add(&mut edges, a.min(b), a.max(b)); add(&mut edges, a.max(b), a.min(b)); } } else { add(&mut edges, a, p); }
        }
        "cyc3" => {
            edges = vec![vec![]; n];
            add(&mut edges, 0, 1); add(&mut edges, 1, 2); add(&mut edges, 2, 3); add(&mut edges, 3, 1);
            for j in 4..n { let i = rng.below(j as u64) as usize; add(&mut edges, i, j); }
        }
        "cyc-out" => {
            // 0 -> 1 <-> 2 and 0 -> 3 -> 2 (or 3 -> 1): an importer from outside the cycle
            edges = vec![vec![]; n];
            add(&mut edges, 0, 1); add(&mut edges, 1, 2); add(&mut edges, 2, 1); add(&mut edges, 0, 3);
            add(&mut edges, 3, if rng.chance(2, 3) { 2 } else { 1 });
            for j in 4..n { let i = rng.below(j as u64) as usize; add(&mut edges, i, j); }
        }
        "cyc-root" => {
            let a = rng.range(1, n as i64 - 1) as usize;
            add(&mut edges, a, 0);
        }
        _ => {}
    }
    // shuffle the import order of each module
    for e in edges.iter_mut() {
        for i in (1..e.len()).rev() {
            let j = rng.below(i as u64 + 1) as usize;
            e.swap(i, j);
        }
    }
    let tys = ['i', 'n', 's', 'b'];
    let mut mods: Vec<Mod> = (0..n).map(|i| Mod { id: i, ty: *rng.pick(&tys), pre: rng.chance(1, 5), imports: edges[i].clone(), ..Default::default() }).collect();
    // uses: forward (DAG-direction) imports mostly as variables; a use of the module itself (self-import) is left out
    for i in 0..n {
        for &j in &edges[i] {
            if j == i { continue; }
            let back = j < i; // (candidate) back edge: keep variable reads rare there (finding #23 class)
            let r = rng.below(100);
            if back {
                if r < 15 { mods[i].uv.push(j); } else if r < 55 { mods[i].uf.push(j); }
            } else if r < 60 { mods[i].uv.push(j); } else if r < 85 { mods[i].uf.push(j); }
        }
    }
    // a mistyped use in ~1 of 6 projects (on a forward edge)
    if rng.chance(1, 6) {
        let cands: Vec<(usize, usize)> = (0..n).flat_map(|i| edges[i].iter().filter(move |&&j| j > i).map(move |&j| (i, j))).collect();
        if !cands.is_empty() {
            let (i, j) = *rng.pick(&cands);
            mods[i].bad.push(j);
        }
    }
    (Proj { mods, delays: vec![] }, shape)
}

// ------------------------------------------------------------------------------------------ child side

pub fn strip_ansi(s: &str) -> String {
    let mut o = String::new();
    let mut it = s.chars();
    while let Some(c) = it.next() {
        if c == '\u{1b}' {
            for d in it.by_ref() {
                if d == 'm' { break; }
            }
        } else {
            o.push(c);
        }
    }
    o
}

/// `/tmp/x/m3.er` -> `m3`; several paths separated by `;` `,` `>` `|` keep their separators
pub fn stems(s: &str) -> String {
    let mut o = String::new();
    let mut cur = String::new();
    let flush = |cur: &mut String, o: &mut String| {
        if !cur.is_empty() {
            let p = Path::new(cur.as_str());
            let st = if cur.contains('/') { p.file_stem().map(|x| x.to_string_lossy().to_string()).unwrap_or_default() } else { cur.clone() };
            o.push_str(&st);
            cur.clear();
        }
    };
    for c in s.chars() {
        if matches!(c, ';' | ',' | '>' | '|') {
            flush(&mut cur, &mut o);
            o.push(c);
        } else {
            cur.push(c);
        }
    }
    flush(&mut cur, &mut o);
    o
}

pub fn tmp_root() -> PathBuf {
    let d = std::env::temp_dir().join(format!("verif-mm-{}", std::process::id()));
    std::fs::create_dir_all(&d).ok();
    d
}
