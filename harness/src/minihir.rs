//! Projection `erg_compiler::hir::Expr -> mini-HIR S-expression` (DESIGN Appendix A.2), shared by C22, C23, C12
//! (reader: lean/ErgVerif/Shared/MiniHir.lean). The projection carries exactly the facts the three checkers read
//! from the HIR (types are reduced to the predicates the code evaluates on them), and it REFUSES with
//! `Err("out-of-fragment(<ctor>)")` on a construct it has no constructor for instead of substituting a default.
//!
//! ```text
//! e ::= (lit L C)
//!     | (ident L C "name" (F…) "defns")                  F ⊆ {param mut}
//!     | (attr L C e "name" (F…) "defns")                 F ⊆ {param mut rootref}
//!     | (bin L C <TokenKind> e e) | (un L C <TokenKind> e)
//!     | (call L C A (F…) O e (pos e…) (var e…) (kw ("k" e)…) (kwvar e…))
//!            A ::= "attr-name" | -      F ⊆ {objproc attrproc resproc sigsubr method}
//!            O ::= - | todo | (owns (nd (N o)…) (var (N o)?) (d ("k" o)…) (kwvar (N o)?))   N ::= "name" | -   o ::= owned|ref|refmut
//!     | (def L C "name" (F…) R (params p…) (block e…))   F ⊆ {pub subr proc const glob discarded lastproc}  R ::= <n> | none
//!     | (lambda L C <id> (F…) (params p…) (block e…))    F ⊆ {proc}
//!     | (list e…) | (listlen e e?) | (listcomp e e) | (tuple e…) | (set e…) | (setlen e e) | (dict e e …)
//!     | (record L C def…) | (tasc e)
//!     | (classdef L C "name" (F…) (reqsup e?) (methods e…)) | (patchdef L C e (methods e…))
//!     | (redef L C e (block e…)) | (code e…) | (compound e…) | (import) | (dummy e…)
//! p ::= (param K L C N (F…) (default e?))                K ∈ {nd var d kwvar}  F ⊆ {varname typroc bang}
//! ```
//! `L C` = `ln_begin col_begin` of the location the checkers attach to an error at that node (0 0 when unknown).
use crate::quote;
use erg_common::error::Location;
use erg_common::traits::{Locational, Stream};
use erg_compiler::hir::{Accessor, Args, Def, Dict, Expr, List, Params, Set, Signature, Tuple};
use erg_compiler::module::SharedModuleIndex;
use erg_compiler::ty::{HasType, Ownership};
use erg_parser::ast::ParamPattern;

pub struct Proj<'a> {
    /// reference index of the compilation (for the `referrers` count of definitions); `None` = not needed
    pub index: Option<&'a SharedModuleIndex>,
    /// constructor histogram (evidence: what the generated programs exercised)
    pub ctors: std::collections::BTreeMap<&'static str, usize>,
}

pub type PResult = Result<String, String>;

fn lc(loc: Location) -> String {
    format!("{} {}", loc.ln_begin().unwrap_or(0), loc.col_begin().unwrap_or(0))
}

fn own(o: Ownership) -> &'static str {
    match o {
        Ownership::Owned => "owned",
        Ownership::Ref => "ref",
        Ownership::RefMut => "refmut",
    }
}

impl<'a> Proj<'a> {
    pub fn new(index: Option<&'a SharedModuleIndex>) -> Self {
        Proj { index, ctors: Default::default() }
    }

    fn hit(&mut self, c: &'static str) {
        *self.ctors.entry(c).or_insert(0) += 1;
    }

    pub fn module(&mut self, exprs: &[Expr]) -> PResult {
        let mut o = String::from("(module");
        for e in exprs {
            o.push(' ');
            o.push_str(&self.expr(e)?);
        }
        o.push(')');
        Ok(o)
    }

    fn seq<'e>(&mut self, head: &str, es: impl Iterator<Item = &'e Expr>) -> PResult {
        let mut o = format!("({}", head);
        for e in es {
            o.push(' ');
            o.push_str(&self.expr(e)?);
        }
        o.push(')');
        Ok(o)
    }

    fn args_pos(&mut self, head: &str, a: &Args) -> PResult {
        if a.var_args.is_some() || !a.kw_args.is_empty() || a.kw_var.is_some() {
            // container literals never carry such arguments; refuse rather than drop them
            return Err(format!("out-of-fragment({}-with-nonpositional-elems)", head));
        }
        self.seq(head, a.pos_args.iter().map(|p| &p.expr))
    }

    fn params(&mut self, ps: &Params) -> PResult {
        let mut o = String::from("(params");
        let mut one = |this: &mut Self, kind: &str, sig: &erg_compiler::hir::NonDefaultParamSignature, default: Option<&Expr>| -> Result<String, String> {
            let name = sig.inspect();
            let mut flags = vec![];
            if matches!(sig.raw.pat, ParamPattern::VarName(_)) { flags.push("varname"); }
            if sig.vi.t.is_procedure() { flags.push("typroc"); }
            if name.map(|n| n.ends_with('!')).unwrap_or(false) { flags.push("bang"); }
            let d = match default { Some(e) => format!("(default {})", this.expr(e)?), None => "(default)".to_string() };
            Ok(format!(" (param {} {} {} ({}) {})", kind, lc(sig.raw.pat.loc()),
                name.map(|n| quote(n)).unwrap_or_else(|| "-".to_string()), flags.join(" "), d))
        };
        for nd in ps.non_defaults.iter() { o.push_str(&one(self, "nd", nd, None)?); }
        if let Some(v) = ps.var_params.as_deref() { o.push_str(&one(self, "var", v, None)?); }
        for d in ps.defaults.iter() { o.push_str(&one(self, "d", &d.sig, Some(&d.default_val))?); }
        if let Some(v) = ps.kw_var_params.as_deref() { o.push_str(&one(self, "kwvar", v, None)?); }
        // `Params::guards` (pattern/type guards produced by the desugarer, e.g. for `x: T`) and `t_spec_as_expr` are
        // dropped: none of the three modelled passes reads them (effectcheck::check_params, ownercheck and is_impure
        // only look at the fields projected above).
        o.push(')');
        Ok(o)
    }

    pub fn def(&mut self, def: &Def) -> PResult {
        self.hit("def");
        let mut flags = vec![];
        if def.sig.vis().is_public() { flags.push("pub"); }
        if def.sig.is_subr() { flags.push("subr"); }
        if def.sig.is_procedural() { flags.push("proc"); }
        if def.sig.is_const() { flags.push("const"); }
        if def.sig.is_glob() { flags.push("glob"); }
        if def.sig.ident().is_discarded() { flags.push("discarded"); }
        if def.body.block.last().map(|c| c.t().is_procedure()).unwrap_or(false) { flags.push("lastproc"); }
        let refs = match self.index {
            Some(ix) => match ix.get_refs(&def.sig.ident().vi.def_loc) {
                Some(v) => v.referrers.len().to_string(),
                None => "none".to_string(),
            },
            None => "none".to_string(),
        };
        let params = match &def.sig {
            Signature::Subr(s) => self.params(&s.params)?,
            _ => "(params)".to_string(),
        };
        let body = self.seq("block", def.body.block.iter())?;
        Ok(format!("(def {} {} ({}) {} {} {})", lc(def.sig.loc()), quote(def.sig.inspect()), flags.join(" "), refs, params, body))
    }

    pub fn expr(&mut self, e: &Expr) -> PResult {
        match e {
            Expr::Literal(l) => { self.hit("lit"); Ok(format!("(lit {})", lc(l.loc()))) }
            Expr::Accessor(acc) => self.acc(acc, e),
            Expr::List(l) => match l {
                List::Normal(n) => { self.hit("list"); self.args_pos("list", &n.elems) }
                List::WithLength(w) => {
                    self.hit("listlen");
                    let mut o = format!("(listlen {}", self.expr(&w.elem)?);
                    if let Some(len) = &w.len { o.push(' '); o.push_str(&self.expr(len)?); }
                    o.push(')');
                    Ok(o)
                }
                List::Comprehension(c) => { self.hit("listcomp"); Ok(format!("(listcomp {} {})", self.expr(&c.elem)?, self.expr(&c.guard)?)) }
            },
            Expr::Tuple(Tuple::Normal(t)) => { self.hit("tuple"); self.args_pos("tuple", &t.elems) }
            Expr::Set(s) => match s {
                Set::Normal(n) => { self.hit("set"); self.args_pos("set", &n.elems) }
                Set::WithLength(w) => { self.hit("setlen"); Ok(format!("(setlen {} {})", self.expr(&w.elem)?, self.expr(&w.len)?)) }
            },
            Expr::Dict(d) => match d {
                Dict::Normal(n) => {
                    self.hit("dict");
                    let mut o = String::from("(dict");
                    for kv in n.kvs.iter() {
                        o.push(' '); o.push_str(&self.expr(&kv.key)?);
                        o.push(' '); o.push_str(&self.expr(&kv.value)?);
                    }
                    o.push(')');
                    Ok(o)
                }
                Dict::Comprehension(_) => Err("out-of-fragment(Dict::Comprehension)".into()),
            },
            Expr::Record(r) => {
                self.hit("record");
                let mut o = format!("(record {}", lc(r.loc()));
                for d in r.attrs.iter() { o.push(' '); o.push_str(&self.def(d)?); }
                o.push(')');
                Ok(o)
            }
            Expr::BinOp(b) => {
                self.hit("bin");
                Ok(format!("(bin {} {:?} {} {})", lc(e.loc()), b.op.kind, self.expr(&b.lhs)?, self.expr(&b.rhs)?))
            }
            Expr::UnaryOp(u) => {
                self.hit("un");
                Ok(format!("(un {} {:?} {})", lc(e.loc()), u.op.kind, self.expr(&u.expr)?))
            }
            Expr::Call(call) => {
                self.hit("call");
                let mut flags = vec![];
                if call.obj.t().is_procedure() { flags.push("objproc"); }
                if call.attr_name.as_ref().map(|n| n.is_procedural()).unwrap_or(false) { flags.push("attrproc"); }
                if call.ref_t().is_procedure() { flags.push("resproc"); }
                let sig_subr = call.signature_t().map(|t| t.is_subr()).unwrap_or(false);
                if sig_subr { flags.push("sigsubr"); }
                let owns = if !sig_subr {
                    "-".to_string()
                } else {
                    let call2 = call.clone();
                    match crate::catch(std::panic::AssertUnwindSafe(move || {
                        let ao = call2.signature_t().unwrap().args_ownership();
                        (ao, call2.is_method_call())
                    })) {
                        Err(_) => "todo".to_string(),
                        Ok((ao, method)) => {
                            if method { flags.push("method"); }
                            let nm = |n: &Option<erg_common::Str>| n.as_ref().map(|s| quote(s)).unwrap_or_else(|| "-".into());
                            let mut o = String::from("(owns (nd");
                            for (n, w) in ao.non_defaults.iter() { o.push_str(&format!(" ({} {})", nm(n), own(*w))); }
                            o.push_str(") (var");
                            if let Some((n, w)) = ao.var_params.as_ref() { o.push_str(&format!(" ({} {})", nm(n), own(*w))); }
                            o.push_str(") (d");
                            for (n, w) in ao.defaults.iter() { o.push_str(&format!(" ({} {})", quote(n), own(*w))); }
                            o.push_str(") (kwvar");
                            if let Some((n, w)) = ao.kw_var_params.as_ref() { o.push_str(&format!(" ({} {})", nm(n), own(*w))); }
                            o.push_str("))");
                            o
                        }
                    }
                };
                let attr = call.attr_name.as_ref().map(|n| quote(n.inspect())).unwrap_or_else(|| "-".into());
                let obj = self.expr(&call.obj)?;
                let pos = self.seq("pos", call.args.pos_args.iter().map(|p| &p.expr))?;
                let var = self.seq("var", call.args.var_args.iter().map(|p| &p.expr))?;
                let mut kw = String::from("(kw");
                for k in call.args.kw_args.iter() {
                    kw.push_str(&format!(" ({} {})", quote(&k.keyword.content), self.expr(&k.expr)?));
                }
                kw.push(')');
                let kwvar = self.seq("kwvar", call.args.kw_var.iter().map(|p| &p.expr))?;
                Ok(format!("(call {} {} ({}) {} {} {} {} {} {})", lc(e.loc()), attr, flags.join(" "), owns, obj, pos, var, kw, kwvar))
            }
            Expr::Lambda(l) => {
                self.hit("lambda");
                let flags = if l.is_procedural() { "proc" } else { "" };
                Ok(format!("(lambda {} {} ({}) {} {})", lc(e.loc()), l.id, flags, self.params(&l.params)?, self.seq("block", l.body.iter())?))
            }
            Expr::Def(d) => self.def(d),
            Expr::ClassDef(c) => {
                self.hit("classdef");
                let flags = if c.sig.vis().is_public() { "pub" } else { "" };
                let req = self.seq("reqsup", c.require_or_sup.iter().map(|b| b.as_ref()))?;
                let ms = self.seq("methods", c.all_methods())?;
                Ok(format!("(classdef {} {} ({}) {} {})", lc(c.sig.loc()), quote(c.sig.inspect()), flags, req, ms))
            }
            Expr::PatchDef(p) => {
                self.hit("patchdef");
                Ok(format!("(patchdef {} {} {})", lc(p.sig.loc()), self.expr(&p.base)?, self.seq("methods", p.methods.iter())?))
            }
            Expr::ReDef(r) => {
                self.hit("redef");
                let a = Expr::Accessor(r.attr.clone());
                Ok(format!("(redef {} {} {})", lc(e.loc()), self.expr(&a)?, self.seq("block", r.block.iter())?))
            }
            Expr::TypeAsc(t) => { self.hit("tasc"); Ok(format!("(tasc {})", self.expr(&t.expr)?)) }
            Expr::Code(b) => { self.hit("code"); self.seq("code", b.iter()) }
            Expr::Compound(b) => { self.hit("compound"); self.seq("compound", b.iter()) }
            Expr::Import(_) => { self.hit("import"); Ok("(import)".to_string()) }
            Expr::Dummy(d) => { self.hit("dummy"); self.seq("dummy", d.iter()) }
        }
    }

    fn acc(&mut self, acc: &Accessor, e: &Expr) -> PResult {
        let mut flags = vec![];
        if acc.var_info().is_parameter() { flags.push("param"); }
        if acc.ref_t().is_mut_type() { flags.push("mut"); }
        let defns = quote(acc.var_info().def_namespace());
        match acc {
            Accessor::Ident(id) => {
                self.hit("ident");
                Ok(format!("(ident {} {} ({}) {})", lc(e.loc()), quote(id.inspect()), flags.join(" "), defns))
            }
            Accessor::Attr(a) => {
                self.hit("attr");
                if acc.root_obj().map(|o| o.ref_t().is_ref()).unwrap_or(false) { flags.push("rootref"); }
                Ok(format!("(attr {} {} {} ({}) {})", lc(e.loc()), self.expr(&a.obj)?, quote(a.ident.inspect()), flags.join(" "), defns))
            }
        }
    }
}

/// canonical error list: sorted `(kind line col)` triples
pub fn sorted_errs(mut v: Vec<(String, u32, u32)>) -> String {
    v.sort();
    let mut o = String::from("(errs");
    for (k, l, c) in v { o.push_str(&format!(" ({} {} {})", k, l, c)); }
    o.push(')');
    o
}

// ---------------------------------------------------------------------------------------------- lowering

use erg_common::config::ErgConfig;
use erg_compiler::hir::HIR;
use erg_compiler::module::SharedCompilerResource;
use erg_compiler::HIRBuilder;

/// A program lowered by the real front end with the effect and ownership passes switched off, so that the
/// harness can run each pass by itself on the HIR.
pub struct Lowered {
    pub hir: HIR,
    pub builder: HIRBuilder,
    pub shared: SharedCompilerResource,
    pub cfg: ErgConfig,
}

/// `Err` = canonical description of the front-end errors (`(lower-error (<kind> <line>)…)`)
pub fn lower(src: &str) -> Result<Lowered, String> {
    let mut cfg = ErgConfig::string(src.to_string());
    cfg.effect_check = false;
    cfg.ownership_check = false;
    let shared = SharedCompilerResource::new(cfg.clone());
    let mut builder = HIRBuilder::new_with_cache(cfg.clone(), "<module>", shared.clone());
    match builder.build(src.to_string(), "exec") {
        Ok(art) => Ok(Lowered { hir: art.object, builder, shared, cfg }),
        Err(iart) => {
            let mut v: Vec<String> = iart.errors.iter()
                .map(|e| format!("({:?} {})", e.core.kind, e.core.loc.ln_begin().unwrap_or(0))).collect();
            v.sort();
            v.dedup();
            Err(format!("(lower-error {})", v.join(" ")))
        }
    }
}

/// `(src "<text>")`, optionally followed by more S-expressions (ignored): the replayable part of an input column
pub fn src_of_input(input: &str) -> Option<String> {
    let s = input.trim().strip_prefix("(src ")?;
    // the string literal ends at the first unescaped quote
    let b: Vec<char> = s.chars().collect();
    if b.first() != Some(&'"') { return None; }
    let mut i = 1;
    while i < b.len() {
        if b[i] == '\\' { i += 2; continue; }
        if b[i] == '"' { break; }
        i += 1;
    }
    let lit: String = b[..=i.min(b.len() - 1)].iter().collect();
    crate::unquote(&lit)
}

/// English main-message prefix -> the error constructor that produced it (all four effect errors share
/// `ErrorKind::HasEffect`; the harness is built with the default language)
pub fn effect_kind(main_message: &str) -> String {
    if main_message.starts_with("this expression causes a side-effect") { "effect".into() }
    else if main_message.starts_with("cannot assign a procedure") { "procassign".into() }
    else if main_message.starts_with("cannot access a mutable object") { "touchmut".into() }
    else if main_message.starts_with("the constructor and destructor") { "ctordtor".into() }
    else { "other".into() }
}
