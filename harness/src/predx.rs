//! Predicate construction expressions shared by the C32 and C03 harnesses (included with `#[path] mod predx;`).
//! Mirrors `ErgVerif.PExpr` (lean/ErgVerif/Shared/Pred.lean): `and/or/not/gt/lt` go through the real smart constructors
//! `Predicate::{and, or, invert, gt, lt}`, `rand/ror/rnot` build the bare enum variants.
#![allow(dead_code)]
use erg_common::set::Set;
use erg_common::Str;
use erg_compiler::ty::typaram::TyParam;
use erg_compiler::ty::value::ValueObj;
use erg_compiler::ty::Predicate;
use erg_harness::Rng;

#[derive(Clone, Debug, PartialEq)]
pub enum PExpr {
    Val(bool),
    Eq(i128),
    Ge(i128),
    Le(i128),
    Ne(i128),
    Gt(i128),
    Lt(i128),
    And(Box<PExpr>, Box<PExpr>),
    Or(Box<PExpr>, Box<PExpr>),
    Not(Box<PExpr>),
    RAnd(Box<PExpr>, Box<PExpr>),
    ROr(Vec<PExpr>),
    RNot(Box<PExpr>),
}
use PExpr::*;

pub const SUBJECT: &str = "I";

/// the right-hand side the front end produces for an integer literal: `Nat` for non-negative, `Int` for negative values
pub fn constant(c: i128) -> Option<TyParam> {
    if c >= 0 && c <= u64::MAX as i128 {
        Some(TyParam::Value(ValueObj::Nat(c as u64)))
    } else if c < 0 && c >= i32::MIN as i128 {
        Some(TyParam::Value(ValueObj::Int(c as i32)))
    } else {
        None
    }
}

impl PExpr {
    pub fn to_sexp(&self) -> String {
        match self {
            Val(b) => format!("(val {})", b),
            Eq(c) => format!("(eq {})", c),
            Ge(c) => format!("(ge {})", c),
            Le(c) => format!("(le {})", c),
            Ne(c) => format!("(ne {})", c),
            Gt(c) => format!("(gt {})", c),
            Lt(c) => format!("(lt {})", c),
            And(a, b) => format!("(and {} {})", a.to_sexp(), b.to_sexp()),
            Or(a, b) => format!("(or {} {})", a.to_sexp(), b.to_sexp()),
            Not(a) => format!("(not {})", a.to_sexp()),
            RAnd(a, b) => format!("(rand {} {})", a.to_sexp(), b.to_sexp()),
            ROr(es) => {
                let mut s = String::from("(ror");
                for e in es {
                    s.push(' ');
                    s.push_str(&e.to_sexp());
                }
                s.push(')');
                s
            }
            RNot(a) => format!("(rnot {})", a.to_sexp()),
        }
    }

    /// build the real `Predicate` (None when a constant does not fit `Int`/`Nat`)
    pub fn build(&self) -> Option<Predicate> {
        let s = || Str::ever(SUBJECT);
        Some(match self {
            Val(b) => Predicate::Value(ValueObj::Bool(*b)),
            Eq(c) => Predicate::eq(s(), constant(*c)?),
            Ge(c) => Predicate::ge(s(), constant(*c)?),
            Le(c) => Predicate::le(s(), constant(*c)?),
            Ne(c) => Predicate::ne(s(), constant(*c)?),
            Gt(c) => Predicate::gt(s(), constant(*c)?),
            Lt(c) => Predicate::lt(s(), constant(*c)?),
            And(a, b) => Predicate::and(a.build()?, b.build()?),
            Or(a, b) => Predicate::or(a.build()?, b.build()?),
            Not(a) => a.build()?.invert(),
            RAnd(a, b) => Predicate::And(Box::new(a.build()?), Box::new(b.build()?)),
            ROr(es) => {
                let mut set = Set::new();
                for e in es {
                    set.insert(e.build()?);
                }
                Predicate::Or(set)
            }
            RNot(a) => Predicate::Not(Box::new(a.build()?)),
        })
    }

    pub fn size(&self) -> usize {
        match self {
            And(a, b) | Or(a, b) | RAnd(a, b) => 1 + a.size() + b.size(),
            Not(a) | RNot(a) => 1 + a.size(),
            ROr(es) => 1 + es.iter().map(|e| e.size()).sum::<usize>(),
            _ => 1,
        }
    }

    pub fn has_not(&self) -> bool {
        match self {
            Not(_) => true,
            And(a, b) | Or(a, b) | RAnd(a, b) => a.has_not() || b.has_not(),
            RNot(a) => a.has_not(),
            ROr(es) => es.iter().any(|e| e.has_not()),
            _ => false,
        }
    }

    pub fn depth(&self) -> usize {
        match self {
            And(a, b) | Or(a, b) | RAnd(a, b) => 1 + a.depth().max(b.depth()),
            Not(a) | RNot(a) => 1 + a.depth(),
            ROr(es) => 1 + es.iter().map(|e| e.depth()).max().unwrap_or(0),
            _ => 0,
        }
    }

    /// erg surface syntax of the expression over the subject `I` (only for raw-free expressions).
    /// `not_fn = false`: negation is the predicate operator `~(p)` (instantiated through `Predicate::invert`);
    /// `not_fn = true`: negation is spelled with the builtin function `not (p)` (instantiated as a `Call` predicate).
    pub fn to_erg(&self, not_fn: bool) -> Option<String> {
        let lit = |c: &i128| if *c < 0 { format!("({})", c) } else { format!("{}", c) };
        Some(match self {
            Val(_) | RAnd(..) | ROr(..) | RNot(..) => return None,
            Eq(c) => format!("I == {}", lit(c)),
            Ge(c) => format!("I >= {}", lit(c)),
            Le(c) => format!("I <= {}", lit(c)),
            Ne(c) => format!("I != {}", lit(c)),
            Gt(c) => format!("I > {}", lit(c)),
            Lt(c) => format!("I < {}", lit(c)),
            And(a, b) => format!("({}) and ({})", a.to_erg(not_fn)?, b.to_erg(not_fn)?),
            Or(a, b) => format!("({}) or ({})", a.to_erg(not_fn)?, b.to_erg(not_fn)?),
            Not(a) => if not_fn { format!("not ({})", a.to_erg(not_fn)?) } else { format!("~({})", a.to_erg(not_fn)?) },
        })
    }
}

/// canonical print of a `Predicate` of the integer fragment; `Or` members sorted by their printed form
pub fn show(p: &Predicate) -> String {
    fn c(lhs: &Str, rhs: &TyParam) -> Option<String> {
        if &lhs[..] != SUBJECT {
            return None;
        }
        match rhs {
            TyParam::Value(ValueObj::Int(i)) => Some(format!("{}", i)),
            TyParam::Value(ValueObj::Nat(n)) => Some(format!("{}", n)),
            _ => None,
        }
    }
    fn go(p: &Predicate) -> Option<String> {
        Some(match p {
            Predicate::Value(ValueObj::Bool(b)) => format!("(val {})", b),
            Predicate::Equal { lhs, rhs } => format!("(eq {})", c(lhs, rhs)?),
            Predicate::GreaterEqual { lhs, rhs } => format!("(ge {})", c(lhs, rhs)?),
            Predicate::LessEqual { lhs, rhs } => format!("(le {})", c(lhs, rhs)?),
            Predicate::NotEqual { lhs, rhs } => format!("(ne {})", c(lhs, rhs)?),
            Predicate::And(l, r) => format!("(and {} {})", go(l)?, go(r)?),
            Predicate::Not(q) => format!("(not {})", go(q)?),
            Predicate::Or(set) => {
                let mut ms = vec![];
                for m in set.iter() {
                    ms.push(go(m)?);
                }
                ms.sort();
                let mut s = String::from("(or");
                for m in ms {
                    s.push(' ');
                    s.push_str(&m);
                }
                s.push(')');
                s
            }
            _ => return None,
        })
    }
    go(p).unwrap_or_else(|| format!("out-of-model({})", erg_harness::quote(&format!("{}", p))))
}

// ------------------------------------------------------------------------------------------------ parsing (replay)

pub fn parse(s: &str) -> Option<PExpr> {
    let toks = tokenize(s);
    let mut pos = 0;
    let e = parse_at(&toks, &mut pos)?;
    if pos == toks.len() {
        Some(e)
    } else {
        None
    }
}

/// parse several expressions in sequence (e.g. the two sides of a C03 pair)
pub fn parse_many(s: &str) -> Option<Vec<PExpr>> {
    let toks = tokenize(s);
    let mut pos = 0;
    let mut v = vec![];
    while pos < toks.len() {
        v.push(parse_at(&toks, &mut pos)?);
    }
    Some(v)
}

fn tokenize(s: &str) -> Vec<String> {
    let mut toks = vec![];
    let mut cur = String::new();
    for ch in s.chars() {
        match ch {
            '(' | ')' => {
                if !cur.is_empty() {
                    toks.push(std::mem::take(&mut cur));
                }
                toks.push(ch.to_string());
            }
            c if c.is_whitespace() => {
                if !cur.is_empty() {
                    toks.push(std::mem::take(&mut cur));
                }
            }
            c => cur.push(c),
        }
    }
    if !cur.is_empty() {
        toks.push(cur);
    }
    toks
}

fn parse_at(t: &[String], pos: &mut usize) -> Option<PExpr> {
    if t.get(*pos)? != "(" {
        return None;
    }
    *pos += 1;
    let head = t.get(*pos)?.clone();
    *pos += 1;
    let e = match head.as_str() {
        "val" => {
            let b = match t.get(*pos)?.as_str() {
                "true" => true,
                "false" => false,
                _ => return None,
            };
            *pos += 1;
            Val(b)
        }
        "eq" | "ge" | "le" | "ne" | "gt" | "lt" => {
            let c: i128 = t.get(*pos)?.parse().ok()?;
            *pos += 1;
            match head.as_str() {
                "eq" => Eq(c),
                "ge" => Ge(c),
                "le" => Le(c),
                "ne" => Ne(c),
                "gt" => Gt(c),
                _ => Lt(c),
            }
        }
        "and" | "or" | "rand" => {
            let a = parse_at(t, pos)?;
            let b = parse_at(t, pos)?;
            match head.as_str() {
                "and" => And(Box::new(a), Box::new(b)),
                "or" => Or(Box::new(a), Box::new(b)),
                _ => RAnd(Box::new(a), Box::new(b)),
            }
        }
        "not" | "rnot" => {
            let a = parse_at(t, pos)?;
            if head == "not" {
                Not(Box::new(a))
            } else {
                RNot(Box::new(a))
            }
        }
        "ror" => {
            let mut es = vec![];
            while t.get(*pos)? != ")" {
                es.push(parse_at(t, pos)?);
            }
            ROr(es)
        }
        _ => return None,
    };
    if t.get(*pos)? != ")" {
        return None;
    }
    *pos += 1;
    Some(e)
}

// ------------------------------------------------------------------------------------------------ generation

pub struct GenCfg<'a> {
    pub consts: &'a [i128],
    /// probability (in 1/16) of a bare-variant node
    pub raw16: u64,
    /// probability (in 1/16) of a `(val b)` leaf
    pub val16: u64,
}

pub fn gen(rng: &mut Rng, depth: usize, g: &GenCfg) -> PExpr {
    if depth == 0 || rng.chance(1, 4) {
        if rng.below(16) < g.val16 {
            return Val(rng.chance(1, 2));
        }
        let c = *rng.pick(g.consts);
        return match rng.below(6) {
            0 => Eq(c),
            1 => Ge(c),
            2 => Le(c),
            3 => Ne(c),
            4 => Gt(c),
            _ => Lt(c),
        };
    }
    let raw = rng.below(16) < g.raw16;
    let sub = |rng: &mut Rng| Box::new(gen(rng, depth - 1, g));
    match rng.below(7) {
        0 | 1 | 2 => {
            let (a, b) = (sub(rng), sub(rng));
            // now and then repeat an operand so that the equality/absorption arms fire
            let b = if rng.chance(1, 8) { a.clone() } else { b };
            if raw { RAnd(a, b) } else { And(a, b) }
        }
        3 | 4 | 5 => {
            if raw {
                let n = rng.below(4) as usize;
                ROr((0..n).map(|_| gen(rng, depth - 1, g)).collect())
            } else {
                let (a, b) = (sub(rng), sub(rng));
                let b = if rng.chance(1, 8) { a.clone() } else { b };
                Or(a, b)
            }
        }
        _ => {
            let a = sub(rng);
            if raw { RNot(a) } else { Not(a) }
        }
    }
}
