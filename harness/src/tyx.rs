//! Type expressions of the grammar G shared by the C06 and C33 harnesses (included with `#[path] mod tyx;`).
//! Mirrors `ErgVerif.Ty` (lean/ErgVerif/Shared/Ty.lean). A `TX` is a 1-1 print of an `erg_compiler::ty::Type` VALUE
//! (bare enum variants, no smart constructor): the generators build types through the real constructors
//! (`v_enum`, `int_interval`, `or`, `and`, `list_t`, `tuple_t`), print the value they got with `show_type`, and `build`
//! reconstructs exactly that value for replays.
//!
//!   T ::= Name                         named variant (`Int`, `Obj`, …) or `Type::Mono(Name)`
//!       | (ref Base P)                 `Type::Refinement { var: "I", t: Base, pred: P }`, Base ∈ {Int, Nat, Bool, Str}
//!       | (or T T …)                   `Type::Or(Set)`, members sorted by printed form
//!       | (and T T …)                  `Type::And(Vec, None)`, in order
//!       | (list T n)                   `Poly { "List", [Type(T), Value(Nat n)] }`
//!       | (tuple T …)                  `Poly { "Tuple", [List [Type(T) …]] }`
//!   P ::= (val b) | (eq c) | (ge c) | (le c) | (ne c) | (and P P) | (or P …) | (not P)      bare `Predicate` variants;
//!         under Base = Str the constant `c` stands for the string literal "s<c>" (strings only meet `==`/`!=`).
#![allow(dead_code)]
use erg_common::set::Set;
use erg_common::Str;
use erg_compiler::ty::constructors;
use erg_compiler::ty::typaram::TyParam;
use erg_compiler::ty::value::ValueObj;
use erg_compiler::ty::{Predicate, RefinementType, Type};

#[derive(Clone, Debug, PartialEq)]
pub enum PX {
    Val(bool),
    Eq(i128),
    Ge(i128),
    Le(i128),
    Ne(i128),
    And(Box<PX>, Box<PX>),
    Or(Vec<PX>),
    Not(Box<PX>),
}

#[derive(Clone, Debug, PartialEq)]
pub enum TX {
    Mono(String),
    Ref(String, PX),
    Or(Vec<TX>),
    And(Vec<TX>),
    List(Box<TX>, u64),
    Tuple(Vec<TX>),
}

pub const SUBJECT: &str = "I";

pub fn int_const(c: i128) -> Option<TyParam> {
    if c >= 0 && c <= u64::MAX as i128 {
        Some(TyParam::Value(ValueObj::Nat(c as u64)))
    } else if c < 0 && c >= i32::MIN as i128 {
        Some(TyParam::Value(ValueObj::Int(c as i32)))
    } else {
        None
    }
}

fn constant(base: &str, c: i128) -> Option<TyParam> {
    match base {
        "Str" => Some(TyParam::Value(ValueObj::Str(Str::rc(&format!("s{}", c))))),
        _ => int_const(c),
    }
}

impl PX {
    pub fn to_sexp(&self) -> String {
        match self {
            PX::Val(b) => format!("(val {})", b),
            PX::Eq(c) => format!("(eq {})", c),
            PX::Ge(c) => format!("(ge {})", c),
            PX::Le(c) => format!("(le {})", c),
            PX::Ne(c) => format!("(ne {})", c),
            PX::And(a, b) => format!("(and {} {})", a.to_sexp(), b.to_sexp()),
            PX::Not(a) => format!("(not {})", a.to_sexp()),
            PX::Or(es) => {
                let mut ms: Vec<String> = es.iter().map(|e| e.to_sexp()).collect();
                ms.sort();
                ms.dedup();
                format!("(or{})", ms.iter().map(|m| format!(" {}", m)).collect::<String>())
            }
        }
    }
    pub fn build(&self, base: &str) -> Option<Predicate> {
        let s = || Str::ever(SUBJECT);
        Some(match self {
            PX::Val(b) => Predicate::Value(ValueObj::Bool(*b)),
            PX::Eq(c) => Predicate::eq(s(), constant(base, *c)?),
            PX::Ge(c) => Predicate::ge(s(), constant(base, *c)?),
            PX::Le(c) => Predicate::le(s(), constant(base, *c)?),
            PX::Ne(c) => Predicate::ne(s(), constant(base, *c)?),
            PX::And(a, b) => Predicate::And(Box::new(a.build(base)?), Box::new(b.build(base)?)),
            PX::Not(a) => Predicate::Not(Box::new(a.build(base)?)),
            PX::Or(es) => {
                let mut set = Set::new();
                for e in es {
                    set.insert(e.build(base)?);
                }
                Predicate::Or(set)
            }
        })
    }
    pub fn size(&self) -> usize {
        match self {
            PX::And(a, b) => 1 + a.size() + b.size(),
            PX::Not(a) => 1 + a.size(),
            PX::Or(es) => 1 + es.iter().map(|e| e.size()).sum::<usize>(),
            _ => 1,
        }
    }
}

impl TX {
    pub fn to_sexp(&self) -> String {
        match self {
            TX::Mono(n) => n.clone(),
            TX::Ref(b, p) => format!("(ref {} {})", b, p.to_sexp()),
            TX::Or(ts) => {
                let mut ms: Vec<String> = ts.iter().map(|e| e.to_sexp()).collect();
                ms.sort();
                ms.dedup();
                format!("(or{})", ms.iter().map(|m| format!(" {}", m)).collect::<String>())
            }
            TX::And(ts) => format!("(and{})", ts.iter().map(|m| format!(" {}", m.to_sexp())).collect::<String>()),
            TX::List(t, n) => format!("(list {} {})", t.to_sexp(), n),
            TX::Tuple(ts) => format!("(tuple{})", ts.iter().map(|m| format!(" {}", m.to_sexp())).collect::<String>()),
        }
    }
    /// the `Type` value this expression prints
    pub fn build(&self) -> Option<Type> {
        Some(match self {
            TX::Mono(n) => constructors::from_str(Str::rc(n)),
            TX::Ref(b, p) => {
                let t = constructors::from_str(Str::rc(b));
                Type::Refinement(RefinementType { var: Str::ever(SUBJECT), t: Box::new(t), pred: Box::new(p.build(b)?) })
            }
            TX::Or(ts) => {
                let mut set = Set::new();
                for t in ts {
                    set.insert(t.build()?);
                }
                Type::Or(set)
            }
            TX::And(ts) => {
                let mut v = vec![];
                for t in ts {
                    v.push(t.build()?);
                }
                Type::And(v, None)
            }
            TX::List(t, n) => constructors::list_t(t.build()?, TyParam::Value(ValueObj::Nat(*n))),
            TX::Tuple(ts) => {
                let mut v = vec![];
                for t in ts {
                    v.push(t.build()?);
                }
                constructors::tuple_t(v)
            }
        })
    }
    pub fn size(&self) -> usize {
        match self {
            TX::Mono(_) => 1,
            TX::Ref(_, p) => 1 + p.size(),
            TX::Or(ts) | TX::And(ts) | TX::Tuple(ts) => 1 + ts.iter().map(|t| t.size()).sum::<usize>(),
            TX::List(t, _) => 1 + t.size(),
        }
    }
    pub fn depth(&self) -> usize {
        match self {
            TX::Mono(_) | TX::Ref(..) => 0,
            TX::Or(ts) | TX::And(ts) | TX::Tuple(ts) => 1 + ts.iter().map(|t| t.depth()).max().unwrap_or(0),
            TX::List(t, _) => 1 + t.depth(),
        }
    }
}

fn show_const(base: &str, var: &Str, lhs: &Str, rhs: &TyParam) -> Option<i128> {
    if lhs != var {
        return None;
    }
    match (base, rhs) {
        ("Str", TyParam::Value(ValueObj::Str(s))) => s.strip_prefix('s').and_then(|d| d.parse::<i128>().ok()).filter(|k| format!("s{}", k) == &s[..]),
        ("Str", _) => None,
        (_, TyParam::Value(ValueObj::Int(i))) => Some(*i as i128),
        (_, TyParam::Value(ValueObj::Nat(n))) => Some(*n as i128),
        _ => None,
    }
}

pub fn show_pred(base: &str, var: &Str, p: &Predicate) -> Option<PX> {
    Some(match p {
        Predicate::Value(ValueObj::Bool(b)) => PX::Val(*b),
        Predicate::Equal { lhs, rhs } => PX::Eq(show_const(base, var, lhs, rhs)?),
        Predicate::GreaterEqual { lhs, rhs } => PX::Ge(show_const(base, var, lhs, rhs)?),
        Predicate::LessEqual { lhs, rhs } => PX::Le(show_const(base, var, lhs, rhs)?),
        Predicate::NotEqual { lhs, rhs } => PX::Ne(show_const(base, var, lhs, rhs)?),
        Predicate::And(l, r) => PX::And(Box::new(show_pred(base, var, l)?), Box::new(show_pred(base, var, r)?)),
        Predicate::Not(q) => PX::Not(Box::new(show_pred(base, var, q)?)),
        Predicate::Or(set) => {
            let mut v = vec![];
            for m in set.iter() {
                v.push(show_pred(base, var, m)?);
            }
            v.sort_by_key(|m| m.to_sexp());
            PX::Or(v)
        }
        _ => return None,
    })
}

/// the expression printing a `Type` value (None outside G)
pub fn show_type(t: &Type) -> Option<TX> {
    Some(match t {
        Type::Obj | Type::Int | Type::Nat | Type::Ratio | Type::Float | Type::Complex | Type::Bool | Type::Str | Type::NoneType
        | Type::Code | Type::Frame | Type::Error | Type::Inf | Type::NegInf | Type::Type | Type::ClassType | Type::TraitType
        | Type::Patch | Type::NotImplementedType | Type::Ellipsis | Type::Never => TX::Mono(format!("{}", t)),
        Type::Mono(n) => TX::Mono(n.to_string()),
        Type::Refinement(r) => {
            let base = match r.t.as_ref() {
                Type::Int => "Int",
                Type::Nat => "Nat",
                Type::Bool => "Bool",
                Type::Str => "Str",
                _ => return None,
            };
            TX::Ref(base.to_string(), show_pred(base, &r.var, &r.pred)?)
        }
        Type::Or(set) => {
            let mut v = vec![];
            for m in set.iter() {
                v.push(show_type(m)?);
            }
            v.sort_by_key(|m| m.to_sexp());
            TX::Or(v)
        }
        Type::And(ts, _) => {
            let mut v = vec![];
            for m in ts.iter() {
                v.push(show_type(m)?);
            }
            TX::And(v)
        }
        Type::Poly { name, params } if &name[..] == "List" && params.len() == 2 => {
            let TyParam::Type(el) = &params[0] else { return None };
            let TyParam::Value(ValueObj::Nat(n)) = &params[1] else { return None };
            TX::List(Box::new(show_type(el)?), *n)
        }
        Type::Poly { name, params } if &name[..] == "Tuple" && params.len() == 1 => {
            let TyParam::List(tps) = &params[0] else { return None };
            let mut v = vec![];
            for tp in tps {
                let TyParam::Type(el) = tp else { return None };
                v.push(show_type(el)?);
            }
            TX::Tuple(v)
        }
        _ => return None,
    })
}

pub fn show_type_or_oom(t: &Type) -> String {
    match show_type(t) {
        Some(x) => x.to_sexp(),
        None => format!("out-of-model({})", erg_harness::quote(&format!("{}", t))),
    }
}

// ------------------------------------------------------------------------------------------------ parsing (replay)

fn tokenize(s: &str) -> Vec<String> {
    let mut toks = vec![];
    let mut cur = String::new();
    for ch in s.chars() {
        match ch {
            '(' | ')' => {
                if !cur.is_empty() {
                    toks.push(std::mem::take(&mut cur));
                }
                toks.push(ch.to_string());
            }
            c if c.is_whitespace() => {
                if !cur.is_empty() {
                    toks.push(std::mem::take(&mut cur));
                }
            }
            c => cur.push(c),
        }
    }
    if !cur.is_empty() {
        toks.push(cur);
    }
    toks
}

fn parse_pred(t: &[String], pos: &mut usize) -> Option<PX> {
    if t.get(*pos)? != "(" {
        return None;
    }
    *pos += 1;
    let head = t.get(*pos)?.clone();
    *pos += 1;
    let e = match head.as_str() {
        "val" => {
            let b = match t.get(*pos)?.as_str() {
                "true" => true,
                "false" => false,
                _ => return None,
            };
            *pos += 1;
            PX::Val(b)
        }
        "eq" | "ge" | "le" | "ne" => {
            let c: i128 = t.get(*pos)?.parse().ok()?;
            *pos += 1;
            match head.as_str() {
                "eq" => PX::Eq(c),
                "ge" => PX::Ge(c),
                "le" => PX::Le(c),
                _ => PX::Ne(c),
            }
        }
        "and" => {
            let a = parse_pred(t, pos)?;
            let b = parse_pred(t, pos)?;
            PX::And(Box::new(a), Box::new(b))
        }
        "not" => PX::Not(Box::new(parse_pred(t, pos)?)),
        "or" => {
            let mut es = vec![];
            while t.get(*pos)? != ")" {
                es.push(parse_pred(t, pos)?);
            }
            PX::Or(es)
        }
        _ => return None,
    };
    if t.get(*pos)? != ")" {
        return None;
    }
    *pos += 1;
    Some(e)
}

fn parse_ty(t: &[String], pos: &mut usize) -> Option<TX> {
    let tok = t.get(*pos)?.clone();
    if tok == ")" {
        return None;
    }
    if tok != "(" {
        *pos += 1;
        return Some(TX::Mono(tok));
    }
    *pos += 1;
    let head = t.get(*pos)?.clone();
    *pos += 1;
    let e = match head.as_str() {
        "ref" => {
            let b = t.get(*pos)?.clone();
            *pos += 1;
            TX::Ref(b, parse_pred(t, pos)?)
        }
        "or" | "and" | "tuple" => {
            let mut es = vec![];
            while t.get(*pos)? != ")" {
                es.push(parse_ty(t, pos)?);
            }
            match head.as_str() {
                "or" => TX::Or(es),
                "and" => TX::And(es),
                _ => TX::Tuple(es),
            }
        }
        "list" => {
            let e = parse_ty(t, pos)?;
            let n: u64 = t.get(*pos)?.parse().ok()?;
            *pos += 1;
            TX::List(Box::new(e), n)
        }
        _ => return None,
    };
    if t.get(*pos)? != ")" {
        return None;
    }
    *pos += 1;
    Some(e)
}

/// parse several type expressions in sequence
pub fn parse_types(s: &str) -> Option<Vec<TX>> {
    let toks = tokenize(s);
    let mut pos = 0;
    let mut v = vec![];
    while pos < toks.len() {
        v.push(parse_ty(&toks, &mut pos)?);
    }
    Some(v)
}
