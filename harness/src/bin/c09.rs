//! C09: the parser is total and never exhausts the stack.
//!   c09 gen --seed S --n N --tier T   -> id \t <input> \t <outcome>
//!   c09 replay                        -> the same for `id \t <input>` lines on stdin
//!   c09 child <kind> <depth>          -> (internal) parse one nesting ladder in a thread created by
//!                                        erg_common::spawn::exec_new_thread (STACK_SIZE) and print the outcome;
//!                                        run as a CHILD PROCESS so that a stack overflow (SIGSEGV/SIGABRT) is an outcome.
//! inputs:  (ladder <kind> <depth>)       outcome: ok | err | overflow(<how the child died>) | crash("<panic>")
//!          (text "<source>")             outcome: total | crash("<panic>") | inconsistent(<why>)   (in-process, catch_unwind)
use erg_common::spawn::exec_new_thread;
use erg_harness::*;
use erg_common::traits::Stream;
use erg_parser::lex::Lexer;
use erg_parser::Parser;

const KINDS: &[&str] = &["paren", "sqbr", "brace", "call", "index", "unary", "lambda", "block", "mixed"];

fn ladder(kind: &str, d: usize) -> String {
    match kind {
        "paren" => format!("x = {}1{}\n", "(".repeat(d), ")".repeat(d)),
        "sqbr" => format!("x = {}1{}\n", "[".repeat(d), "]".repeat(d)),
        "brace" => format!("x = {}1{}\n", "{".repeat(d), "}".repeat(d)),
        "call" => format!("x = {}1{}\n", "f(".repeat(d), ")".repeat(d)),
        "index" => format!("x = a{}0{}\n", "[a".repeat(d), "]".repeat(d)),
        "unary" => format!("x = {}1\n", "- ".repeat(d)),
        "lambda" => {
            let mut s = String::from("f = ");
            for i in 0..d {
                s.push_str(&format!("x{} -> ", i));
            }
            s.push_str("1\n");
            s
        }
        "block" => {
            // nested definitions, one space of indentation per level (the lexer rejects indentation above 100 columns)
            let mut s = String::new();
            for i in 0..d {
                s.push_str(&" ".repeat(i));
                s.push_str(&format!("f{} =\n", i));
            }
            s.push_str(&" ".repeat(d));
            s.push_str("1\n");
            for i in (1..d).rev() {
                s.push_str(&" ".repeat(i));
                s.push_str(&format!("f{}\n", i));
            }
            s
        }
        _ => {
            // mixed: ( [ { f( cycling
            let opens = ["(", "[", "{", "f("];
            let closes = [")", "]", "}", ")"];
            let mut s = String::from("x = ");
            for i in 0..d {
                s.push_str(opens[i % 4]);
            }
            s.push('1');
            for i in (0..d).rev() {
                s.push_str(closes[i % 4]);
            }
            s.push('\n');
            s
        }
    }
}

/// lex + parse; "ok" = a tree and no error, "err" = at least one error (lexical or syntactic)
fn parse_outcome(src: String) -> Result<&'static str, String> {
    let ts = match Lexer::from_str(src).lex() {
        Ok(ts) => ts,
        Err((_, errs)) => {
            return if errs.is_empty() { Err("lexer failed without an error".into()) } else { Ok("err") };
        }
    };
    // the parser proper, then the desugaring pass of `SimpleParser::parse` (crates/erg_parser/desugar.rs)
    match Parser::new(ts).parse() {
        Ok(art) => {
            let _ = erg_parser::desugar::Desugarer::new().desugar(art.ast);
            Ok("ok")
        }
        Err(iart) => {
            if iart.errors.is_empty() {
                return Err("parser failed without an error".into());
            }
            if let Some(m) = iart.ast {
                let _ = erg_parser::desugar::Desugarer::new().desugar(m);
            }
            Ok("err")
        }
    }
}

fn child(kind: &str, depth: usize) {
    let src = ladder(kind, depth);
    let out = exec_new_thread(
        move || match catch(move || parse_outcome(src)) {
            Ok(Ok(s)) => s.to_string(),
            Ok(Err(why)) => format!("inconsistent({})", why),
            Err(p) => format!("crash({})", quote(&p)),
        },
        "erg",
    );
    println!("{}", out);
}

fn run_ladder(id: &str, kind: &str, depth: usize) {
    let exe = std::env::current_exe().unwrap();
    let out = std::process::Command::new(exe).args(["child", kind, &depth.to_string()]).output();
    let outcome = match out {
        Ok(o) => {
            let s = String::from_utf8_lossy(&o.stdout).trim().to_string();
            if o.status.success() && !s.is_empty() {
                s
            } else {
                use std::os::unix::process::ExitStatusExt;
                match o.status.signal() {
                    Some(sig) => format!("overflow(signal-{})", sig),
                    None => format!("overflow(exit-{})", o.status.code().unwrap_or(-1)),
                }
            }
        }
        Err(e) => format!("crash({})", quote(&e.to_string())),
    };
    println!("{}\t(ladder {} {})\t{}", id, kind, depth, outcome);
}

fn run_text(id: &str, src: &str) {
    let s = src.to_string();
    let outcome = match catch(move || parse_outcome(s)) {
        Ok(Ok(_)) => "total".to_string(),
        Ok(Err(why)) => format!("inconsistent({})", why),
        Err(p) => format!("crash({})", quote(&p)),
    };
    println!("{}\t(text {})\t{}", id, quote(src), outcome);
}

const POOL: &[&str] = &[
    "x", "y", "f", "C", "1", "2.5", "\"s\"", "True", "None", "+", "-", "*", "**", "/", "//", "%", "==", "!=", "<", ">", "<=", ">=",
    "and", "or", "in", "notin", "is!", "(", ")", "[", "]", "{", "}", ",", ":", "::", ".", "..", "..<", "=", ":=", "->", "=>", "|", "||",
    "&&", "^^", "~", "!", "?", "@", "\n", "\n    ", "\n        ", ";", "do", "do!", "if", "for!", "match", "ref", "ref!", "as", "<:", ":>",
    "|>", "_", "#c\n", "'a'", "\\\n", "...", "<-", "x.y", "f(1)", "a[0]", "\"{x}\"", "\"a{", "}b\"",
];

fn seeds(repo: &str) -> Vec<String> {
    let mut v = vec![];
    for dir in ["crates/erg_parser/tests", "examples", "tests/should_ok", "tests/should_err"] {
        if let Ok(rd) = std::fs::read_dir(format!("{}/{}", repo, dir)) {
            let mut names: Vec<_> = rd.filter_map(|e| e.ok()).map(|e| e.path()).filter(|p| p.extension().map(|x| x == "er").unwrap_or(false)).collect();
            names.sort();
            for p in names {
                if let Ok(s) = std::fs::read_to_string(&p) {
                    if s.len() < 6000 {
                        v.push(s);
                    }
                }
            }
        }
    }
    v
}

fn mutate(rng: &mut Rng, s: &str) -> String {
    let cs: Vec<char> = s.chars().collect();
    if cs.is_empty() {
        return String::new();
    }
    match rng.below(5) {
        0 => cs[..rng.below(cs.len() as u64 + 1) as usize].iter().collect(), // truncation
        1 => {
            // delete a span
            let a = rng.below(cs.len() as u64) as usize;
            let b = (a + rng.below(12) as usize + 1).min(cs.len());
            cs[..a].iter().chain(cs[b..].iter()).collect()
        }
        2 => {
            // insert a token from the pool
            let a = rng.below(cs.len() as u64 + 1) as usize;
            let t = POOL[rng.below(POOL.len() as u64) as usize];
            cs[..a].iter().collect::<String>() + t + &cs[a..].iter().collect::<String>()
        }
        3 => {
            // replace one character by a bracket/quote/newline
            let a = rng.below(cs.len() as u64) as usize;
            let r = ['(', ')', '[', ']', '{', '}', '"', '\n', ' ', '\\', ':', '.'][rng.below(12) as usize];
            let mut c2 = cs.clone();
            c2[a] = r;
            c2.into_iter().collect()
        }
        _ => {
            // a line range only
            let lines: Vec<&str> = s.lines().collect();
            let a = rng.below(lines.len() as u64) as usize;
            let b = (a + rng.below(6) as usize + 1).min(lines.len());
            lines[a..b].join("\n") + "\n"
        }
    }
}


// ---------------------------------------------------------------------------- structured stream: types, signatures, patterns

fn pick<'a>(rng: &mut Rng, xs: &[&'a str]) -> &'a str {
    xs[rng.below(xs.len() as u64) as usize]
}

const BASE_TYPES: &[&str] = &[
    "Int", "Nat", "Str", "Bool", "T", "_", "Obj", "{1, 2}", "1..10", "[Int; 3]", "{Str: Int}", "(Int, Str)", "Int or Str",
    "Int and Nat", "not Int", "List(Int)", "List!(Int, 2)", "{x = Int}", "{I: Int | I >= 0}", "Type", "?T", "Self", "C.T", "'a'",
];
const NAMES: &[&str] = &["a", "b", "x", "y", "n", "self", "T", "_"];
const PATTERNS: &[&str] = &["[a, b]", "[a, *b]", "(a, b)", "{x; y}", "0", "1", "\"s\"", "True", "None", "ref x", "ref! x", "_", "()", "[]", "*", "**"];

fn ty(rng: &mut Rng, d: u32) -> String {
    if d == 0 || rng.chance(1, 2) {
        return pick(rng, BASE_TYPES).to_string();
    }
    let arrow = if rng.chance(3, 4) { "->" } else { "=>" };
    let ret = ty(rng, d - 1);
    if rng.chance(1, 4) {
        // a single parameter without parentheses
        format!("{} {} {}", ty_param(rng, d - 1), arrow, ret)
    } else {
        let n = rng.below(4);
        let ps: Vec<String> = (0..n).map(|_| ty_param(rng, d - 1)).collect();
        format!("({}) {} {}", ps.join(", "), arrow, ret)
    }
}

/// a parameter of a function TYPE (lambda_to_subr_type_spec): types, names, discards, `*`/`**`, defaults, patterns
fn ty_param(rng: &mut Rng, d: u32) -> String {
    let name = pick(rng, NAMES);
    match rng.below(14) {
        0 | 1 | 2 => ty(rng, d),
        3 => "_".to_string(),
        4 => format!("_: {}", ty(rng, d)),
        5 => format!("{}: {}", name, ty(rng, d)),
        6 => name.to_string(),
        7 => format!("*{}", name),
        8 => format!("*{}: {}", name, ty(rng, d)),
        9 => format!("**{}", name),
        10 => format!("**{}: {}", name, ty(rng, d)),
        11 => format!("{} := {}", name, ty(rng, d)),
        12 => format!("{}: {} := {}", name, ty(rng, d), ty(rng, d)),
        _ => pick(rng, PATTERNS).to_string(),
    }
}

/// a parameter of a DEFINITION or lambda
fn def_param(rng: &mut Rng) -> String {
    let name = pick(rng, NAMES);
    match rng.below(12) {
        0 | 1 => name.to_string(),
        2 | 3 => format!("{}: {}", name, ty(rng, 1)),
        4 => format!("*{}", name),
        5 => format!("**{}", name),
        6 => format!("{} := 1", name),
        7 => format!("{}: {} := 1", name, ty(rng, 1)),
        8 => format!("*{}: {}", name, ty(rng, 1)),
        _ => pick(rng, PATTERNS).to_string(),
    }
}

fn def_params(rng: &mut Rng) -> String {
    let n = rng.below(4);
    let ps: Vec<String> = (0..n).map(|_| def_param(rng)).collect();
    ps.join(", ")
}

fn structured(rng: &mut Rng) -> String {
    let mut out = String::new();
    let stmts = rng.below(3) + 1;
    for _ in 0..stmts {
        let s = match rng.below(12) {
            0 | 1 => format!("x: {} = f", ty(rng, 2)),
            2 => format!("x: {}", ty(rng, 2)),
            3 => format!("f({}): {} = 1", def_params(rng), ty(rng, 2)),
            4 => format!("f({}) = 1", def_params(rng)),
            5 => format!("f {} = 1", def_params(rng)),
            6 => format!("f|T <: {}| x: T = x", ty(rng, 1)),
            7 => format!("g = ({}) -> 1", def_params(rng)),
            8 => {
                // multi-clause (pattern-matching) definition: desugared into one `match`
                let n = rng.below(3) + 2;
                let mut v = vec![];
                for _ in 0..n {
                    if rng.chance(1, 3) { v.push(format!("f({}) = 1", def_params(rng))); } else { v.push(format!("f {} = 1", def_params(rng))); }
                }
                v.join("\n")
            }
            9 => format!("for! xs, ({}) =>\n    print! 1", def_param(rng)),
            10 => format!("y = match x:\n    {} -> 1\n    _ -> 2", def_param(rng)),
            _ => format!(".f: {}", ty(rng, 2)),
        };
        out.push_str(&s);
        out.push('\n');
    }
    out
}

fn main() {
    let a = parse_args();
    match a.mode.as_str() {
        "child" => {
            let kind = a.rest.first().cloned().unwrap_or_default();
            let depth: usize = a.rest.get(1).and_then(|s| s.parse().ok()).unwrap_or(1);
            child(&kind, depth);
        }
        "gen" => {
            quiet_panics();
            let depths: Vec<usize> = if a.tier == "thorough" {
                (1..=20).chain((25..=300).step_by(5)).chain((350..=1000).step_by(50)).collect()
            } else {
                vec![1, 2, 3, 5, 10, 20, 40, 100, 101, 120, 150, 200, 201, 250, 300, 500, 1000]
            };
            let mut id = 0;
            // `texts-only`: skip the ladders (used when searching the totality stream over many seeds)
            let kinds: &[&str] = if a.rest.iter().any(|x| x == "texts-only") { &[] } else { KINDS };
            for k in kinds {
                for d in &depths {
                    run_ladder(&format!("l{}", id), k, *d);
                    id += 1;
                }
            }
            let repo = std::env::var("ERG_REPO").unwrap_or("/repo".into());
            let seeds = seeds(&repo);
            let mut rng = Rng::new(a.seed);
            // everything below runs in a thread with the analysis stack size, panics are caught per case
            let n = a.n;
            exec_new_thread(
                move || {
                    for i in 0..n {
                        let which = rng.below(3);
                        let src = if which == 2 {
                            // typed / pattern programs, half of them with one token-level mutation
                            let s = structured(&mut rng);
                            if rng.chance(1, 2) { mutate(&mut rng, &s) } else { s }
                        } else if which == 0 || seeds.is_empty() {
                            let len = rng.below(25) + 1;
                            let mut s = String::new();
                            for _ in 0..len {
                                s.push_str(POOL[rng.below(POOL.len() as u64) as usize]);
                                if rng.chance(3, 4) { s.push(' '); }
                            }
                            s
                        } else {
                            let mut s = seeds[rng.below(seeds.len() as u64) as usize].clone();
                            for _ in 0..(rng.below(3) + 1) { s = mutate(&mut rng, &s); }
                            s
                        };
                        run_text(&format!("t{}", i), &src);
                    }
                },
                "erg",
            );
        }
        "replay" => {
            quiet_panics();
            for (id, input) in stdin_cases() {
                let t = input.trim();
                if let Some(rest) = t.strip_prefix("(ladder ").and_then(|s| s.strip_suffix(")")) {
                    let mut it = rest.split(' ');
                    let k = it.next().unwrap_or("paren").to_string();
                    let d: usize = it.next().and_then(|s| s.parse().ok()).unwrap_or(1);
                    run_ladder(&id, &k, d);
                } else if let Some(inner) = t.strip_prefix("(text ").and_then(|s| s.strip_suffix(")")) {
                    match unquote(inner) {
                        Some(p) => { let id2 = id.clone(); exec_new_thread(move || run_text(&id2, &p), "erg") }
                        None => println!("{}\t{}\tbad-input", id, input),
                    }
                } else {
                    println!("{}\t{}\tbad-input", id, input);
                }
            }
        }
        _ => {
            eprintln!("usage: c09 gen|replay|child");
            std::process::exit(2);
        }
    }
}
