//! C09: the parser is total and never exhausts the stack.
//!   c09 gen --seed S --n N --tier T   -> id \t <input> \t <outcome>
//!   c09 replay                        -> the same for `id \t <input>` lines on stdin
//!   c09 child <kind> <depth>          -> (internal) parse one nesting ladder in a thread created by
//!                                        erg_common::spawn::exec_new_thread (STACK_SIZE) and print the outcome;
//!                                        run as a CHILD PROCESS so that a stack overflow (SIGSEGV/SIGABRT) is an outcome.
//! inputs:  (ladder <kind> <depth>)       outcome: ok | err | overflow(<how the child died>) | crash("<panic>")
//!          (text "<source>")             outcome: total | crash("<panic>") | inconsistent(<why>)   (in-process, catch_unwind)
use erg_common::spawn::exec_new_thread;
use erg_harness::*;
use erg_common::traits::Stream;
use erg_parser::lex::Lexer;
use erg_parser::Parser;

const KINDS: &[&str] = &["paren", "sqbr", "brace", "call", "index", "unary", "lambda", "block", "mixed"];

fn ladder(kind: &str, d: usize) -> String {
    match kind {
        "paren" => format!("x = {}1{}\n", "(".repeat(d), ")".repeat(d)),
        "sqbr" => format!("x = {}1{}\n", "[".repeat(d), "]".repeat(d)),
        "brace" => format!("x = {}1{}\n", "{".repeat(d), "}".repeat(d)),
        "call" => format!("x = {}1{}\n", "f(".repeat(d), ")".repeat(d)),
        "index" => format!("x = a{}0{}\n", "[a".repeat(d), "]".repeat(d)),
        "unary" => format!("x = {}1\n", "- ".repeat(d)),
        "lambda" => {
            let mut s = String::from("f = ");
            for i in 0..d {
                s.push_str(&format!("x{} -> ", i));
            }
            s.push_str("1\n");
            s
        }
        "block" => {
            // nested definitions, one space of indentation per level (the lexer rejects indentation above 100 columns)
            let mut s = String::new();
            for i in 0..d {
                s.push_str(&" ".repeat(i));
                s.push_str(&format!("f{} =\n", i));
            }
            s.push_str(&" ".repeat(d));
            s.push_str("1\n");
            for i in (1..d).rev() {
                s.push_str(&" ".repeat(i));
                s.push_str(&format!("f{}\n", i));
            }
            s
        }
        _ => {
            // mixed: ( [ { f( cycling
            let opens = ["(", "[", "{", "f("];
            let closes = [")", "]", "}", ")"];
            let mut s = String::from("x = ");
            for i in 0..d {
                s.push_str(opens[i % 4]);
            }
            s.push('1');
            for i in (0..d).rev() {
                s.push_str(closes[i % 4]);
            }
            s.push('\n');
            s
        }
    }
}

/// lex + parse; "ok" = a tree and no error, "err" = at least one error (lexical or syntactic)
fn parse_outcome(src: String) -> Result<&'static str, String> {
    let ts = match Lexer::from_str(src).lex() {
        Ok(ts) => ts,
        Err((_, errs)) => {
            return if errs.is_empty() { Err("lexer failed without an error".into()) } else { Ok("err") };
        }
    };
    match Parser::new(ts).parse() {
        Ok(_) => Ok("ok"),
        Err(iart) => {
            if iart.errors.is_empty() { Err("parser failed without an error".into()) } else { Ok("err") }
        }
    }
}

fn child(kind: &str, depth: usize) {
    let src = ladder(kind, depth);
    let out = exec_new_thread(
        move || match catch(move || parse_outcome(src)) {
            Ok(Ok(s)) => s.to_string(),
            Ok(Err(why)) => format!("inconsistent({})", why),
            Err(p) => format!("crash({})", quote(&p)),
        },
        "erg",
    );
    println!("{}", out);
}

fn run_ladder(id: &str, kind: &str, depth: usize) {
    let exe = std::env::current_exe().unwrap();
    let out = std::process::Command::new(exe).args(["child", kind, &depth.to_string()]).output();
    let outcome = match out {
        Ok(o) => {
            let s = String::from_utf8_lossy(&o.stdout).trim().to_string();
            if o.status.success() && !s.is_empty() {
                s
            } else {
                use std::os::unix::process::ExitStatusExt;
                match o.status.signal() {
                    Some(sig) => format!("overflow(signal-{})", sig),
                    None => format!("overflow(exit-{})", o.status.code().unwrap_or(-1)),
                }
            }
        }
        Err(e) => format!("crash({})", quote(&e.to_string())),
    };
    println!("{}\t(ladder {} {})\t{}", id, kind, depth, outcome);
}

fn run_text(id: &str, src: &str) {
    let s = src.to_string();
    let outcome = match catch(move || parse_outcome(s)) {
        Ok(Ok(_)) => "total".to_string(),
        Ok(Err(why)) => format!("inconsistent({})", why),
        Err(p) => format!("crash({})", quote(&p)),
    };
    println!("{}\t(text {})\t{}", id, quote(src), outcome);
}

const POOL: &[&str] = &[
    "x", "y", "f", "C", "1", "2.5", "\"s\"", "True", "None", "+", "-", "*", "**", "/", "//", "%", "==", "!=", "<", ">", "<=", ">=",
    "and", "or", "in", "notin", "is!", "(", ")", "[", "]", "{", "}", ",", ":", "::", ".", "..", "..<", "=", ":=", "->", "=>", "|", "||",
    "&&", "^^", "~", "!", "?", "@", "\n", "\n    ", "\n        ", ";", "do", "do!", "if", "for!", "match", "ref", "ref!", "as", "<:", ":>",
    "|>", "_", "#c\n", "'a'", "\\\n", "...", "<-", "x.y", "f(1)", "a[0]", "\"{x}\"", "\"a{", "}b\"",
];

fn seeds(repo: &str) -> Vec<String> {
    let mut v = vec![];
    for dir in ["crates/erg_parser/tests", "examples", "tests/should_ok"] {
        if let Ok(rd) = std::fs::read_dir(format!("{}/{}", repo, dir)) {
            let mut names: Vec<_> = rd.filter_map(|e| e.ok()).map(|e| e.path()).filter(|p| p.extension().map(|x| x == "er").unwrap_or(false)).collect();
            names.sort();
            for p in names {
                if let Ok(s) = std::fs::read_to_string(&p) {
                    if s.len() < 6000 {
                        v.push(s);
                    }
                }
            }
        }
    }
    v
}

fn mutate(rng: &mut Rng, s: &str) -> String {
    let cs: Vec<char> = s.chars().collect();
    if cs.is_empty() {
        return String::new();
    }
    match rng.below(5) {
        0 => cs[..rng.below(cs.len() as u64 + 1) as usize].iter().collect(), // truncation
        1 => {
            // delete a span
            let a = rng.below(cs.len() as u64) as usize;
            let b = (a + rng.below(12) as usize + 1).min(cs.len());
            cs[..a].iter().chain(cs[b..].iter()).collect()
        }
        2 => {
            // insert a token from the pool
            let a = rng.below(cs.len() as u64 + 1) as usize;
            let t = POOL[rng.below(POOL.len() as u64) as usize];
            cs[..a].iter().collect::<String>() + t + &cs[a..].iter().collect::<String>()
        }
        3 => {
            // replace one character by a bracket/quote/newline
            let a = rng.below(cs.len() as u64) as usize;
            let r = ['(', ')', '[', ']', '{', '}', '"', '\n', ' ', '\\', ':', '.'][rng.below(12) as usize];
            let mut c2 = cs.clone();
            c2[a] = r;
            c2.into_iter().collect()
        }
        _ => {
            // a line range only
            let lines: Vec<&str> = s.lines().collect();
            let a = rng.below(lines.len() as u64) as usize;
            let b = (a + rng.below(6) as usize + 1).min(lines.len());
            lines[a..b].join("\n") + "\n"
        }
    }
}

fn main() {
    let a = parse_args();
    match a.mode.as_str() {
        "child" => {
            let kind = a.rest.first().cloned().unwrap_or_default();
            let depth: usize = a.rest.get(1).and_then(|s| s.parse().ok()).unwrap_or(1);
            child(&kind, depth);
        }
        "gen" => {
            quiet_panics();
            let depths: Vec<usize> = if a.tier == "thorough" {
                (1..=20).chain((25..=300).step_by(5)).chain((350..=1000).step_by(50)).collect()
            } else {
                vec![1, 2, 3, 5, 10, 20, 40, 100, 101, 120, 150, 200, 201, 250, 300, 500, 1000]
            };
            let mut id = 0;
            for k in KINDS {
                for d in &depths {
                    run_ladder(&format!("l{}", id), k, *d);
                    id += 1;
                }
            }
            let repo = std::env::var("ERG_REPO").unwrap_or("/repo".into());
            let seeds = seeds(&repo);
            let mut rng = Rng::new(a.seed);
            // everything below runs in a thread with the analysis stack size, panics are caught per case
            let n = a.n;
            exec_new_thread(
                move || {
                    for i in 0..n {
                        let src = if rng.chance(1, 2) || seeds.is_empty() {
                            let len = rng.below(25) + 1;
                            let mut s = String::new();
                            for _ in 0..len {
                                s.push_str(POOL[rng.below(POOL.len() as u64) as usize]);
                                if rng.chance(3, 4) { s.push(' '); }
                            }
                            s
                        } else {
                            let mut s = seeds[rng.below(seeds.len() as u64) as usize].clone();
                            for _ in 0..(rng.below(3) + 1) { s = mutate(&mut rng, &s); }
                            s
                        };
                        run_text(&format!("t{}", i), &src);
                    }
                },
                "erg",
            );
        }
        "replay" => {
            quiet_panics();
            for (id, input) in stdin_cases() {
                let t = input.trim();
                if let Some(rest) = t.strip_prefix("(ladder ").and_then(|s| s.strip_suffix(")")) {
                    let mut it = rest.split(' ');
                    let k = it.next().unwrap_or("paren").to_string();
                    let d: usize = it.next().and_then(|s| s.parse().ok()).unwrap_or(1);
                    run_ladder(&id, &k, d);
                } else if let Some(inner) = t.strip_prefix("(text ").and_then(|s| s.strip_suffix(")")) {
                    match unquote(inner) {
                        Some(p) => { let id2 = id.clone(); exec_new_thread(move || run_text(&id2, &p), "erg") }
                        None => println!("{}\t{}\tbad-input", id, input),
                    }
                } else {
                    println!("{}\t{}\tbad-input", id, input);
                }
            }
        }
        _ => {
            eprintln!("usage: c09 gen|replay|child");
            std::process::exit(2);
        }
    }
}
