//! C22: the real `SideEffectChecker::check` on programs lowered by the real front end.
//! line: id \t (src "<erg source>") <mini-HIR of the lowered module> \t (errs (<kind> <line> <col>)…)
//! kinds: effect | procassign | touchmut (ctordtor => `out-of-model(ctor-dtor)`: needs the Context, not modelled).
//! Programs the front end rejects are printed with impl `(lower-error …)` (the model declines them: out-of-model).
use erg_common::traits::Stream;
use erg_compiler::effectcheck::SideEffectChecker;
use erg_harness::minihir::*;
use erg_harness::*;

fn run_case(id: &str, src: &str) {
    let s = src.to_string();
    let out = catch(std::panic::AssertUnwindSafe(move || -> (String, String) {
        let lo = match lower(&s) {
            Ok(l) => l,
            Err(e) => return (String::new(), e),
        };
        let mut pj = Proj::new(None);
        let hir_s = match pj.module(&lo.hir.module.iter().cloned().collect::<Vec<_>>()) {
            Ok(h) => h,
            Err(e) => return (String::new(), e),
        };
        let ns = lo.builder.current_ctx().name.clone();
        let chk = SideEffectChecker::new(lo.cfg.clone(), lo.builder.current_ctx());
        let hir = lo.hir.clone();
        let errs = match chk.check(hir, ns) {
            Ok(_) => vec![],
            Err((_, errs)) => errs.iter().map(|e| {
                (effect_kind(&e.core.main_message), e.core.loc.ln_begin().unwrap_or(0), e.core.loc.col_begin().unwrap_or(0))
            }).collect::<Vec<_>>(),
        };
        if errs.iter().any(|e| e.0 == "ctordtor") {
            return (hir_s, "out-of-model(ctor-dtor)".to_string());
        }
        (hir_s, sorted_errs(errs))
    }));
    match out {
        Ok((h, o)) => println!("{}\t(src {}){}{}\t{}", id, quote(src), if h.is_empty() { "" } else { " " }, h, o),
        Err(e) => println!("{}\t(src {})\tcrash({})", id, quote(src), quote(&e)),
    }
}

// ---------------------------------------------------------------------------------------------- generator

#[derive(Clone, Copy, PartialEq)]
enum Ty { Int, NoneT, Other }

/// a body under construction: statement lines + the type of its last line (a single-line expression)
struct Body { lines: Vec<String>, ty: Ty }

struct Gen { rng: Rng, ctr: usize, hist: std::collections::BTreeMap<String, usize> }

impl Gen {
    fn fresh(&mut self, p: &str) -> String { self.ctr += 1; format!("{}{}", p, self.ctr) }
    fn note(&mut self, k: &str) { *self.hist.entry(k.to_string()).or_insert(0) += 1; }

    fn atom(&mut self, allow_pure: bool) -> Body {
        let n = if allow_pure { 10 } else { 7 };
        let (k, line, ty) = match self.rng.below(n) {
            0 | 1 => ("print", "print!(x)".to_string(), Ty::NoneT),
            2 => ("proc-call", "one!()".to_string(), Ty::Int),
            3 => ("proc-method", "v.push!(1)".to_string(), Ty::NoneT),
            4 => ("mut-read", "v".to_string(), Ty::Other),
            5 => ("is!", "x is! x".to_string(), Ty::Other),
            6 => ("mut-attr", "rec.a".to_string(), Ty::Other),
            7 => ("pure-lit", "1".to_string(), Ty::Int),
            8 => ("pure-call", "idf(2)".to_string(), Ty::Int),
            _ => ("pure-var", "x".to_string(), Ty::Other),
        };
        self.note(&format!("atom:{}", k));
        Body { lines: vec![line], ty }
    }

    fn indent(lines: &[String]) -> Vec<String> { lines.iter().map(|l| format!("    {}", l)).collect() }

    /// one nesting layer around `b`
    fn wrap(&mut self, b: Body) -> Body {
        let single = b.lines.len() == 1;
        let choice = self.rng.below(if single { 24 } else { 9 });
        let e = b.lines.last().unwrap().clone();
        let mut pre: Vec<String> = b.lines[..b.lines.len() - 1].to_vec();
        let mut blockw = |this: &mut Self, head: String, tail: Option<String>, ty: Ty, k: &str| -> Body {
            this.note(&format!("wrap:{}", k));
            let mut l = vec![head];
            l.extend(Self::indent(&b.lines));
            if let Some(t) = tail { l.push(t); }
            Body { lines: l, ty }
        };
        match choice {
            // ---- block wrappers (accept multi-line bodies)
            0 | 1 => { let y = self.fresh("y"); blockw(self, format!("{} =", y), Some(y.clone()), b.ty, "instant") }
            2 => { let h = self.fresh("h"); blockw(self, format!("{} w =", h), Some(format!("{}(1)", h)), b.ty, "inner-func") }
            3 => { let q = self.fresh("q"); blockw(self, format!("{}! w =", q), Some("0".into()), Ty::Int, "inner-proc") }
            4 => { let l = self.fresh("l"); blockw(self, format!("{} = w ->", l), Some("0".into()), Ty::Int, "func-lambda") }
            5 => { let l = self.fresh("l"); blockw(self, format!("{}! = w =>", l), Some("0".into()), Ty::Int, "proc-lambda") }
            6 => blockw(self, "if x == 1, do:".to_string(), None, Ty::Other, "if-do"),
            7 => { let y = self.fresh("y"); blockw(self, format!("{} =", y), Some("0".into()), Ty::Int, "instant-discarded") }
            8 => { let y = self.fresh("y"); blockw(self, format!("{} = id do:", y), Some("0".into()), Ty::Int, "do-block-arg") }
            // ---- inline wrappers (single-line bodies)
            _ => {
                let (k, line, ty) = match choice {
                    9 => ("call-arg", format!("idf({})", e), b.ty),
                    10 => ("call-arg2", format!("fst({}, 1)", e), b.ty),
                    11 => ("var-arg", format!("g(*[{}])", e), Ty::Int),
                    12 => ("kwvar-arg", format!("k(**{{\"a\": {}}})", e), Ty::Int),
                    13 => ("kw-arg", format!("idf(x := {})", e), b.ty),
                    14 => ("list", format!("[{}]", e), Ty::Other),
                    15 => ("tuple", format!("({}, 1)", e), Ty::Other),
                    16 => ("dict", format!("{{\"a\": {}}}", e), Ty::Other),
                    17 => ("record", format!("{{a = {}; b = 2}}", e), Ty::Other),
                    18 => ("func-lambda-inline", format!("(w -> {})", e), Ty::Other),
                    19 => ("proc-lambda-inline", format!("(w => {})", e), Ty::Other),
                    20 if b.ty == Ty::Int => ("binop", format!("{} + 1", e), Ty::Int),
                    21 if b.ty == Ty::Int => ("attr-recv", format!("({}).real", e), Ty::Int),
                    22 => ("default-arg", {
                        let h = self.fresh("h");
                        pre.push(format!("{} w, z := {} = w", h, e));
                        format!("{}(1)", h)
                    }, Ty::Int),
                    23 => ("const-sibling", { let c = self.fresh("C"); pre.push(format!("{} = 1", c)); e.clone() }, b.ty),
                    _ => ("set", format!("{{{}}}", e), Ty::Other),
                };
                self.note(&format!("wrap:{}", k));
                pre.push(line);
                Body { lines: pre, ty }
            }
        }
    }

    /// the outermost context of one test item
    fn context(&mut self, b: Body) -> Vec<String> {
        let i = self.fresh("t");
        let c = self.rng.below(10);
        let (k, head): (&str, Option<String>) = match c {
            0 | 1 | 2 => ("function", Some(format!("f{} x =", i))),
            3 | 4 => ("procedure", Some(format!("p{}! x =", i))),
            5 => ("toplevel", None),
            6 => ("function-mutparam", Some(format!("f{}(x: Int!) =", i))),
            7 => ("func-lambda", Some(format!("l{} = x ->", i))),
            8 => ("proc-lambda", Some(format!("l{}! = x =>", i))),
            _ => ("method", None),
        };
        self.note(&format!("ctx:{}", k));
        match (k, head) {
            ("toplevel", _) => {
                // top-level chunks refer to the module-level `x` of the prelude
                b.lines.clone()
            }
            ("method", _) => {
                let mut l = vec![format!("K{} = Class {{ .a = Int }}", i), format!("K{}.", i), format!("    m{} self, x =", i)];
                l.extend(Self::indent(&Self::indent(&b.lines)));
                l
            }
            (_, Some(h)) => { let mut l = vec![h]; l.extend(Self::indent(&b.lines)); l }
            _ => unreachable!(),
        }
    }

    fn program(&mut self, max_depth: u64) -> String {
        let mut lines: Vec<String> = vec![
            "x = 1".into(),
            "v = ![1, 2]".into(),
            "rec = {.a = !1; .b = 1}".into(),
            "one!() =".into(), "    print! \"e\"".into(), "    1".into(),
            "idf x = x".into(),
            "fst x, y = x".into(),
            "id x = x".into(),
            "g(*args: Obj) = 1".into(),
            "k(**kw: Obj) = 1".into(),
        ];
        let items = 1 + self.rng.below(3);
        for _ in 0..items {
            let mut b = self.atom(true);
            let depth = self.rng.below(max_depth + 1);
            self.note(&format!("depth:{}", depth));
            for _ in 0..depth { b = self.wrap(b); }
            lines.extend(self.context(b));
        }
        lines.join("\n") + "\n"
    }
}

fn main() {
    quiet_panics();
    let a = parse_args();
    match a.mode.as_str() {
        "gen" => {
            let mut g = Gen { rng: Rng::new(a.seed), ctr: 0, hist: Default::default() };
            for i in 0..a.n {
                g.ctr = 0;
                let src = g.program(if a.tier == "thorough" { 9 } else { 6 });
                run_case(&format!("g{}", i), &src);
            }
            for (k, v) in g.hist.iter() { eprintln!("cov\t{}\t{}", k, v); }
        }
        "replay" => {
            for (id, input) in stdin_cases() {
                match src_of_input(&input) { Some(s) => run_case(&id, &s), None => println!("{}\t{}\tbad-input", id, input) }
            }
        }
        "file" => {
            let src = std::fs::read_to_string(&a.rest[0]).unwrap();
            run_case("f0", &src);
        }
        _ => { eprintln!("usage: c22 gen|replay|file"); std::process::exit(2); }
    }
}
