//! C12: the real `HIROptimizer::optimize` (levels 0..3) on programs lowered, linked and desugared by the real pipeline.
//! line: id \t (src "<erg source>") <mini-HIR before optimisation, with referrer counts> \t (o0 D…) (o1 D…) (o2 D…) (o3 D…)
//! D = `(<line> <col> "<name>")`: a definition present before and absent after optimisation at that level (sorted).
use erg_compiler::desugar_hir::HIRDesugarer;
use erg_compiler::link_hir::HIRLinker;
use erg_compiler::optimize::HIROptimizer;
use erg_harness::minihir::*;
use erg_harness::*;

/// all `(def L C "name"` heads of a projected module, as sorted strings `(L C "name")`
fn defs_of(proj: &str) -> Vec<String> {
    let mut v = vec![];
    let mut rest = proj;
    while let Some(i) = rest.find("(def ") {
        let tail = &rest[i + 5..];
        // L C "name"
        let mut it = tail.splitn(3, ' ');
        let l = it.next().unwrap_or("");
        let c = it.next().unwrap_or("");
        let after = it.next().unwrap_or("");
        let mut end = 1;
        let b = after.as_bytes();
        while end < b.len() {
            if b[end] == b'\\' { end += 2; continue; }
            if b[end] == b'"' { break; }
            end += 1;
        }
        v.push(format!("({} {} {})", l, c, &after[..=end.min(after.len() - 1)]));
        rest = tail;
    }
    v.sort();
    v
}

fn diff(before: &[String], after: &[String]) -> String {
    let mut a = after.to_vec();
    let mut out = vec![];
    for d in before {
        if let Some(p) = a.iter().position(|x| x == d) { a.remove(p); } else { out.push(d.clone()); }
    }
    out.join(" ")
}

fn run_case(id: &str, src: &str) {
    let s = src.to_string();
    let out = catch(std::panic::AssertUnwindSafe(move || -> (String, String) {
        let lo = match lower(&s) {
            Ok(l) => l,
            Err(e) => return (String::new(), e),
        };
        let linker = HIRLinker::new(&lo.cfg, &lo.shared.mod_cache);
        let hir = linker.link(lo.hir.clone());
        let hir = HIRDesugarer::desugar(hir);
        let chunks: Vec<_> = hir.module.iter().cloned().collect();
        let before = match Proj::new(Some(&lo.shared.index)).module(&chunks) {
            Ok(h) => h,
            Err(e) => return (String::new(), e),
        };
        let bdefs = defs_of(&before);
        let mut o = String::new();
        for level in 0u8..=3 {
            let mut cfg = lo.cfg.clone();
            cfg.opt_level = level;
            let h2 = hir.clone();
            let shared = lo.shared.clone();
            let r = catch(std::panic::AssertUnwindSafe(move || HIROptimizer::optimize(cfg, shared, h2)));
            let part = match r {
                Err(e) => format!("crash({})", quote(&e)),
                Ok(opt) => {
                    let ch: Vec<_> = opt.module.iter().cloned().collect();
                    match Proj::new(None).module(&ch) {
                        Ok(a) => diff(&bdefs, &defs_of(&a)),
                        Err(e) => e,
                    }
                }
            };
            if level > 0 { o.push(' '); }
            o.push_str(&format!("(o{}{}{})", level, if part.is_empty() { "" } else { " " }, part));
        }
        (before, o)
    }));
    match out {
        Ok((h, o)) => println!("{}\t(src {}){}{}\t{}", id, quote(src), if h.is_empty() { "" } else { " " }, h, o),
        Err(e) => println!("{}\t(src {})\tcrash({})", id, quote(src), quote(&e)),
    }
}

// ---------------------------------------------------------------------------------------------- generator

struct Gen { rng: Rng, ctr: usize, hist: std::collections::BTreeMap<String, usize> }

impl Gen {
    fn fresh(&mut self, p: &str) -> String { self.ctr += 1; format!("{}{}", p, self.ctr) }
    fn note(&mut self, k: &str) { *self.hist.entry(k.to_string()).or_insert(0) += 1; }

    /// an initialiser expression: (kind, lines) — single line unless it is a block
    fn init(&mut self, raising: bool) -> (String, Vec<String>) {
        let n = self.ctr;
        let c = self.rng.below(if raising { 27 } else { 24 });
        let (k, lines): (&str, Vec<String>) = match c {
            0 => ("pure-lit", vec!["1".into()]),
            1 => ("pure-call", vec!["idf(2)".into()]),
            2 => ("pure-list", vec!["[1, 2]".into()]),
            3 => ("pure-record", vec!["{a = 1; b = 2}".into()]),
            4 => ("pure-binop", vec!["1 + 2".into()]),
            5 => ("pure-lambda", vec!["w -> w".into()]),
            6 | 7 => ("print", vec![format!("print! \"u{}\"", n)]),
            8 => ("proc-call", vec![format!("one!(\"u{}\")", n)]),
            9 => ("attr-of-proc-call", vec![format!("one!(\"u{}\").real", n)]),
            10 => ("arg-proc-call", vec![format!("idf(one!(\"u{}\"))", n)]),
            11 => ("list-proc-call", vec![format!("[one!(\"u{}\")]", n)]),
            12 => ("record-proc-call", vec![format!("{{a = one!(\"u{}\"); b = 2}}", n)]),
            13 => ("vararg-proc-call", vec![format!("g(*[one!(\"u{}\")])", n)]),
            14 => ("kwvar-proc-call", vec![format!("k(**{{\"a\": one!(\"u{}\")}})", n)]),
            15 => ("tuple-proc-call", vec![format!("(one!(\"u{}\"), 1)", n)]),
            16 => ("binop-proc-call", vec![format!("one!(\"u{}\") + 1", n)]),
            17 => ("block-print", vec!["".into(), format!("    print! \"u{}\"", n), "    1".into()]),
            18 => ("block-nested-unused", vec!["".into(), format!("    w{} = print! \"u{}\"", n, n), "    1".into()]),
            19 => ("proc-method", vec!["v.push!(1)".into()]),
            20 => ("kw-proc-call", vec![format!("idf(x := one!(\"u{}\"))", n)]),
            21 => ("proc-lambda", vec![format!("w => print! \"u{}\"", n)]),
            22 => ("dict-proc-call", vec![format!("{{\"a\": one!(\"u{}\")}}", n)]),
            23 => ("set-proc-call", vec![format!("{{one!(\"u{}\")}}", n)]),
            24 => ("raising-call", vec!["int(\"a\")".into()]),
            25 => ("raising-div", vec!["7 // zero".into()]),
            _ => ("raising-index", vec!["idf([1, 2])[one!(\"r\") + 5]".into()]),
        };
        self.note(&format!("init:{}", k));
        (k.to_string(), lines)
    }

    fn def_lines(name: &str, init: &[String]) -> Vec<String> {
        let mut l = vec![format!("{} = {}", name, init[0]).trim_end().to_string()];
        l.extend(init[1..].iter().cloned());
        l
    }

    fn stmt(&mut self, raising: bool, depth: u64) -> Vec<String> {
        let c = self.rng.below(if depth < 2 { 14 } else { 10 });
        match c {
            0..=4 => {
                self.note("stmt:unused-private-def");
                let u = self.fresh("u");
                let (_, init) = self.init(raising);
                Self::def_lines(&u, &init)
            }
            5 => {
                self.note("stmt:used-private-def");
                let u = self.fresh("r");
                let (_, init) = self.init(false);
                let mut l = Self::def_lines(&u, &init);
                l.push(format!("print! \"use\", {} == {}", u, u));
                l
            }
            6 => {
                self.note("stmt:public-def");
                let u = self.fresh("p");
                let (_, init) = self.init(false);
                if depth > 0 { return vec![format!("print! \"mark{}\"", self.ctr)]; }
                Self::def_lines(&format!(".{}", u), &init)
            }
            7 => {
                self.note("stmt:unused-function");
                let f = self.fresh("f");
                vec![format!("{} w = w + 1", f)]
            }
            8 => {
                self.note("stmt:unused-procedure");
                let f = self.fresh("q");
                vec![format!("{}! w =", f), format!("    print! \"q{}\"", self.ctr), "    w".into()]
            }
            9 => { self.note("stmt:print"); vec![format!("print! \"mark{}\"", self.fresh("m"))] }
            10 | 11 => {
                self.note("stmt:for-loop-body");
                let mut l = vec!["for! 0..<2, i =>".to_string()];
                let n = 1 + self.rng.below(3);
                for _ in 0..n { l.extend(self.stmt(raising, depth + 1).into_iter().map(|s| format!("    {}", s))); }
                l.push(format!("    print! \"loop\", i"));
                l
            }
            12 => {
                self.note("stmt:if-do-body");
                let mut l = vec!["if! x == 1, do!:".to_string()];
                let n = 1 + self.rng.below(2);
                for _ in 0..n { l.extend(self.stmt(raising, depth + 1).into_iter().map(|s| format!("    {}", s))); }
                l.push("    print! \"then\"".into());
                l
            }
            _ => {
                self.note("stmt:discard-def");
                let (_, init) = self.init(false);
                Self::def_lines("_", &init)
            }
        }
    }

    fn program(&mut self, raising: bool) -> String {
        let mut lines: Vec<String> = vec![
            "x = 1".into(),
            "zero = 0".into(),
            "v = ![1, 2]".into(),
            "one! s =".into(), "    print! s".into(), "    1".into(),
            "idf x = x".into(),
            "g(*args: Obj) = 1".into(),
            "k(**kw: Obj) = 1".into(),
            "print! \"start\", idf(x), g(1), k(a := 1)".into(),
        ];
        let n = 3 + self.rng.below(8);
        let at = self.rng.below(n);
        for i in 0..n {
            if raising && i == at {
                // the recorded finding's class: an unused private definition whose effect-free initialiser raises
                self.note("stmt:unused-raising-def");
                let u = self.fresh("u");
                lines.push(if self.rng.chance(1, 2) { format!("{} = int(\"a\")", u) } else { format!("{} = 7 // zero", u) });
            }
            lines.extend(self.stmt(raising, 0));
        }
        lines.push("print! \"end\", v".into());
        lines.join("\n") + "\n"
    }
}

fn main() {
    quiet_panics();
    let a = parse_args();
    match a.mode.as_str() {
        "gen" => {
            let mut g = Gen { rng: Rng::new(a.seed), ctr: 0, hist: Default::default() };
            for i in 0..a.n {
                g.ctr = 0;
                // one program in eight may contain an unused definition whose initialiser raises at run time (known finding class)
                let raising = i % 8 == 7;
                let src = g.program(raising);
                run_case(&format!("{}{}", if raising { "x" } else { "g" }, i), &src);
            }
            for (k, v) in g.hist.iter() { eprintln!("cov\t{}\t{}", k, v); }
        }
        "replay" => {
            for (id, input) in stdin_cases() {
                match src_of_input(&input) { Some(s) => run_case(&id, &s), None => println!("{}\t{}\tbad-input", id, input) }
            }
        }
        "file" => {
            let src = std::fs::read_to_string(&a.rest[0]).unwrap();
            run_case("f0", &src);
        }
        _ => { eprintln!("usage: c12 gen|replay|file"); std::process::exit(2); }
    }
}
