//! C18: the JSON transpile target on generated modules of constant bindings.
//! line: id \t (src "<erg source>") (mod <chunk>…) \t (ok "<json text>") | (err <n>) | crash("…") | rejected("…")
//!
//! The module is compiled by the real front end (PackageBuilder → HIRLinker → HIRDesugarer, the pipeline of
//! `Transpiler::transpile`), the resulting HIR is *projected* to the S-expression the Lean model reads (token contents,
//! literal values, definition locations, visibilities — all read off the real HIR), and the same HIR is handed to the
//! real `JsonGenerator::transpile`. In `replay` mode only `(src "…")` is read from the input; the projection is recomputed.
use erg_common::config::{ErgConfig, TranspileTarget};
use erg_common::traits::{Locational, Stream};
use erg_compiler::build_package::PackageBuilder;
use erg_compiler::desugar_hir::HIRDesugarer;
use erg_compiler::hir::{Accessor, Dict, Expr, List, Signature, Tuple, HIR};
use erg_compiler::link_hir::HIRLinker;
use erg_compiler::module::SharedCompilerResource;
use erg_compiler::transpile::{JsonGenerator, TranspiledFile, Transpiler};
use erg_compiler::ty::typaram::OpKind;
use erg_compiler::ty::value::ValueObj;
use erg_harness::*;

// ------------------------------------------------------------------------------------------ projection

fn value_sexp(v: &ValueObj) -> String {
    match v {
        ValueObj::Nat(n) => format!("(nat {n})"),
        ValueObj::Int(i) => format!("(int {i})"),
        ValueObj::Float(f) => {
            let x: f64 = **f;
            format!("(float {} {:016x})", quote(&format!("{:?}", x)), x.to_bits())
        }
        ValueObj::Str(s) => format!("(str {})", quote(s)),
        ValueObj::Bool(b) => format!("(bool {b})"),
        ValueObj::None => "(none)".to_string(),
        other => format!("(other {})", quote(&other.to_string())),
    }
}

fn expr_sexp(e: &Expr) -> String {
    match e {
        Expr::Literal(lit) => format!(
            "(lit {:?} {} {})",
            lit.token.kind,
            quote(&lit.token.content),
            value_sexp(&lit.value)
        ),
        Expr::Accessor(acc) => {
            let kind = match acc {
                Accessor::Ident(_) => "ident",
                Accessor::Attr(_) => "attr",
            };
            format!("(acc {kind} {} {})", quote(&acc.to_string()), quote(&acc.var_info().def_loc.to_string()))
        }
        Expr::List(List::Normal(lis)) => {
            let mut o = String::from("(list");
            for a in lis.elems.pos_args.iter() {
                o.push(' ');
                o.push_str(&expr_sexp(&a.expr));
            }
            o.push(')');
            o
        }
        Expr::List(_) => "(todo \"list\")".to_string(),
        Expr::Tuple(Tuple::Normal(tup)) => {
            let mut o = String::from("(tuple");
            for a in tup.elems.pos_args.iter() {
                o.push(' ');
                o.push_str(&expr_sexp(&a.expr));
            }
            o.push(')');
            o
        }
        Expr::Record(rec) => {
            let mut o = String::from("(record");
            for attr in rec.attrs.iter() {
                o.push_str(&format!(
                    " ({} {} {})",
                    quote(attr.sig.inspect()),
                    attr.body.block.len(),
                    attr.body.block.first().map(expr_sexp).unwrap_or_else(|| "(none-block)".into())
                ));
            }
            o.push(')');
            o
        }
        Expr::Dict(Dict::Normal(dic)) => {
            let mut o = String::from("(dict");
            for kv in dic.kvs.iter() {
                o.push_str(&format!(" ({} {})", expr_sexp(&kv.key), expr_sexp(&kv.value)));
            }
            o.push(')');
            o
        }
        Expr::Dict(_) => "(todo \"dict\")".to_string(),
        Expr::Def(def) => def_sexp(def),
        Expr::BinOp(bin) => {
            // the `other` arm folds through `expr_into_value`; value arithmetic itself belongs to C04, so for
            // literal operands the harness calls the public `try_binary` and hands the folded value to the model
            if let (Expr::Literal(l), Expr::Literal(r)) = (bin.lhs.as_ref(), bin.rhs.as_ref()) {
                let folded = OpKind::try_from(bin.op.kind)
                    .ok()
                    .and_then(|op| l.value.clone().try_binary(r.value.clone(), op));
                format!(
                    "(fold {} {})",
                    quote(&format!("{} {} {}", l.token.content, bin.op.content, r.token.content)),
                    folded.as_ref().map(value_sexp).unwrap_or_else(|| "(nofold)".into())
                )
            } else {
                "(other \"BinOp\")".to_string()
            }
        }
        Expr::UnaryOp(_) => "(other \"UnaryOp\")".to_string(),
        Expr::Call(_) => "(nonconst \"Call\")".to_string(),
        Expr::Lambda(_) => "(nonconst \"Lambda\")".to_string(),
        Expr::Set(_) => "(nonconst \"Set\")".to_string(),
        Expr::TypeAsc(_) => "(nonconst \"TypeAsc\")".to_string(),
        _ => "(other \"expr\")".to_string(),
    }
}

fn def_sexp(def: &erg_compiler::hir::Def) -> String {
    let vis = if def.sig.vis().is_public() { "pub" } else { "priv" };
    let kind = match &def.sig {
        Signature::Var(_) => "var",
        Signature::Subr(_) => "subr",
        Signature::Glob(_) => "glob",
    };
    format!(
        "(def {vis} {kind} {} {} {} {})",
        quote(def.sig.inspect()),
        quote(&def.sig.ident().vi.def_loc.to_string()),
        def.body.block.len(),
        def.body.block.first().map(expr_sexp).unwrap_or_else(|| "(none-block)".into())
    )
}

fn hir_sexp(hir: &HIR) -> String {
    let mut o = String::from("(mod");
    for chunk in hir.module.iter() {
        o.push(' ');
        o.push_str(&expr_sexp(chunk));
    }
    o.push(')');
    o
}

// ------------------------------------------------------------------------------------------ running the real code

fn build_hir(src: &str) -> Result<(ErgConfig, HIR), String> {
    build_hir_with(None, src)
}

fn build_hir_with(st: Option<&mut (ErgConfig, SharedCompilerResource, PackageBuilder)>, src: &str) -> Result<(ErgConfig, HIR), String> {
    let mut own: PackageBuilder;
    let (cfg, shared, builder) = match st {
        Some(st) => (st.0.copy(), st.1.clone(), &mut st.2),
        None => {
            let mut cfg = ErgConfig::string(src.to_string());
            cfg.transpile_target = Some(TranspileTarget::Json);
            let shared = SharedCompilerResource::new(cfg.copy());
            own = PackageBuilder::new_with_cache(cfg.copy(), "<module>".into(), shared.clone());
            (cfg, shared, &mut own)
        }
    };
    match builder.build(src.to_string(), "exec") {
        Ok(art) => {
            let linker = HIRLinker::new(&cfg, &shared.mod_cache);
            let hir = linker.link(art.object);
            Ok((cfg, HIRDesugarer::desugar(hir)))
        }
        Err(iart) => {
            let first = iart.errors.iter().next().map(|e| format!("{:?} {}", e.core.kind, e.core.main_message)).unwrap_or_default();
            Err(format!("{} error(s): {}", iart.errors.len(), first))
        }
    }
}

fn run_case(id: &str, src: &str, check_entry: bool) -> String {
    let s = src.to_string();
    let r = catch(move || build_hir(&s));
    let (cfg, hir) = match r {
        Ok(Ok(x)) => x,
        Ok(Err(e)) => {
            return format!("{}\t(src {}) (rejected)\trejected({})", id, quote(src), quote(&e));
        }
        Err(p) => {
            return format!("{}\t(src {}) (rejected)\trejected({})", id, quote(src), quote(&format!("front-end panic: {p}")));
        }
    };
    let proj = hir_sexp(&hir);
    let out = match catch(move || {
        let mut gen = JsonGenerator::new(cfg);
        match gen.transpile(hir) {
            Ok(json) => format!("(ok {})", quote(&json.code)),
            Err(errs) => format!("(err {})", errs.len()),
        }
    }) {
        Ok(s) => s,
        Err(e) => format!("crash({})", quote(&e)),
    };
    // the same source through the public entry point `Transpiler::transpile` (what `erg transpile --transpile-target json` runs)
    if !check_entry {
        return format!("{}\t(src {}) {}\t{}", id, quote(src), proj, out);
    }
    let s2 = src.to_string();
    let via = match catch(move || {
        let mut cfg = ErgConfig::string(s2.clone());
        cfg.transpile_target = Some(TranspileTarget::Json);
        let mut t = Transpiler::new(cfg);
        match t.transpile(s2, "exec") {
            Ok(art) => match art.object {
                TranspiledFile::Json(j) => format!("(ok {})", quote(&j.code)),
                TranspiledFile::PyScript(_) => "(pyscript)".to_string(),
            },
            Err(e) => format!("(err {})", e.errors.len()),
        }
    }) {
        Ok(s) => s,
        Err(e) => format!("crash({})", quote(&e)),
    };
    let out = if via == out { out } else { format!("{out} (entry-point-differs {via})") };
    format!("{}\t(src {}) {}\t{}", id, quote(src), proj, out)
}

/// run the cases on a few worker threads (every case builds its own front end, ~0.25 s in a debug build; cases are
/// independent) and print the lines in case order
fn run_all(cases: Vec<(String, String, bool)>) {
    let n = cases.len();
    let cases = std::sync::Arc::new(cases);
    let next = std::sync::Arc::new(std::sync::atomic::AtomicUsize::new(0));
    let results = std::sync::Arc::new(std::sync::Mutex::new(vec![String::new(); n]));
    let workers = std::thread::available_parallelism().map(|x| x.get()).unwrap_or(4).clamp(1, 8);
    let mut hs = vec![];
    for _ in 0..workers {
        let (cases, next, results) = (cases.clone(), next.clone(), results.clone());
        hs.push(std::thread::Builder::new().stack_size(256 << 20).spawn(move || loop {
            let i = next.fetch_add(1, std::sync::atomic::Ordering::SeqCst);
            if i >= cases.len() { break; }
            let (id, src, chk) = &cases[i];
            let line = run_case(id, src, *chk);
            results.lock().unwrap()[i] = line;
        }).unwrap());
    }
    for h in hs { let _ = h.join(); }
    for l in results.lock().unwrap().iter() { println!("{l}"); }
}

// ------------------------------------------------------------------------------------------ generator

#[derive(Clone, Debug)]
enum Ty {
    Nat,
    Int,
    Float,
    Str,
    Bool,
    NoneT,
    List(Box<Ty>, usize),
    Tuple(Vec<Ty>),
    Record(Vec<(String, Ty)>),
    Dict(Vec<(String, Ty)>),
}

const STR_POOL: &[&str] = &[
    "a", "b", "z", " ", "\"", "\\", "{", "}", "\n", "\r", "\0", "\u{1}", "\u{1f}", "\u{7f}", "\u{ff}", "\u{e9}", "\u{3042}",
    "\u{1F600}", "'", "\t", "/", "\u{2028}", "\u{feff}", "0", "1", "7", "n", "u", "x", ":", ",", "[", "]", "\u{8}", "\u{c}",
    "\u{80}", "\u{9f}", "\u{fffd}", "\u{10ffff}", "#", "\\n", "\"\"", "\u{d7ff}", "\u{e000}",
];

fn gen_str_content(rng: &mut Rng) -> String {
    let len = match rng.below(10) {
        0 => 0,
        1..=5 => 1 + rng.below(3) as usize,
        6..=8 => 3 + rng.below(6) as usize,
        _ => 10 + rng.below(30) as usize,
    };
    let mut s = String::new();
    for _ in 0..len {
        s.push_str(*rng.pick(STR_POOL));
    }
    s
}

/// spell a string content as an Erg single-line literal
fn erg_str_lit(content: &str, rng: &mut Rng) -> String {
    let mut o = String::from("\"");
    for c in content.chars() {
        match c {
            '"' => o.push_str("\\\""),
            '\\' => o.push_str("\\\\"),
            '\n' => o.push_str("\\n"),
            '\r' => o.push_str("\\r"),
            '\0' => o.push_str(if rng.chance(1, 2) { "\\0" } else { "\\x00" }),
            '\'' => o.push_str(if rng.chance(1, 2) { "\\'" } else { "'" }),
            c if (c as u32) < 0x20 && c != '\t' => o.push_str(&format!("\\x{:02x}", c as u32)),
            c if (c as u32) >= 0x7f && (c as u32) <= 0xff && rng.chance(1, 2) => o.push_str(&format!("\\x{:02X}", c as u32)),
            c => o.push(c),
        }
    }
    o.push('"');
    o
}

fn gen_ty(rng: &mut Rng, depth: u32) -> Ty {
    let leaf = depth == 0 || rng.chance(2, 5);
    if leaf {
        match rng.below(12) {
            0 | 1 => Ty::Nat,
            2 | 3 => Ty::Int,
            4 => Ty::Float,
            5..=8 => Ty::Str,
            9 => Ty::Bool,
            10 => Ty::NoneT,
            _ => Ty::Nat,
        }
    } else {
        match rng.below(4) {
            0 => Ty::List(Box::new(gen_ty(rng, depth - 1)), rng.below(4) as usize),
            1 => {
                let n = 1 + rng.below(3) as usize;
                Ty::Tuple((0..n).map(|_| gen_ty(rng, depth - 1)).collect())
            }
            2 => {
                let n = 1 + rng.below(3) as usize;
                let names = ["x", "y", "z", "name", "v1", "kk"];
                let start = rng.below(3) as usize;
                Ty::Record((0..n).map(|i| (names[start + i].to_string(), gen_ty(rng, depth - 1))).collect())
            }
            _ => {
                let n = 1 + rng.below(3) as usize;
                let mut keys: Vec<String> = vec![];
                for _ in 0..n {
                    let mut k = if rng.chance(1, 3) { gen_str_content(rng) } else { rng.pick(&["k", "l", "a b", "key", "", "Z"]).to_string() };
                    while keys.contains(&k) {
                        k.push('_');
                    }
                    keys.push(k);
                }
                // erg wants one value type per dict literal unless the keys are told apart; use one type for all values
                let vt = gen_ty(rng, depth - 1);
                Ty::Dict(keys.into_iter().map(|k| (k, vt.clone())).collect())
            }
        }
    }
}

const NAT_POOL: &[u64] = &[0, 1, 2, 7, 10, 42, 255, 256, 1000, 65535, 65536, 2147483647, 2147483648, 4294967295, 4294967296,
    9223372036854775807, 9223372036854775808, 18446744073709551615];
const INT_POOL: &[i64] = &[-1, -2, -7, -10, -128, -1000, -65536, -2147483647, -2147483648];
const FLOAT_POOL: &[&str] = &["0.5", "1.", "1.0", "2.5", "0.1", "3.14", "1e+3", "2.5e-3", "1_0.2_5", "0.0", "123456789.125", "1e+22",
    "1.7976931348623157e+308", "5e-324", "0.30000000000000004", "1e-7", "100000000000000000000.0", "1.00000000001", "-0.5", "-1.25", "-0.0", "-2.", "9007199254740993.0"];

fn with_underscores(s: &str, rng: &mut Rng) -> String {
    if s.len() < 2 || !rng.chance(1, 4) {
        return s.to_string();
    }
    let mut o = String::new();
    for (i, c) in s.chars().enumerate() {
        if i > 0 && rng.chance(1, 3) {
            o.push('_');
        }
        o.push(c);
    }
    o
}

fn gen_val(ty: &Ty, rng: &mut Rng) -> String {
    match ty {
        Ty::Nat => {
            let n = if rng.chance(1, 2) { *rng.pick(NAT_POOL) } else { rng.below(1000) };
            match rng.below(8) {
                0 => format!("0x{}", with_underscores(&format!("{:x}", n), rng)),
                1 => format!("0b{}", with_underscores(&format!("{:b}", n), rng)),
                2 => format!("0o{}", with_underscores(&format!("{:o}", n), rng)),
                3 => format!("0X{:X}", n),
                _ => with_underscores(&n.to_string(), rng),
            }
        }
        Ty::Int => {
            let i = if rng.chance(1, 2) { *rng.pick(INT_POOL) } else { -(rng.below(1000) as i64) - 1 };
            format!("-{}", with_underscores(&(-(i as i128)).to_string(), rng))
        }
        Ty::Float => {
            if rng.chance(2, 3) {
                rng.pick(FLOAT_POOL).to_string()
            } else {
                let a = rng.below(100000);
                let b = rng.below(1000);
                format!("{}{}.{}", if rng.chance(1, 4) { "-" } else { "" }, a, b)
            }
        }
        Ty::Str => {
            let c = gen_str_content(rng);
            erg_str_lit(&c, rng)
        }
        Ty::Bool => if rng.chance(1, 2) { "True".into() } else { "False".into() },
        Ty::NoneT => "None".into(),
        Ty::List(t, n) => {
            let elems: Vec<String> = (0..*n).map(|_| gen_val(t, rng)).collect();
            format!("[{}]", elems.join(", "))
        }
        Ty::Tuple(ts) => {
            let elems: Vec<String> = ts.iter().map(|t| gen_val(t, rng)).collect();
            if elems.len() == 1 { format!("({},)", elems[0]) } else { format!("({})", elems.join(", ")) }
        }
        Ty::Record(fs) => {
            let elems: Vec<String> = fs.iter().map(|(k, t)| format!(".{} = {}", k, gen_val(t, rng))).collect();
            format!("{{{}}}", elems.join("; "))
        }
        Ty::Dict(kvs) => {
            let elems: Vec<String> = kvs.iter().map(|(k, t)| format!("{}: {}", erg_str_lit(k, rng), gen_val(t, rng))).collect();
            format!("{{{}}}", elems.join(", "))
        }
    }
}

fn gen_module(rng: &mut Rng, max_depth: u32) -> String {
    let n = 1 + rng.below(6) as usize;
    let names = ["a", "b", "c", "d1", "e_f", "g", "h", "longer_name", "x", "y"];
    let mut src = String::new();
    let mut defined: Vec<(String, bool)> = vec![];
    let all_public = rng.chance(1, 2);
    for i in 0..n {
        let name = format!("{}{}", names[rng.below(names.len() as u64) as usize], i);
        let public = all_public || rng.chance(2, 3);
        let lhs = if public { format!(".{name}") } else { name.clone() };
        let rhs = if !all_public && !defined.is_empty() && rng.chance(1, 4) {
            let (r, p) = rng.pick(&defined).clone();
            if p { format!(".{r}") } else { r }
        } else if !all_public && rng.chance(1, 12) {
            rng.pick(&["0.5 - 1.75", "1 + 2", "1.5 + 2.25", "\"a\" + \"b\"", "2 * 3", "1 - 3", "1 < 2"]).to_string()
        } else {
            let depth = rng.below(max_depth as u64 + 1) as u32;
            let ty = gen_ty(rng, depth);
            gen_val(&ty, rng)
        };
        src.push_str(&format!("{lhs} = {rhs}\n"));
        defined.push((name, public));
    }
    src
}

fn src_of_input(input: &str) -> Option<String> {
    let rest = input.trim().strip_prefix("(src ")?;
    // the quoted string ends at the first unescaped quote
    let b = rest.as_bytes();
    let mut i = 1;
    while i < b.len() {
        if b[i] == b'\\' { i += 2; continue; }
        if b[i] == b'"' { break; }
        i += 1;
    }
    unquote(&rest[..=i.min(rest.len() - 1)])
}

fn main() {
    quiet_panics();
    let a = parse_args();
    match a.mode.as_str() {
        "gen" => {
            let mut rng = Rng::new(a.seed);
            let max_depth = if a.tier == "thorough" { 4 } else { 3 };
            let mut cases = vec![];
            for i in 0..a.n {
                let src = gen_module(&mut rng, max_depth);
                cases.push((format!("g{i}"), src, i % 16 == 0));
            }
            run_all(cases);
        }
        "replay" => {
            let mut cases = vec![];
            for (id, input) in stdin_cases() {
                match src_of_input(&input) {
                    Some(src) => cases.push((id, src, true)),
                    None => println!("{}\t{}\tbad-input", id, input),
                }
            }
            run_all(cases);
        }
        _ => {
            eprintln!("usage: c18 gen|replay");
            std::process::exit(2);
        }
    }
}
