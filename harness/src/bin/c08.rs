//! C08: `erg_parser::lex::Lexer::from_str(src)` iterated under catch_unwind on generated strings.
//! line: id \t (src "<string>") \t (lex <item>…)   item ::= (t <Kind> "<content>" <lineno> <col_begin>)
//!                                                        | (e <loc> "<main message>")   loc ::= (r lb cb le ce) | unknown | …
//!                                                        | (crash "<panic message>") | (runaway)
//! extra mode `dump-xid`: prints the maximal code-point ranges on which Lexer::is_valid_start_symbol_ch /
//! is_valid_continue_symbol_ch hold (the generated table ErgVerif/Gen/XidTable.lean is made from it).
use erg_common::error::Location;
use erg_harness::*;
use erg_parser::lex::Lexer;

pub fn loc_sexp(l: &Location) -> String {
    match l {
        Location::Range { ln_begin, col_begin, ln_end, col_end } => format!("(r {} {} {} {})", ln_begin, col_begin, ln_end, col_end),
        Location::LineRange(a, b) => format!("(lr {} {})", a, b),
        Location::Line(a) => format!("(l {})", a),
        Location::Unknown => "unknown".to_string(),
    }
}

fn strip_ansi(s: &str) -> String {
    let mut o = String::new();
    let mut it = s.chars().peekable();
    while let Some(c) = it.next() {
        if c == '\u{1b}' {
            for d in it.by_ref() {
                if d == 'm' { break; }
            }
        } else {
            o.push(c);
        }
    }
    o
}

fn lex_items(src: &str) -> String {
    let n = src.chars().count();
    let s = src.to_string();
    let (tx, rx) = std::sync::mpsc::channel::<String>();
    // items are sent one by one so that a panic keeps the prefix
    let r = catch(std::panic::AssertUnwindSafe(move || {
        let lexer = Lexer::from_str(s);
        let mut k = 0usize;
        for item in lexer {
            k += 1;
            if k > 4 * n + 64 {
                tx.send("(runaway)".to_string()).ok();
                break;
            }
            match item {
                Ok(t) => tx.send(format!("(t {:?} {} {} {})", t.kind, quote(&t.content), t.lineno, t.col_begin)).ok(),
                Err(e) => { let e: erg_common::error::ErrorCore = e.into(); tx.send(format!("(e {} {})", loc_sexp(&e.loc), quote(&strip_ansi(&e.main_message)))).ok() }
            };
        }
    }));
    let mut o = String::from("(lex");
    for it in rx.try_iter() {
        o.push(' ');
        o.push_str(&it);
    }
    if let Err(m) = r {
        o.push_str(&format!(" (crash {})", quote(&m)));
    }
    o.push(')');
    o
}

fn run_case(id: &str, src: &str) {
    println!("{}\t(src {})\t{}", id, quote(src), lex_items(src));
}

// ------------------------------------------------------------------------------------------------ generators

fn pk<T: Copy>(rng: &mut Rng, xs: &[T]) -> T { xs[rng.below(xs.len() as u64) as usize] }

const IDENTS: &[&str] = &["x", "y", "i", "f", "foo", "bar_1", "_z", "p!", "print!", "T", "Int", "Nat", "Str", "é", "名前", "αβ", "x１", "and", "or", "in", "notin",
    "contains", "is!", "isnot!", "ref", "ref!", "as", "True", "False", "None", "Ellipsis", "Inf", "_", "do", "do!", "if", "e", "e3", "b", "o7", "xff", "dot", "cross", "not", "log", "a'b"];
const NUMS: &[&str] = &["0", "1", "42", "1_000", "007", "0b101", "0B11", "0o17", "0O7", "0xfF", "0Xa_b", "0b", "0x", "0o8", "0b2", "1.5", "3.", ".5", "1.e", "1.5e+3", "2e-3", "2e+", "1e3", "1e",
    "1._2", "1..2", "1.real", "1.0.1", "0.0", "-0", "00", "9_", "1__2", "1.5e", "1.e+1", "12345678901234567890"];
const OPS: &[&str] = &["+", "-", "*", "/", "//", "**", "%", "&&", "||", "^^", "<<", ">>", "<", ">", "<=", ">=", "==", "!=", "=", "->", "=>", "<-", ":=", ":", "::", ":>", "<:", ".", "..", "..<", "<..", "<..<", "...",
    "|>", "|", "&", "^", "~", "!", "?", "@", "$", ",", ";", "<.", "<.x"];
const STR_PARTS: &[&str] = &["a", "bc", " ", "  ", "\\n", "\\t", "\\r", "\\0", "\\\\", "\\\"", "\\'", "\\x41", "\\x4", "\\xg1", "\\x", "\\q", "\\", "'", "{", "}", "{x}", "é", "日本", "\t", "\u{202E}", "\u{200F}", "#", "#[", "]#", "\\{", "``"];
const ODD: &[&str] = &["\t", "\u{3000}", "\u{202E}", "\u{2067}", "\u{a0}", "\\", "\\\n", "\\ ", "`", "`+_`", "`_+_`", "`dot`", "`*`", "`=`", "`+`", "`ab", "``", "'", "''", "'''", "'a b'", "'ab'!", "'ab", "\"", "\"\"", "\"\"\"",
    "#", "#[", "]#", "#[ a ]#", "#[ #[ n ]# ]#", "# c", "#\u{202E}", "\r", "\r\n", "\0", "😀", "１", "٣", "·", "\u{301}"];

fn gen_str_body(rng: &mut Rng, depth: u32, multi: bool, o: &mut String) {
    let k = rng.below(5);
    for _ in 0..k {
        match rng.below(12) {
            0 | 1 if depth < 3 => {
                o.push_str("\\{");
                if rng.chance(1, 6) { o.push(' '); }
                gen_expr(rng, depth + 1, o);
                if !rng.chance(1, 12) { o.push('}'); }
            }
            2 if multi => o.push('\n'),
            3 if multi => { o.push_str("\\\n"); }
            4 if multi => { o.push_str(pk(rng, &["\"", "\"\"", "'", "''"])); }
            _ => o.push_str(pk(rng, STR_PARTS)),
        }
    }
}

fn gen_atom(rng: &mut Rng, depth: u32, o: &mut String) {
    match rng.below(16) {
        0..=3 => o.push_str(pk(rng, IDENTS)),
        4..=6 => o.push_str(pk(rng, NUMS)),
        7 | 8 => {
            o.push('"');
            gen_str_body(rng, depth, false, o);
            if !rng.chance(1, 15) { o.push('"'); }
        }
        9 => {
            let q = if rng.chance(2, 3) { "\"\"\"" } else { "'''" };
            o.push_str(q);
            gen_str_body(rng, depth, true, o);
            if !rng.chance(1, 10) { o.push_str(q); }
        }
        10 if depth < 4 => {
            let (l, r) = pk(rng, &[("(", ")"), ("[", "]"), ("{", "}")]);
            o.push_str(l);
            let k = rng.below(4);
            for j in 0..k {
                if j > 0 { o.push_str(pk(rng, &[", ", ",", "; ", ",\n", ",\n    "])); }
                gen_expr(rng, depth + 1, o);
            }
            if rng.chance(1, 8) { o.push('\n'); }
            if !rng.chance(1, 12) { o.push_str(r); }
        }
        11 => { o.push_str(pk(rng, IDENTS)); o.push('.'); o.push_str(pk(rng, &["0", "1", "x", "method!", "real"])); }
        12 => { o.push('-'); o.push_str(pk(rng, NUMS)); }
        13 => { o.push('\''); o.push_str(pk(rng, &["a b", "d/dx", "", "é", "x'"])); if !rng.chance(1, 8) { o.push('\''); } if rng.chance(1, 4) { o.push('!'); } }
        14 => o.push_str(pk(rng, ODD)),
        _ => o.push_str(pk(rng, IDENTS)),
    }
}

fn gen_expr(rng: &mut Rng, depth: u32, o: &mut String) {
    if rng.chance(1, 6) { o.push_str(pk(rng, &["-", "+", "!", "~", "*", "**", "ref ", "ref! "])); }
    gen_atom(rng, depth, o);
    let k = rng.below(3);
    for _ in 0..k {
        let sp = rng.below(5);
        if sp == 0 || sp == 1 { o.push(' '); } else if sp == 4 { o.push_str("  "); }
        o.push_str(pk(rng, OPS));
        if sp == 0 || sp == 2 { o.push(' '); }
        gen_atom(rng, depth, o);
    }
}

fn gen_line(rng: &mut Rng, o: &mut String) {
    match rng.below(10) {
        0..=3 => { o.push_str(pk(rng, IDENTS)); o.push_str(pk(rng, &[" = ", " =", "= ", ": Int = ", " := "])); gen_expr(rng, 0, o); }
        4 => { o.push_str(pk(rng, IDENTS)); o.push(' '); o.push_str(pk(rng, IDENTS)); o.push_str(pk(rng, &[" =", " ->", " =>", ":"])); }
        5 => { o.push_str(pk(rng, IDENTS)); o.push(' '); gen_expr(rng, 0, o); o.push_str(", "); gen_expr(rng, 0, o); }
        6 => { o.push_str(pk(rng, &["# comment", "#", "#[ multi\n   line ]#", "#[ open", "# é 日本", "#[]#", "#[#[]#]# x"])); }
        7 => {}
        _ => gen_expr(rng, 0, o),
    }
    if rng.chance(1, 6) { o.push_str(pk(rng, &[" # trailing", "  ", " ", " \\", " #[ c ]# y", "\t", " #[ c\n d ]# z"])); }
}

fn gen_program(rng: &mut Rng) -> String {
    let mut o = String::new();
    let nlines = 1 + rng.below(8);
    let mut indent: Vec<usize> = vec![];
    for li in 0..nlines {
        let r = rng.below(10);
        if li > 0 {
            if r < 3 { indent.push(pk(rng, &[1usize, 2, 4, 4, 4, 8, 3])); } else if r < 6 && !indent.is_empty() { indent.pop(); } else if r == 6 && !indent.is_empty() { indent.pop(); if !indent.is_empty() { indent.pop(); } }
        }
        let mut sp: usize = indent.iter().sum();
        if rng.chance(1, 12) { sp = rng.below(12) as usize; }
        if rng.chance(1, 200) { sp = 99 + rng.below(4) as usize; }
        if li == 0 && !rng.chance(1, 15) { sp = 0; }
        for _ in 0..sp { o.push(' '); }
        gen_line(rng, &mut o);
        if li + 1 < nlines || rng.chance(2, 3) { o.push_str(if rng.chance(1, 25) { "\r\n" } else { "\n" }); }
    }
    o
}

const ALPHABET: &[&str] = &[" ", " ", " ", "\n", "\n", "a", "b", "x", "e", "_", "0", "1", "9", ".", ".", "\"", "\"", "'", "\\", "\\", "{", "}", "(", ")", "[", "]", "#", "+", "-", "*", "/", "<", ">", "=", "!", ":", ",", "|", "&", "^", "~", "?", "@", "$", "%", ";", "`",
    "\t", "\r", "é", "名", "\u{202E}", "\u{200F}", "１", "😀", "\0", "n", "t", "r", "\\{", "\"\"\"", "'''", "#[", "]#", "    ", "\\\n"];

fn gen_raw(rng: &mut Rng) -> String {
    let n = rng.below(24);
    let mut o = String::new();
    for _ in 0..n { o.push_str(pk(rng, ALPHABET)); }
    o
}

fn mutate(rng: &mut Rng, s: &str) -> String {
    let mut cs: Vec<char> = s.chars().collect();
    let k = 1 + rng.below(3);
    for _ in 0..k {
        let n = cs.len();
        match rng.below(6) {
            0 => { let at = rng.below(n as u64 + 1) as usize; cs.truncate(at); }
            1 if n > 0 => { let at = rng.below(n as u64) as usize; cs.remove(at); }
            2 => { let at = rng.below(n as u64 + 1) as usize; let ins: Vec<char> = pk(rng, ALPHABET).chars().collect(); for (j, c) in ins.into_iter().enumerate() { cs.insert(at + j, c); } }
            3 if n > 0 => { let at = rng.below(n as u64) as usize; let ins: Vec<char> = pk(rng, ALPHABET).chars().collect(); cs[at] = ins[0]; }
            4 if n > 1 => { let a = rng.below(n as u64) as usize; let b = a + rng.below((n - a) as u64) as usize; let sl: Vec<char> = cs[a..b].to_vec(); let at = rng.below(n as u64 + 1) as usize; for (j, c) in sl.into_iter().enumerate() { cs.insert(at + j, c); } }
            _ => { let at = rng.below(n as u64 + 1) as usize; cs.truncate(at); cs.push('\\'); }
        }
    }
    cs.into_iter().collect()
}

pub fn gen_case(rng: &mut Rng) -> String {
    match rng.below(10) {
        0..=3 => gen_program(rng),
        4..=6 => { let p = gen_program(rng); mutate(rng, &p) }
        7 => { let mut o = String::new(); gen_expr(rng, 0, &mut o); if rng.chance(1, 2) { mutate(rng, &o) } else { o } }
        _ => gen_raw(rng),
    }
}

fn dump_xid() {
    for (name, f) in [("start", Lexer::is_valid_start_symbol_ch as fn(char) -> bool), ("cont", Lexer::is_valid_continue_symbol_ch as fn(char) -> bool)] {
        let mut lo: Option<u32> = None;
        let mut prev = 0u32;
        for cp in 0..=0x10FFFFu32 {
            let ok = char::from_u32(cp).map(f).unwrap_or(false);
            if ok {
                if lo.is_none() { lo = Some(cp); }
                prev = cp;
            } else if let Some(l) = lo.take() {
                println!("{}\t{}\t{}", name, l, prev);
            }
        }
        if let Some(l) = lo { println!("{}\t{}\t{}", name, l, prev); }
    }
}

fn main() {
    quiet_panics();
    let a = parse_args();
    match a.mode.as_str() {
        "gen" => {
            let mut rng = Rng(Rng::new(a.seed).next()); // scrambled: Rng::new(s) and Rng::new(s+1) are the same stream shifted by one
            for i in 0..a.n {
                let s = gen_case(&mut rng);
                run_case(&format!("g{}", i), &s);
            }
        }
        "replay" => {
            for (id, input) in stdin_cases() {
                let inner = input.trim().strip_prefix("(src ").and_then(|s| s.strip_suffix(")")).unwrap_or("");
                match unquote(inner) { Some(p) => run_case(&id, &p), None => println!("{}\t{}\tbad-input", id, input) }
            }
        }
        "dump-xid" => dump_xid(),
        _ => { eprintln!("usage: c08 gen|replay|dump-xid"); std::process::exit(2); }
    }
}
