//! C17 (i): literals in the transpiled Python script.
//! line: id \t (src "<erg source>") (lit <TokenKind> "<token content>" <value>) \t (line "<the script's statement for `.s = <literal>`>")
//!
//! The one-binding module `.s = <literal>` is compiled by the real front end; the literal's token and value are read off
//! the HIR; the same HIR goes through the real `PyScriptGenerator::transpile`; the last line of the script is the output.
use erg_common::config::ErgConfig;
use erg_common::traits::Stream;
use erg_compiler::build_package::PackageBuilder;
use erg_compiler::desugar_hir::HIRDesugarer;
use erg_compiler::hir::{Expr, HIR};
use erg_compiler::link_hir::HIRLinker;
use erg_compiler::module::SharedCompilerResource;
use erg_compiler::transpile::PyScriptGenerator;
use erg_compiler::ty::value::ValueObj;
use erg_harness::*;

fn value_sexp(v: &ValueObj) -> String {
    match v {
        ValueObj::Nat(n) => format!("(nat {n})"),
        ValueObj::Int(i) => format!("(int {i})"),
        ValueObj::Float(f) => {
            let x: f64 = **f;
            format!("(float {} {:016x})", quote(&format!("{:?}", x)), x.to_bits())
        }
        ValueObj::Str(s) => format!("(str {})", quote(s)),
        ValueObj::Bool(b) => format!("(bool {b})"),
        ValueObj::None => "(none)".to_string(),
        other => format!("(other {})", quote(&other.to_string())),
    }
}

fn build_hir(src: &str) -> Result<(ErgConfig, HIR), String> {
    build_hir_with(None, src)
}

fn build_hir_with(st: Option<&mut (ErgConfig, SharedCompilerResource, PackageBuilder)>, src: &str) -> Result<(ErgConfig, HIR), String> {
    let mut own: PackageBuilder;
    let (cfg, shared, builder) = match st {
        Some(st) => (st.0.copy(), st.1.clone(), &mut st.2),
        None => {
            let mut cfg = ErgConfig::string(src.to_string());
                    let shared = SharedCompilerResource::new(cfg.copy());
            own = PackageBuilder::new_with_cache(cfg.copy(), "<module>".into(), shared.clone());
            (cfg, shared, &mut own)
        }
    };
    match builder.build(src.to_string(), "exec") {
        Ok(art) => {
            let linker = HIRLinker::new(&cfg, &shared.mod_cache);
            let hir = linker.link(art.object);
            Ok((cfg, HIRDesugarer::desugar(hir)))
        }
        Err(iart) => {
            let first = iart.errors.iter().next().map(|e| format!("{:?} {}", e.core.kind, e.core.main_message)).unwrap_or_default();
            Err(format!("{} error(s): {}", iart.errors.len(), first))
        }
    }
}


fn run_case(id: &str, src: &str, _chk: bool) -> String {
    let s = src.to_string();
    let (_cfg, hir) = match catch(move || build_hir(&s)) {
        Ok(Ok(x)) => x,
        Ok(Err(e)) => return format!("{}\t(src {}) (rejected)\trejected({})", id, quote(src), quote(&e)),
        Err(p) => return format!("{}\t(src {}) (rejected)\trejected({})", id, quote(src), quote(&format!("front-end panic: {p}"))),
    };
    let proj = match hir.module.iter().last() {
        Some(Expr::Def(def)) => match def.body.block.first() {
            Some(Expr::Literal(lit)) => format!("(lit {:?} {} {})", lit.token.kind, quote(&lit.token.content), value_sexp(&lit.value)),
            _ => "(nonliteral)".to_string(),
        },
        _ => "(nonliteral)".to_string(),
    };
    let out = match catch(move || {
        let mut gen = PyScriptGenerator::new();
        let script = gen.transpile(hir);
        script.code.lines().rev().find(|l| !l.is_empty()).unwrap_or("").to_string()
    }) {
        Ok(s) => format!("(line {})", quote(&s)),
        Err(e) => format!("crash({})", quote(&e)),
    };
    format!("{}\t(src {}) {}\t{}", id, quote(src), proj, out)
}

/// run the cases on a few worker threads (every case builds its own front end, ~0.25 s in a debug build; cases are
/// independent) and print the lines in case order
fn run_all(cases: Vec<(String, String, bool)>) {
    let n = cases.len();
    let cases = std::sync::Arc::new(cases);
    let next = std::sync::Arc::new(std::sync::atomic::AtomicUsize::new(0));
    let results = std::sync::Arc::new(std::sync::Mutex::new(vec![String::new(); n]));
    let workers = std::thread::available_parallelism().map(|x| x.get()).unwrap_or(4).clamp(1, 8);
    let mut hs = vec![];
    for _ in 0..workers {
        let (cases, next, results) = (cases.clone(), next.clone(), results.clone());
        hs.push(std::thread::Builder::new().stack_size(256 << 20).spawn(move || loop {
            let i = next.fetch_add(1, std::sync::atomic::Ordering::SeqCst);
            if i >= cases.len() { break; }
            let (id, src, chk) = &cases[i];
            let line = run_case(id, src, *chk);
            results.lock().unwrap()[i] = line;
        }).unwrap());
    }
    for h in hs { let _ = h.join(); }
    for l in results.lock().unwrap().iter() { println!("{l}"); }
}

const STR_POOL: &[&str] = &[
    "a", "b", "z", " ", "\"", "\\", "{", "}", "\n", "\r", "\0", "\u{1}", "\u{1f}", "\u{7f}", "\u{ff}", "\u{e9}", "\u{3042}",
    "\u{1F600}", "'", "\t", "/", "\u{2028}", "\u{feff}", "0", "1", "7", "n", "u", "x", ":", ",", "[", "]", "\u{8}", "\u{c}",
    "\u{80}", "\u{9f}", "\u{fffd}", "\u{10ffff}", "#", "\\n", "\"\"", "\u{d7ff}", "\u{e000}",
];

fn gen_str_content(rng: &mut Rng) -> String {
    let len = match rng.below(10) {
        0 => 0,
        1..=5 => 1 + rng.below(3) as usize,
        6..=8 => 3 + rng.below(6) as usize,
        _ => 10 + rng.below(30) as usize,
    };
    let mut s = String::new();
    for _ in 0..len {
        s.push_str(*rng.pick(STR_POOL));
    }
    s
}

/// spell a string content as an Erg single-line literal
fn erg_str_lit(content: &str, rng: &mut Rng) -> String {
    let mut o = String::from("\"");
    for c in content.chars() {
        match c {
            '"' => o.push_str("\\\""),
            '\\' => o.push_str("\\\\"),
            '\n' => o.push_str("\\n"),
            '\r' => o.push_str("\\r"),
            '\0' => o.push_str(if rng.chance(1, 2) { "\\0" } else { "\\x00" }),
            '\'' => o.push_str(if rng.chance(1, 2) { "\\'" } else { "'" }),
            c if (c as u32) < 0x20 && c != '\t' => o.push_str(&format!("\\x{:02x}", c as u32)),
            c if (c as u32) >= 0x7f && (c as u32) <= 0xff && rng.chance(1, 2) => o.push_str(&format!("\\x{:02X}", c as u32)),
            c => o.push(c),
        }
    }
    o.push('"');
    o
}

const NAT_POOL: &[u64] = &[0, 1, 2, 7, 10, 42, 255, 256, 1000, 65535, 65536, 2147483647, 2147483648, 4294967295, 4294967296,
    9223372036854775807, 9223372036854775808, 18446744073709551615];
const INT_POOL: &[i64] = &[-1, -2, -7, -10, -128, -1000, -65536, -2147483647, -2147483648];
fn with_underscores(s: &str, rng: &mut Rng) -> String {
    if s.len() < 2 || !rng.chance(1, 4) {
        return s.to_string();
    }
    let mut o = String::new();
    for (i, c) in s.chars().enumerate() {
        if i > 0 && rng.chance(1, 3) {
            o.push('_');
        }
        o.push(c);
    }
    o
}


fn gen_literal(rng: &mut Rng) -> String {
    match rng.below(10) {
        0 | 1 => {
            let n = if rng.chance(1, 2) { *rng.pick(NAT_POOL) } else { rng.below(1000) };
            match rng.below(8) {
                0 => format!("0x{}", with_underscores(&format!("{:x}", n), rng)),
                1 => format!("0b{}", with_underscores(&format!("{:b}", n), rng)),
                2 => format!("0o{}", with_underscores(&format!("{:o}", n), rng)),
                3 => format!("00{}", n),            // leading zeros: fine in Erg, a SyntaxError in Python
                4 => format!("0_{}", n),
                _ => with_underscores(&n.to_string(), rng),
            }
        }
        2 => format!("-{}", 1 + rng.below(2147483648)),
        _ => {
            let c = gen_str_content(rng);
            erg_str_lit(&c, rng)
        }
    }
}

fn src_of_input(input: &str) -> Option<String> {
    let rest = input.trim().strip_prefix("(src ")?;
    // the quoted string ends at the first unescaped quote
    let b = rest.as_bytes();
    let mut i = 1;
    while i < b.len() {
        if b[i] == b'\\' { i += 2; continue; }
        if b[i] == b'"' { break; }
        i += 1;
    }
    unquote(&rest[..=i.min(rest.len() - 1)])
}

fn main() {
    quiet_panics();
    let a = parse_args();
    match a.mode.as_str() {
        "gen" => {
            let mut rng = Rng::new(a.seed);
            let mut cases = vec![];
            for i in 0..a.n {
                let lit = gen_literal(&mut rng);
                cases.push((format!("g{i}"), format!(".s = {lit}\n"), false));
            }
            run_all(cases);
        }
        "replay" => {
            let mut cases = vec![];
            for (id, input) in stdin_cases() {
                match src_of_input(&input) {
                    Some(src) => cases.push((id, src, true)),
                    None => println!("{}\t{}\tbad-input", id, input),
                }
            }
            run_all(cases);
        }
        _ => {
            eprintln!("usage: c17 gen|replay");
            std::process::exit(2);
        }
    }
}
