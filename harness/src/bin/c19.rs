//! C19: the same project runner as C20 (`c20.rs`): `c19 child <dir> <entry> <delays> <sched-seed>` compiles a project once in this
//! process with the `verif_sched` observer installed — forced delays `tag,module,ms;…` and/or a seeded perturbation (yields and
//! sleeps of 0–60 ms drawn from a hash of (seed, tag, module, call counter) at every analysis-thread boundary) — writes
//! `<stem>.pyc` and prints the event log (`E` lines), the sorted diagnostics (`D` lines) and the status (`R`).
//! `c19 gen --seed S --n N --tier T --list` lists generated projects, `c19 emit <dir>` materialises one (stdin: id \t input).
//! The orchestration (≥ 5 perturbed runs + one run of the `harness-seq` build per project) is in checks/c19.py.
#[path = "c20.rs"]
mod c20;

fn main() {
    c20::main()
}
