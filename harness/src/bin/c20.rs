//! C20 (and the project runner used by C19): multi-module projects compiled by the real compiler in a child process with the
//! `erg_compiler::build_package::verif_sched` observer installed; the compiled `.pyc` is then run under Python.
//!
//! line: id \t (proj …) [see multimod.rs] \t (core <C>) (obs <O>)
//!   <C> = (graph (<id> <dep>…)…) (inl (<inlined> <inliner>)…) (asts <id>…) (cyclic <id>…) (bdm <event>…)
//!         graph nodes in vector order, each with its dependency set sorted; inl/asts sorted; cyclic in vector order;
//!         bdm events of the main thread in program order: (enter <path> <ancestors vec…>) (start <m>) (inlined <m>) (rotate <m>)
//!         (exit <path>) (settled <m>) (recurse <m> <inliner>) (joined <m>) (skipped <m>)
//!   <O> = (compile ok|err|timeout|crash) (diag (<kind> <file> <line> "<first line of message>")… sorted) (run <rc> "<line>"… sorted)
//! modes: gen --seed S --n N --tier T | replay | child <dir> <entry> <delays> (internal) |
//!        compile <dir> <entry> <sched-seed> (C19: compile once under a seeded perturbation, print diagnostics)
use erg_common::config::ErgConfig;
use erg_common::python_util::PythonVersion;
use erg_common::traits::Stream;
use erg_compiler::build_package::verif_sched;
use erg_compiler::Compiler;
use erg_harness::multimod::*;
use erg_harness::*;
use std::io::Read;
use std::path::{Path, PathBuf};
use std::process::{Command, Stdio};
use std::sync::atomic::{AtomicU64, Ordering};
use std::sync::Mutex;
use std::time::{Duration, Instant};

static LOG: Mutex<Vec<(String, String, String, String)>> = Mutex::new(Vec::new());
static DELAYS: Mutex<Vec<(String, String, u64)>> = Mutex::new(Vec::new());
static SCHED_SEED: AtomicU64 = AtomicU64::new(0);
static COUNTER: AtomicU64 = AtomicU64::new(0);

fn stem(p: &Path) -> String {
    p.file_stem().map(|x| x.to_string_lossy().to_string()).unwrap_or_default()
}

fn observer(tag: &'static str, path: &Path, detail: &str) {
    let m = stem(path);
    let th = std::thread::current().name().unwrap_or("?").to_string();
    LOG.lock().unwrap().push((tag.to_string(), m.clone(), detail.to_string(), th));
    let ms = DELAYS.lock().unwrap().iter().find(|(t, mm, _)| t == tag && *mm == m).map(|x| x.2);
    if let Some(ms) = ms {
        std::thread::sleep(Duration::from_millis(ms));
    }
    let seed = SCHED_SEED.load(Ordering::Relaxed);
    if seed != 0 && !tag.starts_with("bdm-") && tag != "resolved" {
        // seeded perturbation: a hash of (seed, tag, module, global call counter) decides between nothing, a yield and a sleep
        let c = COUNTER.fetch_add(1, Ordering::Relaxed);
        let mut h = seed ^ c.wrapping_mul(0x9E3779B97F4A7C15);
        for b in tag.bytes().chain(m.bytes()) {
            h = (h ^ b as u64).wrapping_mul(0x100000001B3);
        }
        let mut r = Rng::new(h);
        match r.below(4) {
            0 => {}
            1 => std::thread::yield_now(),
            2 => std::thread::sleep(Duration::from_millis(r.below(8))),
            _ => std::thread::sleep(Duration::from_millis(r.below(60))),
        }
    }
}

fn first_line(s: &str) -> String {
    strip_ansi(s).lines().next().unwrap_or("").trim().to_string()
}

fn diag_rows(errs: &erg_compiler::error::CompileErrors, tag: &str, out: &mut Vec<String>) {
    for e in errs.iter() {
        let file = Path::new(&e.input.path().to_string_lossy().to_string()).file_name().map(|x| x.to_string_lossy().to_string()).unwrap_or_default();
        out.push(format!("({}:{:?} {} {} {})", tag, e.core.kind, file, e.core.loc.ln_begin().unwrap_or(0), quote(&first_line(&e.core.main_message))));
    }
}

/// runs in the child process: compile <dir>/<entry> to <dir>/<stem>.pyc, print events and diagnostics
fn child(dir: &str, entry: &str, delays: &str, sched_seed: u64) {
    for d in delays.split(';').filter(|x| !x.is_empty()) {
        let p: Vec<&str> = d.split(',').collect();
        if p.len() == 3 {
            DELAYS.lock().unwrap().push((p[0].to_string(), format!("m{}", p[1]), p[2].parse().unwrap_or(0)));
        }
    }
    SCHED_SEED.store(sched_seed, Ordering::Relaxed);
    verif_sched::set_sched_point(Some(observer));
    let path = PathBuf::from(dir).join(entry);
    let mut cfg = ErgConfig::with_main_path(path.clone());
    cfg.target_version = Some(PythonVersion::new(3, Some(11), Some(0)));
    cfg.py_magic_num = Some(3495);
    let src = std::fs::read_to_string(&path).unwrap_or_default();
    let mut pyc = path.clone();
    pyc.set_extension("pyc");
    let res = catch(std::panic::AssertUnwindSafe(move || {
        let mut compiler = Compiler::new(cfg);
        let mut rows = vec![];
        let status = match compiler.compile_and_dump_as_pyc(&pyc, src, "exec") {
            Ok(warns) => {
                diag_rows(&warns, "w", &mut rows);
                "ok"
            }
            Err(eart) => {
                diag_rows(&eart.errors, "e", &mut rows);
                diag_rows(&eart.warns, "w", &mut rows);
                "err"
            }
        };
        (status, rows)
    }));
    verif_sched::set_sched_point(None);
    let out = std::io::stdout();
    use std::io::Write;
    let mut o = out.lock();
    for (tag, m, detail, th) in LOG.lock().unwrap().iter() {
        let detail = if tag == "resolved" {
            detail.split('|').map(|sec| format!("{}{}", &sec[..2.min(sec.len())], stems(&sec[2.min(sec.len())..]))).collect::<Vec<_>>().join("|")
        } else {
            stems(detail)
        };
        writeln!(o, "E\t{}\t{}\t{}\t{}", tag, m, detail, th).unwrap();
    }
    match res {
        Ok((status, mut rows)) => {
            rows.sort();
            for r in rows { writeln!(o, "D\t{}", r).unwrap(); }
            writeln!(o, "R\t{}", status).unwrap();
        }
        Err(e) => writeln!(o, "R\tcrash\t{}", quote(&first_line(&e))).unwrap(),
    }
    o.flush().unwrap();
    std::process::exit(0);
}

struct ChildOut { status: String, events: Vec<(String, String, String, String)>, diags: Vec<String>, stderr: String }

fn wait_timeout(mut ch: std::process::Child, secs: u64) -> (Option<i32>, String, String) {
    let mut so = ch.stdout.take().unwrap();
    let mut se = ch.stderr.take().unwrap();
    let t1 = std::thread::spawn(move || { let mut s = String::new(); so.read_to_string(&mut s).ok(); s });
    let t2 = std::thread::spawn(move || { let mut s = String::new(); se.read_to_string(&mut s).ok(); s });
    let t0 = Instant::now();
    let rc = loop {
        match ch.try_wait() {
            Ok(Some(st)) => break st.code().or(Some(-1)),
            Ok(None) => {
                if t0.elapsed() > Duration::from_secs(secs) {
                    ch.kill().ok();
                    ch.wait().ok();
                    break None;
                }
                std::thread::sleep(Duration::from_millis(50));
            }
            Err(_) => break Some(-2),
        }
    };
    (rc, t1.join().unwrap_or_default(), t2.join().unwrap_or_default())
}

fn timeout_secs() -> u64 {
    std::env::var("VERIF_MM_TIMEOUT").ok().and_then(|x| x.parse().ok()).unwrap_or(420)
}

fn run_child(dir: &Path, p: &Proj, sched_seed: u64) -> ChildOut {
    let delays = p.delays.iter().map(|(t, m, ms)| format!("{},{},{}", t, m, ms)).collect::<Vec<_>>().join(";");
    let exe = std::env::current_exe().unwrap();
    let ch = Command::new(exe).arg("child").arg(dir).arg(p.entry()).arg(&delays).arg(sched_seed.to_string())
        .stdout(Stdio::piped()).stderr(Stdio::piped()).stdin(Stdio::null()).spawn().unwrap();
    let (rc, out, err) = wait_timeout(ch, timeout_secs());
    let mut co = ChildOut { status: String::new(), events: vec![], diags: vec![], stderr: err };
    for l in out.lines() {
        let f: Vec<&str> = l.split('\t').collect();
        match f[0] {
            "E" if f.len() >= 5 => co.events.push((f[1].into(), f[2].into(), f[3].into(), f[4].into())),
            "D" if f.len() >= 2 => co.diags.push(f[1].into()),
            "R" if f.len() >= 2 => co.status = f[1..].join(" "),
            _ => {}
        }
    }
    if rc.is_none() {
        co.status = "timeout".into();
    } else if co.status.is_empty() {
        // the child died without a verdict (a panic in an analysis thread ends the process through exec_new_thread / abort)
        let msg = co.stderr.lines().find(|l| l.contains("panicked")).unwrap_or("").to_string();
        co.status = format!("crash {}", quote(&first_line(&msg)));
    }
    co
}

fn names(s: &str, sep: char) -> String {
    s.split(sep).filter(|x| !x.is_empty()).map(|x| x.trim_start_matches('m').to_string()).collect::<Vec<_>>().join(" ")
}

fn num(m: &str) -> String { m.trim_start_matches('m').to_string() }

fn core_of(co: &ChildOut) -> String {
    let mut o = String::new();
    let mut have_resolved = false;
    let mut bdm = vec![];
    for (tag, m, detail, _) in &co.events {
        match tag.as_str() {
            "resolved" => {
                have_resolved = true;
                for sec in detail.split('|') {
                    let (k, rest) = sec.split_at(2.min(sec.len()));
                    match k {
                        "G:" => {
                            o.push_str("(graph");
                            for n in rest.split(';').filter(|x| !x.is_empty()) {
                                let mut it = n.splitn(2, '>');
                                let id = it.next().unwrap_or("");
                                let deps = it.next().unwrap_or("");
                                let mut dv: Vec<usize> = deps.split(',').filter(|x| !x.is_empty()).filter_map(|x| num(x).parse().ok()).collect();
                                dv.sort();
                                o.push_str(&format!(" ({}{})", num(id), dv.iter().map(|x| format!(" {}", x)).collect::<String>()));
                            }
                            o.push(')');
                        }
                        "I:" => {
                            let mut v: Vec<String> = rest.split(';').filter(|x| !x.is_empty()).map(|kv| { let mut it = kv.splitn(2, '>'); format!("({} {})", num(it.next().unwrap_or("")), num(it.next().unwrap_or(""))) }).collect();
                            v.sort();
                            o.push_str(&format!(" (inl{}{})", if v.is_empty() { "" } else { " " }, v.join(" ")));
                        }
                        "A:" => {
                            let mut v: Vec<usize> = rest.split(';').filter(|x| !x.is_empty()).filter_map(|x| num(x).parse().ok()).collect();
                            v.sort();
                            o.push_str(&format!(" (asts{})", v.iter().map(|x| format!(" {}", x)).collect::<String>()));
                        }
                        "C:" => {
                            o.push_str(&format!(" (cyclic{}{})", if rest.is_empty() { "" } else { " " }, names(rest, ';')));
                        }
                        _ => {}
                    }
                }
            }
            "bdm-enter" => bdm.push(format!("(enter {}{}{})", num(m), if detail.is_empty() { "" } else { " " }, names(detail, ';'))),
            "bdm-start" => bdm.push(format!("(start {})", num(m))),
            "bdm-inlined" => bdm.push(format!("(inlined {})", num(m))),
            "bdm-rotate" => bdm.push(format!("(rotate {})", num(m))),
            "bdm-exit" => bdm.push(format!("(exit {})", num(m))),
            // already analysed / registered and waited for: which of the two the main thread sees depends on thread progress
            "inl-cached" | "inl-wait" => bdm.push(format!("(settled {})", num(m))),
            "inl-recurse" => bdm.push(format!("(recurse {} {})", num(m), num(detail))),
            "inl-joined" => bdm.push(format!("(joined {})", num(m))),
            "start-skipped" => bdm.push(format!("(skipped {})", num(m))),
            _ => {}
        }
    }
    if !have_resolved {
        o.push_str("(no-resolved-event)");
    }
    o.push_str(&format!(" (bdm{}{})", if bdm.is_empty() { "" } else { " " }, bdm.join(" ")));
    o
}

fn python() -> String {
    std::env::var("VERIF_PYTHON").unwrap_or_else(|_| "/root/.pyenv/versions/3.11.7/bin/python3.11".to_string())
}

fn run_pyc(dir: &Path, p: &Proj) -> String {
    let pyc = p.entry().replace(".er", ".pyc");
    let ch = Command::new(python()).arg(&pyc).current_dir(dir).stdout(Stdio::piped()).stderr(Stdio::piped()).stdin(Stdio::null()).spawn();
    let Ok(ch) = ch else { return "(run spawn-failed)".into() };
    let (rc, out, err) = wait_timeout(ch, 120);
    let mut lines: Vec<String> = out.lines().map(|l| quote(l)).collect();
    lines.sort();
    let mut s = format!("(run {}", rc.map(|x| x.to_string()).unwrap_or("timeout".into()));
    for l in lines { s.push(' '); s.push_str(&l); }
    if rc != Some(0) {
        let last = err.lines().last().unwrap_or("");
        s.push_str(&format!(" (stderr {})", quote(last)));
    }
    s.push(')');
    s
}

fn run_case(id: &str, input: &str, keep: bool) -> String {
    let Some(p) = Proj::parse(input) else { return format!("{}\t{}\tbad-input", id, input) };
    let dir = tmp_root().join(id.replace(|c: char| !c.is_ascii_alphanumeric(), "_"));
    let _ = std::fs::remove_dir_all(&dir);
    p.materialise(&dir).unwrap();
    let co = run_child(&dir, &p, 0);
    let st = co.status.split(' ').next().unwrap_or("").to_string();
    let mut obs = format!("(compile {})", co.status);
    obs.push_str(&format!(" (diag{}{})", if co.diags.is_empty() { "" } else { " " }, co.diags.join(" ")));
    if st == "ok" {
        obs.push(' ');
        obs.push_str(&run_pyc(&dir, &p));
    } else {
        obs.push_str(" (run -)");
    }
    if !keep { let _ = std::fs::remove_dir_all(&dir); }
    format!("{}\t{}\t(core {}) (obs {})", id, input, core_of(&co), obs)
}

fn run_all(cases: Vec<(String, String)>) {
    let jobs: usize = std::env::var("VERIF_MM_JOBS").ok().and_then(|x| x.parse().ok()).unwrap_or(4);
    let keep = std::env::var("VERIF_MM_KEEP").is_ok();
    let n = cases.len();
    let next = std::sync::atomic::AtomicUsize::new(0);
    let results: Mutex<Vec<Option<String>>> = Mutex::new(vec![None; n]);
    std::thread::scope(|s| {
        for _ in 0..jobs.max(1) {
            s.spawn(|| loop {
                let i = next.fetch_add(1, Ordering::SeqCst);
                if i >= n { break; }
                let r = run_case(&cases[i].0, &cases[i].1, keep);
                results.lock().unwrap()[i] = Some(r);
            });
        }
    });
    for r in results.into_inner().unwrap() {
        println!("{}", r.unwrap_or_default());
    }
    if !keep { let _ = std::fs::remove_dir_all(tmp_root()); }
}

pub fn main() {
    let av: Vec<String> = std::env::args().collect();
    if av.get(1).map(|s| s.as_str()) == Some("child") {
        child(&av[2], &av[3], av.get(4).map(|s| s.as_str()).unwrap_or(""), av.get(5).and_then(|x| x.parse().ok()).unwrap_or(0));
        return;
    }
    let a = parse_args();
    match a.mode.as_str() {
        "gen" => {
            let mut rng = Rng::new(a.seed);
            let mut cases = vec![];
            let mut hist = std::collections::BTreeMap::new();
            for i in 0..a.n {
                let (p, shape) = gen_proj(&mut rng, &a.tier);
                *hist.entry(shape.to_string()).or_insert(0usize) += 1;
                *hist.entry(format!("n={}", p.mods.len())).or_insert(0usize) += 1;
                if p.mods.iter().any(|m| !m.bad.is_empty()) { *hist.entry("bad-use".into()).or_insert(0usize) += 1; }
                cases.push((format!("g{}-{}", a.seed, i), p.to_sexp()));
            }
            eprintln!("{}", hist.iter().map(|(k, v)| format!("{}:{}", k, v)).collect::<Vec<_>>().join(" "));
            if a.rest.iter().any(|x| x == "--list") {
                for (id, inp) in cases { println!("{}\t{}", id, inp); }
                return;
            }
            run_all(cases);
        }
        "replay" => run_all(stdin_cases()),
        "emit" => {
            // materialise the project of the first stdin case into the directory given as argument (for the CLI stage)
            let dir = a.rest.first().cloned().unwrap_or_else(|| ".".into());
            if let Some((_, inp)) = stdin_cases().into_iter().next() {
                if let Some(p) = Proj::parse(&inp) { p.materialise(Path::new(&dir)).unwrap(); }
            }
        }
        _ => eprintln!("usage: c20 gen --seed S --n N [--tier T] | replay"),
    }
}
