//! C06: subtyping on the grammar G (see ../tyx.rs) against the real `Context::subtype_of` on a builtin module context.
//!   dump                 the nominal lattice: one line per builtin mono type (and the poly types `List`, `Tuple`):
//!                        `row \t Name \t class|trait|other \t mvc|- \t <super classes> \t <super traits>` (T-gen input)
//!   gen / replay         id \t <case> \t <impl-output>
//!     (pair S T)                        → (sub <Context::subtype_of(S, T)>) (sup <verif_supertype_of(T, S)>)
//!     (law refl A) | (law bot A) | (law top A)             → (r <bool>)
//!     (law trans A B C)                 → (ab <A<:B>) (bc <B<:C>) (ac <A<:C>)
//!     (law orintro A B AB)              AB = the value of `or(A, B)`  → (r <A <: AB>) (r2 <B <: AB>)
//!     (law andelim A B AB)              AB = the value of `and(A, B)` → (r <AB <: A>) (r2 <AB <: B>)
//!     (fe S T)                          the program `f(x: T) = x` / `g(y: S) = f(y)` through the real front end
//!                                       → (fe accept|reject <kinds>) (sub <subtype_of(S, T)>)
use erg_common::config::ErgConfig;
use erg_common::set::Set;
use erg_common::Str;
use erg_compiler::context::Context;
use erg_compiler::module::SharedCompilerResource;
use erg_compiler::ty::constructors;
use erg_compiler::ty::typaram::TyParam;
use erg_compiler::ty::value::ValueObj;
use erg_compiler::ty::{IntervalOp, Type};
use erg_compiler::HIRBuilder;
use erg_harness::*;
#[path = "../tyx.rs"]
mod tyx;
use tyx::*;

fn module_ctx() -> Context {
    let cfg = ErgConfig::default();
    let shared = SharedCompilerResource::new(cfg.clone());
    Context::new_module("<module>", cfg, shared)
}

thread_local! {
    static CTX: Context = module_ctx();
}

fn sub(s: &TX, t: &TX) -> String {
    let (s2, t2) = (s.clone(), t.clone());
    match catch(move || {
        let (Some(st), Some(tt)) = (s2.build(), t2.build()) else {
            return "out-of-model(constant)".to_string();
        };
        CTX.with(|ctx| format!("{}", ctx.subtype_of(&st, &tt)))
    }) {
        Ok(s) => s,
        Err(m) => format!("crash({})", quote(&m)),
    }
}

fn sup(t: &TX, s: &TX) -> String {
    let (s2, t2) = (s.clone(), t.clone());
    match catch(move || {
        let (Some(st), Some(tt)) = (s2.build(), t2.build()) else {
            return "out-of-model(constant)".to_string();
        };
        CTX.with(|ctx| format!("{}", ctx.verif_supertype_of(&tt, &st)))
    }) {
        Ok(s) => s,
        Err(m) => format!("crash({})", quote(&m)),
    }
}

fn run_pair(id: &str, s: &TX, t: &TX) {
    println!("{}\t(pair {} {})\t(sub {}) (sup {})", id, s.to_sexp(), t.to_sexp(), sub(s, t), sup(t, s));
}

fn run_law(id: &str, law: &str, xs: &[TX]) {
    let out = match (law, xs.len()) {
        ("refl", 1) => format!("(r {})", sub(&xs[0], &xs[0])),
        ("bot", 1) => format!("(r {})", sub(&TX::Mono("Never".into()), &xs[0])),
        ("top", 1) => format!("(r {})", sub(&xs[0], &TX::Mono("Obj".into()))),
        ("trans", 3) => format!("(ab {}) (bc {}) (ac {})", sub(&xs[0], &xs[1]), sub(&xs[1], &xs[2]), sub(&xs[0], &xs[2])),
        ("orintro", 3) => format!("(r {}) (r2 {})", sub(&xs[0], &xs[2]), sub(&xs[1], &xs[2])),
        ("andelim", 3) => format!("(r {}) (r2 {})", sub(&xs[2], &xs[0]), sub(&xs[2], &xs[1])),
        _ => "bad-input".to_string(),
    };
    let args: Vec<String> = xs.iter().map(|x| x.to_sexp()).collect();
    println!("{}\t(law {} {})\t{}", id, law, args.join(" "), out);
}

// ------------------------------------------------------------------------------------------------ front end

fn pred_src(p: &PX, base: &str) -> Option<String> {
    let lit = |c: &i128| {
        if base == "Str" {
            format!("\"s{}\"", c)
        } else if *c < 0 {
            format!("({})", c)
        } else {
            format!("{}", c)
        }
    };
    Some(match p {
        PX::Val(_) | PX::Not(_) => return None,
        PX::Eq(c) => format!("I == {}", lit(c)),
        PX::Ge(c) => format!("I >= {}", lit(c)),
        PX::Le(c) => format!("I <= {}", lit(c)),
        PX::Ne(c) => format!("I != {}", lit(c)),
        PX::And(a, b) => format!("({}) and ({})", pred_src(a, base)?, pred_src(b, base)?),
        PX::Or(es) => {
            let mut v = vec![];
            for e in es {
                v.push(format!("({})", pred_src(e, base)?));
            }
            if v.is_empty() {
                return None;
            }
            v.join(" or ")
        }
    })
}

/// erg surface syntax of a type expression
fn type_src(t: &TX) -> Option<String> {
    Some(match t {
        TX::Mono(n) => n.clone(),
        TX::Ref(b, PX::Or(es)) if !es.is_empty() && es.iter().all(|e| matches!(e, PX::Eq(_))) => {
            // a literal enum
            let mut v = vec![];
            for e in es {
                if let PX::Eq(c) = e {
                    v.push(if b == "Str" { format!("\"s{}\"", c) } else { format!("{}", c) });
                }
            }
            format!("{{{}}}", v.join(", "))
        }
        TX::Ref(b, PX::Eq(c)) => {
            if b == "Str" {
                format!("{{\"s{}\"}}", c)
            } else {
                format!("{{{}}}", c)
            }
        }
        TX::Ref(b, PX::And(l, r)) if b != "Str" && matches!((&**l, &**r), (PX::Ge(_), PX::Le(_))) => {
            let (PX::Ge(lo), PX::Le(hi)) = (&**l, &**r) else { return None };
            if lo > hi {
                // `4..3` is not a type the front end accepts (it panics: "not a valid interval type"; reported under C07)
                return None;
            }
            if *lo < 0 || *hi < 0 {
                format!("{{I: {} | I >= {} and I <= {}}}", b, if *lo < 0 { format!("({})", lo) } else { lo.to_string() }, if *hi < 0 { format!("({})", hi) } else { hi.to_string() })
            } else {
                format!("{}..{}", lo, hi)
            }
        }
        TX::Ref(b, p) => format!("{{I: {} | {}}}", b, pred_src(p, b)?),
        TX::Or(ts) => {
            let mut v = vec![];
            for e in ts {
                v.push(format!("({})", type_src(e)?));
            }
            v.join(" or ")
        }
        TX::And(ts) => {
            let mut v = vec![];
            for e in ts {
                v.push(format!("({})", type_src(e)?));
            }
            v.join(" and ")
        }
        TX::List(e, n) => format!("List({}, {})", type_src(e)?, n),
        TX::Tuple(ts) => {
            let mut v = vec![];
            for e in ts {
                v.push(type_src(e)?);
            }
            format!("Tuple([{}])", v.join(", "))
        }
    })
}

fn front_end(src: &str) -> String {
    let s = src.to_string();
    match catch(move || {
        let cfg = ErgConfig::string(s.clone());
        let shared = SharedCompilerResource::new(cfg.clone());
        let mut builder = HIRBuilder::new_with_cache(cfg, "<module>", shared);
        match builder.build(s, "exec") {
            Ok(_) => "accept".to_string(),
            Err(iart) => {
                let mut v: Vec<String> = iart.errors.iter().map(|e| format!("{:?}", e.core.kind)).collect();
                v.sort();
                v.dedup();
                format!("reject {}", v.join(" "))
            }
        }
    }) {
        Ok(s) => s,
        Err(m) => format!("crash({})", quote(&m)),
    }
}

fn run_fe(id: &str, s: &TX, t: &TX) {
    let out = match (type_src(s), type_src(t)) {
        (Some(ss), Some(ts)) => {
            let src = format!("f(x: {}) = x\ng(y: {}) = f(y)\n", ts, ss);
            format!("(fe {}) (sub {})", front_end(&src), sub(s, t))
        }
        _ => "out-of-model(no-surface-syntax)".to_string(),
    };
    println!("{}\t(fe {} {})\t{}", id, s.to_sexp(), t.to_sexp(), out);
}

// ------------------------------------------------------------------------------------------------ dump (T-gen)

fn names_of(ts: &[Type]) -> String {
    let v: Vec<String> = ts.iter().map(|t| match show_type(t) {
        Some(TX::Mono(n)) => n,
        _ => "?".to_string(),
    }).collect();
    if v.is_empty() { "-".to_string() } else { v.join(" ") }
}

fn dump() {
    CTX.with(|ctx| {
        let (mono, _poly) = ctx.verif_builtin_type_names();
        let mut rows: Vec<(String, Type)> = mono.iter().map(|n| (n.clone(), constructors::from_str(Str::rc(n)))).collect();
        // the named variants are registered under their names as well; `Never` and `Obj` may be missing from the dictionary
        for n in ["Obj", "Never"] {
            if !rows.iter().any(|(m, _)| m == n) {
                rows.push((n.to_string(), constructors::from_str(Str::rc(n))));
            }
        }
        rows.sort_by(|a, b| a.0.cmp(&b.0));
        for (n, t) in rows.iter() {
            let (kind, sc, st) = match ctx.verif_nominal_info(t) {
                Some((_typ, is_c, is_t, sc, st)) => (if is_c { "class" } else if is_t { "trait" } else { "other" }, names_of(&sc), names_of(&st)),
                None => (if ctx.is_class(t) { "class-noctx" } else { "none" }, "-".to_string(), "-".to_string()),
            };
            println!("row\t{}\t{}\t{}\t{}\t{}", n, kind, if t.is_mono_value_class() { "mvc" } else { "-" }, sc, st);
        }
        // the polymorphic containers of G: what `nominal_supertype_of(_, List(T, N))` iterates over
        for (n, t) in [
            ("List", constructors::list_t(Type::Int, TyParam::Value(ValueObj::Nat(2)))),
            ("Tuple", constructors::tuple_t(vec![Type::Int, Type::Str])),
            ("Or", constructors::or(Type::Int, Type::Str)),
            ("And", constructors::and(Type::Int, Type::Str)),
        ] {
            if let Some((_typ, is_c, is_t, sc, st)) = ctx.verif_nominal_info(&t) {
                println!("poly\t{}\t{}\t-\t{}\t{}", n, if is_c { "class" } else if is_t { "trait" } else { "other" }, names_of(&sc), names_of(&st));
            } else {
                println!("poly\t{}\tnone\t-\t-\t-", n);
            }
        }
    });
}

// ------------------------------------------------------------------------------------------------ generators

/// atoms of the exhaustive pair stream (value classes, meta types, traits as they appear in `super_traits`)
const ATOMS: [&str; 40] = [
    "Obj", "Never", "Bool", "Nat", "Int", "Ratio", "Float", "Complex", "Str", "NoneType", "Type", "ClassType", "TraitType",
    "Code", "Frame", "Error", "Inf", "NegInf", "NotImplementedType", "Ellipsis", "Eq", "Ord", "Hash", "Num", "Show", "Named",
    "Immutable", "Mutable", "Sized", "GenericList", "GenericTuple", "GenericDict", "GenericSet", "Bytes", "Subroutine",
    "GenericCallable", "Irregular", "PathLike", "ToBool", "ToStr",
];

fn nat(n: u64) -> ValueObj {
    ValueObj::Nat(n)
}

fn int_val(c: i64) -> ValueObj {
    if c >= 0 { ValueObj::Nat(c as u64) } else { ValueObj::Int(c as i32) }
}

fn gen_enum(rng: &mut Rng) -> Type {
    match rng.below(6) {
        0 => {
            // string enum
            let n = 1 + rng.below(3);
            let mut s = Set::new();
            for _ in 0..n {
                s.insert(ValueObj::Str(Str::rc(&format!("s{}", rng.below(4)))));
            }
            constructors::v_enum(s)
        }
        1 => {
            // negative ints (homogeneous `Int`)
            let n = 1 + rng.below(3);
            let mut s = Set::new();
            for _ in 0..n {
                s.insert(ValueObj::Int(-(1 + rng.below(4) as i32)));
            }
            constructors::v_enum(s)
        }
        2 => {
            // mixed signs: `{I: Int | I == a or …}`
            let n = 1 + rng.below(4);
            let mut s = Set::new();
            for _ in 0..n {
                s.insert(TyParam::Value(int_val(rng.range(-3, 4))));
            }
            constructors::tp_enum(Type::Int, s)
        }
        _ => {
            let n = 1 + rng.below(4);
            let mut s = Set::new();
            for _ in 0..n {
                s.insert(nat(rng.below(6)));
            }
            constructors::v_enum(s)
        }
    }
}

fn gen_interval(rng: &mut Rng) -> Type {
    let a = rng.range(-3, 6);
    let b = a + rng.range(-1, 6);
    let l = TyParam::Value(int_val(a));
    let r = TyParam::Value(int_val(b));
    match rng.below(8) {
        0 => constructors::interval(IntervalOp::Closed, Type::Nat, TyParam::Value(int_val(a.max(0))), TyParam::Value(int_val(b.max(0)))),
        1 => constructors::int_interval(IntervalOp::RightOpen, l, TyParam::Value(ValueObj::Inf)),
        2 => constructors::int_interval(IntervalOp::LeftOpen, TyParam::Value(ValueObj::NegInf), r),
        _ => constructors::int_interval(IntervalOp::Closed, l, r),
    }
}

fn gen_mono(rng: &mut Rng, monos: &[String]) -> Type {
    if rng.chance(3, 4) {
        let tower: [&'static str; 15] = ["Obj", "Never", "Bool", "Nat", "Int", "Ratio", "Float", "Complex", "Str", "NoneType", "Eq", "Ord", "Num", "Hash", "Show"];
        let k = rng.below(tower.len() as u64) as usize;
        constructors::from_str(Str::ever(tower[k]))
    } else {
        let m: &String = rng.pick(monos);
        constructors::from_str(Str::rc(m.as_str()))
    }
}

fn gen_leaf(rng: &mut Rng, monos: &[String]) -> Type {
    match rng.below(10) {
        0..=3 => gen_mono(rng, monos),
        4..=6 => gen_enum(rng),
        _ => gen_interval(rng),
    }
}

fn gen_type(rng: &mut Rng, depth: usize, monos: &[String]) -> Type {
    if depth == 0 || rng.chance(1, 3) {
        return gen_leaf(rng, monos);
    }
    match rng.below(10) {
        0..=3 => {
            let n = 2 + rng.below(2);
            let mut t = gen_type(rng, depth - 1, monos);
            for _ in 1..n {
                t = constructors::or(t, gen_type(rng, depth - 1, monos));
            }
            t
        }
        4..=6 => {
            let n = 2 + rng.below(2);
            let mut t = gen_type(rng, depth - 1, monos);
            for _ in 1..n {
                t = constructors::and(t, gen_type(rng, depth - 1, monos));
            }
            t
        }
        7 | 8 => constructors::list_t(gen_type(rng, depth - 1, monos), TyParam::Value(nat(rng.below(4)))),
        _ => {
            let n = 1 + rng.below(3);
            constructors::tuple_t((0..n).map(|_| gen_type(rng, depth - 1, monos)).collect())
        }
    }
}

/// a type related to `t`: a member dropped/added, constants nudged, wrapped
fn relative(rng: &mut Rng, t: &Type, monos: &[String]) -> Type {
    match rng.below(8) {
        0 => t.clone(),
        1 => constructors::or(t.clone(), gen_leaf(rng, monos)),
        2 => constructors::and(t.clone(), gen_leaf(rng, monos)),
        3 => match t {
            Type::Or(s) => s.iter().next().cloned().unwrap_or(Type::Never),
            Type::And(v, _) => v.last().cloned().unwrap_or(Type::Obj),
            Type::Poly { params, .. } if t.is_list() => {
                let TyParam::Type(el) = &params[0] else { return t.clone() };
                constructors::list_t(relative(rng, el, monos), TyParam::Value(nat(rng.below(4))))
            }
            Type::Refinement(r) => (*r.t).clone(),
            _ => gen_leaf(rng, monos),
        },
        4 => match t {
            Type::Refinement(r) if matches!(*r.t, Type::Int | Type::Nat) => {
                // another refinement over the same base
                if rng.chance(1, 2) { gen_interval(rng) } else { gen_enum(rng) }
            }
            Type::Or(s) => {
                let mut v: Vec<Type> = s.iter().cloned().collect();
                v.rotate_left(1);
                v.into_iter().fold(Type::Never, constructors::or)
            }
            Type::And(v, _) => {
                let mut v = v.clone();
                v.rotate_left(1);
                Type::And(v, None)
            }
            _ => gen_leaf(rng, monos),
        },
        5 => match t {
            Type::Int | Type::Nat | Type::Bool => gen_interval(rng),
            Type::Str => constructors::v_enum(Set::from_iter([ValueObj::Str(Str::ever("s1"))])),
            _ => gen_leaf(rng, monos),
        },
        _ => gen_type(rng, 1, monos),
    }
}

fn shown(t: &Type) -> Option<TX> {
    let x = show_type(t)?;
    // the print must denote the same value (round trip through the bare variants)
    match x.build() {
        Some(b) if &b == t => Some(x),
        _ => None,
    }
}

fn gen_tx(rng: &mut Rng, depth: usize, monos: &[String]) -> (Type, TX) {
    loop {
        let t = gen_type(rng, depth, monos);
        if let Some(x) = shown(&t) {
            if x.depth() <= 2 {
                return (t, x);
            }
        }
    }
}

fn gen_rel(rng: &mut Rng, t: &Type, monos: &[String]) -> (Type, TX) {
    loop {
        let u = relative(rng, t, monos);
        if let Some(x) = shown(&u) {
            if x.depth() <= 2 {
                return (u, x);
            }
        }
    }
}

fn mono_names() -> Vec<String> {
    CTX.with(|ctx| {
        let (mono, _) = ctx.verif_builtin_type_names();
        mono.into_iter().filter(|n| n.chars().all(|c| c.is_ascii_alphanumeric())).collect()
    })
}

fn arg_usize(a: &Args, key: &str, default: usize) -> usize {
    a.rest.iter().position(|x| x == key).and_then(|k| a.rest.get(k + 1)).and_then(|s| s.parse().ok()).unwrap_or(default)
}

fn main() {
    quiet_panics();
    let a = parse_args();
    match a.mode.as_str() {
        "dump" => dump(),
        "gen" => {
            let monos = mono_names();
            let n_laws = arg_usize(&a, "--laws", a.n / 2);
            let n_fe = arg_usize(&a, "--fe", 0);
            // exhaustive over atom pairs (thorough: all alphanumeric mono names of the builtin context)
            let atoms: Vec<String> = if a.tier == "thorough" { monos.clone() } else { ATOMS.iter().map(|s| s.to_string()).filter(|s| monos.contains(s) || s == "Obj" || s == "Never").collect() };
            let mut id = 0usize;
            for s in &atoms {
                for t in &atoms {
                    run_pair(&format!("x{}", id), &TX::Mono(s.clone()), &TX::Mono(t.clone()));
                    id += 1;
                }
            }
            let mut rng = Rng::new(a.seed);
            for i in 0..a.n {
                let d = if i % 3 == 0 { 1 } else { 2 };
                let (st, sx) = gen_tx(&mut rng, d, &monos);
                let (_, tx) = if rng.chance(2, 3) { gen_rel(&mut rng, &st, &monos) } else { gen_tx(&mut rng, d, &monos) };
                if rng.chance(1, 2) { run_pair(&format!("g{}", i), &sx, &tx) } else { run_pair(&format!("g{}", i), &tx, &sx) }
            }
            let mut r2 = Rng::new(a.seed ^ 0x1A35);
            for i in 0..n_laws {
                let d = if i % 2 == 0 { 1 } else { 2 };
                let (at, ax) = gen_tx(&mut r2, d, &monos);
                match i % 8 {
                    0 => run_law(&format!("l{}", i), "refl", &[ax]),
                    1 => {
                        run_law(&format!("l{}b", i), "bot", &[ax.clone()]);
                        run_law(&format!("l{}t", i), "top", &[ax]);
                    }
                    2 => {
                        let (bt, bx) = gen_tx(&mut r2, 1, &monos);
                        let ab = constructors::or(at.clone(), bt.clone());
                        if let Some(abx) = shown(&ab) { run_law(&format!("l{}", i), "orintro", &[ax, bx, abx]) }
                    }
                    3 => {
                        let (bt, bx) = gen_tx(&mut r2, 1, &monos);
                        let ab = constructors::and(at.clone(), bt.clone());
                        if let Some(abx) = shown(&ab) { run_law(&format!("l{}", i), "andelim", &[ax, bx, abx]) }
                    }
                    _ => {
                        // a chain of related types, in a random orientation
                        let (bt, bx) = gen_rel(&mut r2, &at, &monos);
                        let (_, cx) = gen_rel(&mut r2, &bt, &monos);
                        let mut v = vec![ax, bx, cx];
                        let k = r2.below(6);
                        if k & 1 == 1 { v.swap(0, 1) }
                        if k & 2 == 2 { v.swap(1, 2) }
                        if k >= 4 { v.swap(0, 2) }
                        run_law(&format!("l{}", i), "trans", &v);
                    }
                }
            }
            let mut r3 = Rng::new(a.seed ^ 0xFE);
            for i in 0..n_fe {
                let (st, sx) = gen_tx(&mut r3, 1, &monos);
                let (_, tx) = if r3.chance(2, 3) { gen_rel(&mut r3, &st, &monos) } else { gen_tx(&mut r3, 1, &monos) };
                if r3.chance(1, 2) { run_fe(&format!("f{}", i), &sx, &tx) } else { run_fe(&format!("f{}", i), &tx, &sx) }
            }
        }
        "replay" => {
            for (id, input) in stdin_cases() {
                let t = input.trim();
                let bad = || println!("{}\t{}\tbad-input", id, input);
                if let Some(b) = t.strip_prefix("(pair ").and_then(|b| b.strip_suffix(")")) {
                    match parse_types(b) {
                        Some(v) if v.len() == 2 => run_pair(&id, &v[0], &v[1]),
                        _ => bad(),
                    }
                } else if let Some(b) = t.strip_prefix("(fe ").and_then(|b| b.strip_suffix(")")) {
                    match parse_types(b) {
                        Some(v) if v.len() == 2 => run_fe(&id, &v[0], &v[1]),
                        _ => bad(),
                    }
                } else if let Some(b) = t.strip_prefix("(law ").and_then(|b| b.strip_suffix(")")) {
                    let (law, rest) = b.split_once(' ').unwrap_or((b, ""));
                    match parse_types(rest) {
                        Some(v) => run_law(&id, law, &v),
                        _ => bad(),
                    }
                } else {
                    bad();
                }
            }
        }
        _ => {
            eprintln!("usage: c06 dump | gen [--laws N] [--fe N] | replay");
            std::process::exit(2);
        }
    }
}
