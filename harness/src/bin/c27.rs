//! C27: dump of the bundled Python standard-library declarations (T-gen).
//!
//!   c27 dump [<pystd dir>]     parses every `*.d.er` under crates/erg_compiler/lib/pystd (recursively, `*.d/` packages) with the
//!                              real erg_parser (ASTBuilder: parse + desugar, as build_package does) and prints TAB-separated rows:
//!        file  <module> <relative path> <parse status>
//!        decl  <module> <ergName> <pyName> <kind> <line>          top-level public declaration; kind = attr | renamed | submodule | def
//!        cattr <module> <classErg> <classPy> <attrErg> <attrPy> <line>   one level below: `.Class.attr: T`
//!        skip  <module> <line> <what>                               top-level chunk that declares nothing public (private name, subtype
//!                                                                   ascription, import of another module bound to a private name, ...)
//! The Python name follows crates/erg_compiler/declare.rs: the quoted name of `.Name = 'py_name': T` if present, else the erg
//! name, with trailing `!` trimmed (`declare_ident`: `ident.inspect().trim_end_matches('!')`).
use erg_common::config::ErgConfig;
use erg_common::traits::{Locational, Stream};
use erg_harness::*;
use erg_parser::ast::{Accessor, ClassAttr, Expr, Identifier, Signature, VarPattern, VisModifierSpec};
use erg_parser::build_ast::ASTBuilder;
use std::path::{Path, PathBuf};

fn is_public(id: &Identifier) -> bool {
    matches!(id.vis, VisModifierSpec::Public(_))
}

/// Python name of an erg identifier (hir::Accessor::local_name for raw `'quoted'` identifiers: the text between the quotes;
/// declare_ident otherwise: trailing `!` trimmed)
fn py_of(name: &str) -> String {
    let parts: Vec<&str> = name.split('\'').collect();
    if parts.len() == 3 || parts.len() == 4 {
        return parts[1].to_string();
    }
    name.trim_end_matches('!').to_string()
}

fn line_of<L: Locational>(l: &L) -> u32 {
    l.ln_begin().unwrap_or(0)
}

struct Dumper {
    module: String,
    /// erg class name -> python name, for `cattr` rows
    classes: Vec<(String, String)>,
}

impl Dumper {
    fn class_py(&self, erg: &str) -> String {
        self.classes.iter().find(|(e, _)| e == erg).map(|(_, p)| p.clone()).unwrap_or_else(|| py_of(erg))
    }

    /// `.name: T`, `.Class.attr: T`, `.Class(T).attr: T`
    fn tasc(&mut self, expr: &Expr, line: u32, subtype: bool) {
        match expr {
            Expr::Accessor(Accessor::Ident(id)) => {
                let n = id.inspect().to_string();
                if subtype {
                    println!("skip\t{}\t{}\tsubtype-ascription {}", self.module, line, n);
                } else if is_public(id) {
                    println!("decl\t{}\t{}\t{}\tattr\t{}", self.module, n, py_of(&n), line);
                    self.classes.push((n.clone(), py_of(&n)));
                } else {
                    println!("skip\t{}\t{}\tprivate {}", self.module, line, n);
                }
            }
            Expr::Accessor(Accessor::Attr(attr)) => {
                // owner: `.Class` or `.Class(T)`
                let owner = match attr.obj.as_ref() {
                    Expr::Accessor(Accessor::Ident(id)) => Some(id.inspect().to_string()),
                    Expr::Call(call) => match call.obj.as_ref() {
                        Expr::Accessor(Accessor::Ident(id)) => Some(id.inspect().to_string()),
                        _ => None,
                    },
                    _ => None,
                };
                let a = attr.ident.inspect().to_string();
                match owner {
                    Some(o) if !subtype => {
                        println!("cattr\t{}\t{}\t{}\t{}\t{}\t{}", self.module, o, self.class_py(&o), a, py_of(&a), line)
                    }
                    _ => println!("skip\t{}\t{}\tnested-attr {}", self.module, line, a),
                }
            }
            other => println!("skip\t{}\t{}\tascription-of {}", self.module, line, other.name()),
        }
    }

    fn chunk(&mut self, e: &Expr) {
        let line = line_of(e);
        match e {
            Expr::Literal(_) => {}
            Expr::TypeAscription(t) => {
                let subtype = &t.t_spec.op.content[..] != ":";
                self.tasc(t.expr.as_ref(), line, subtype);
            }
            Expr::Def(def) => {
                let id = match &def.sig {
                    Signature::Var(v) => match &v.pat {
                        VarPattern::Ident(id) => Some(id),
                        _ => None,
                    },
                    Signature::Subr(s) => Some(&s.ident),
                };
                let Some(id) = id else {
                    println!("skip\t{}\t{}\tpattern-def", self.module, line);
                    return;
                };
                let n = id.inspect().to_string();
                if !is_public(id) {
                    println!("skip\t{}\t{}\tprivate {}", self.module, line, n);
                    return;
                }
                let body = def.body.block.first();
                match body {
                    // `.Name = 'py_name': T`  (also `.Name = py_name: T`)
                    Some(Expr::TypeAscription(t)) => match t.expr.as_ref() {
                        Expr::Accessor(Accessor::Ident(q)) => {
                            let p = py_of(q.inspect());
                            println!("decl\t{}\t{}\t{}\trenamed\t{}", self.module, n, p, line);
                            self.classes.push((n.clone(), p));
                        }
                        _ => println!("decl\t{}\t{}\t{}\tdef\t{}", self.module, n, py_of(&n), line),
                    },
                    // `.name = pyimport "x"`: a submodule (or re-exported module) reachable as an attribute
                    Some(Expr::Call(call)) if call.additional_operation().map(|op| op.is_import()).unwrap_or(false) => {
                        let arg = call.args.get_left_or_key("Path").map(|a| format!("{}", a)).unwrap_or_default();
                        println!("decl\t{}\t{}\t{}\tsubmodule:{}\t{}", self.module, n, py_of(&n), arg.trim().trim_matches('"'), line);
                    }
                    // `.name = other_name` (alias of an earlier declaration): the Python name is that of the right-hand side
                    Some(Expr::Accessor(Accessor::Ident(r))) => {
                        let p = self.class_py(r.inspect());
                        println!("decl\t{}\t{}\t{}\tdef\t{}", self.module, n, p, line);
                    }
                    _ => println!("decl\t{}\t{}\t{}\tdef\t{}", self.module, n, py_of(&n), line),
                }
            }
            Expr::Compound(c) => {
                for x in c.iter() {
                    self.chunk(x);
                }
            }
            Expr::Dummy(d) => {
                for x in d.iter() {
                    self.chunk(x);
                }
            }
            // `.Class.` / `.Class(T).` followed by an indented body of attribute declarations
            Expr::Methods(m) => {
                let owner = match m.class_as_expr.as_ref() {
                    Expr::Accessor(Accessor::Ident(id)) => Some(id.inspect().to_string()),
                    Expr::Call(call) => match call.obj.as_ref() {
                        Expr::Accessor(Accessor::Ident(id)) => Some(id.inspect().to_string()),
                        _ => None,
                    },
                    _ => None,
                };
                let Some(o) = owner else {
                    println!("skip\t{}\t{}\tmethods-of-complex-type", self.module, line);
                    return;
                };
                for a in m.attrs.iter() {
                    let (id, l) = match a {
                        ClassAttr::Decl(t) => match t.expr.as_ref() {
                            Expr::Accessor(Accessor::Ident(id)) => (Some(id), line_of(t)),
                            _ => (None, line_of(t)),
                        },
                        ClassAttr::Def(d) => match &d.sig {
                            Signature::Var(v) => match &v.pat {
                                VarPattern::Ident(id) => (Some(id), line_of(d)),
                                _ => (None, line_of(d)),
                            },
                            Signature::Subr(sb) => (Some(&sb.ident), line_of(d)),
                        },
                        ClassAttr::Doc(_) => continue,
                    };
                    match id {
                        Some(id) => {
                            let an = id.inspect().to_string();
                            println!("cattr\t{}\t{}\t{}\t{}\t{}\t{}", self.module, o, self.class_py(&o), an, py_of(&an), l)
                        }
                        None => println!("skip\t{}\t{}\tclass-attr-pattern", self.module, l),
                    }
                }
            }
            other => println!("skip\t{}\t{}\t{}", self.module, line, other.name()),
        }
    }
}

fn walk(dir: &Path, out: &mut Vec<PathBuf>) {
    let mut es: Vec<_> = std::fs::read_dir(dir).unwrap().map(|e| e.unwrap().path()).collect();
    es.sort();
    for p in es {
        if p.is_dir() {
            walk(&p, out);
        } else if p.to_string_lossy().ends_with(".d.er") {
            out.push(p);
        }
    }
}

/// `json.d/__init__.d.er` -> `json`, `os.d/path.d.er` -> `os.path`
fn module_name(rel: &Path) -> String {
    let mut parts = vec![];
    for c in rel.components() {
        let s = c.as_os_str().to_string_lossy().to_string();
        let s = s.strip_suffix(".d.er").or_else(|| s.strip_suffix(".d")).unwrap_or(&s).to_string();
        parts.push(s);
    }
    if parts.last().map(|s| s == "__init__").unwrap_or(false) {
        parts.pop();
    }
    parts.join(".")
}

fn dump(root: &Path) {
    let mut files = vec![];
    walk(root, &mut files);
    for f in files {
        let rel = f.strip_prefix(root).unwrap();
        let module = module_name(rel);
        let src = std::fs::read_to_string(&f).unwrap();
        let path = f.clone();
        let res = catch(move || {
            let mut b = ASTBuilder::new(ErgConfig::with_main_path(path));
            match b.build(src) {
                Ok(a) => (a.ast, "ok".to_string()),
                Err(ia) => (ia.ast.unwrap(), format!("errors:{}", Stream::len(&ia.errors))),
            }
        });
        match res {
            Ok((ast, status)) => {
                println!("file\t{}\t{}\t{}", module, rel.display(), status);
                let mut d = Dumper { module, classes: vec![] };
                for e in ast.module.iter() {
                    d.chunk(e);
                }
            }
            Err(e) => println!("file\t{}\t{}\tcrash({})", module, rel.display(), quote(&e)),
        }
    }
}

fn main() {
    quiet_panics();
    let a = parse_args();
    match a.mode.as_str() {
        "dump" => {
            let root = a.rest.first().cloned().unwrap_or_else(|| {
                format!("{}/../../../lib/pystd", env!("CARGO_MANIFEST_DIR"))
            });
            dump(Path::new(&root));
        }
        _ => { eprintln!("usage: c27 dump <pystd dir>"); std::process::exit(2); }
    }
}
