//! C23: the real `OwnershipChecker::check` on programs lowered by the real front end.
//! line: id \t (src "<erg source>") <mini-HIR> \t (errs (move "<name>" <use line> <use col> <moved line>)…) | crash("<panic message>")
use erg_common::traits::Stream;
use erg_compiler::ownercheck::OwnershipChecker;
use erg_harness::minihir::*;
use erg_harness::*;

fn strip_ansi(s: &str) -> String {
    let mut o = String::new();
    let mut it = s.chars().peekable();
    while let Some(c) = it.next() {
        if c == '\x1b' {
            for d in it.by_ref() { if d == 'm' { break; } }
        } else { o.push(c); }
    }
    o
}

fn run_case(id: &str, src: &str) {
    let s = src.to_string();
    let out = catch(std::panic::AssertUnwindSafe(move || -> (String, String) {
        let lo = match lower(&s) {
            Ok(l) => l,
            Err(e) => return (String::new(), e),
        };
        let hir_s = match Proj::new(None).module(&lo.hir.module.iter().cloned().collect::<Vec<_>>()) {
            Ok(h) => h,
            Err(e) => return (String::new(), e),
        };
        let hir = lo.hir.clone();
        let cfg = lo.cfg.clone();
        let r = catch(std::panic::AssertUnwindSafe(move || {
            let mut oc = OwnershipChecker::new(cfg);
            match oc.check(hir) {
                Ok(_) => vec![],
                Err((_, errs)) => errs.iter().map(|e| {
                    let msg = strip_ansi(&e.core.main_message);
                    let (name, line) = match msg.split_once(" was moved in line ") {
                        Some((n, l)) => (n.to_string(), l.trim().to_string()),
                        None => (format!("?{}", msg), "0".to_string()),
                    };
                    format!("(move {} {} {} {})", quote(&name), e.core.loc.ln_begin().unwrap_or(0), e.core.loc.col_begin().unwrap_or(0), line)
                }).collect::<Vec<_>>(),
            }
        }));
        match r {
            Ok(mut v) => { v.sort(); (hir_s, format!("(errs{}{})", if v.is_empty() { "" } else { " " }, v.join(" "))) }
            Err(e) => (hir_s, format!("crash({})", quote(&e))),
        }
    }));
    match out {
        Ok((h, o)) => println!("{}\t(src {}){}{}\t{}", id, quote(src), if h.is_empty() { "" } else { " " }, h, o),
        Err(e) => println!("{}\t(src {})\tcrash({})", id, quote(src), quote(&e)),
    }
}

// ---------------------------------------------------------------------------------------------- generator

struct Gen { rng: Rng, ctr: usize, hist: std::collections::BTreeMap<String, usize> }

impl Gen {
    fn fresh(&mut self, p: &str) -> String { self.ctr += 1; format!("{}{}", p, self.ctr) }
    fn note(&mut self, k: &str) { *self.hist.entry(k.to_string()).or_insert(0) += 1; }

    /// statements of one scope; `vars` = mutable variables visible here (own + outer)
    fn stmts(&mut self, vars: &mut Vec<String>, n: u64, depth: u64) -> Vec<String> {
        let mut l: Vec<String> = vec![];
        for _ in 0..n {
            if vars.is_empty() || self.rng.chance(1, 5) {
                let v = self.fresh("v");
                self.note("stmt:new-mutable");
                l.push(format!("{} = ![1, 2]", v));
                vars.push(v);
                continue;
            }
            let v = self.rng.pick(vars).clone();
            if depth < 2 && self.rng.chance(1, 5) {
                l.extend(self.shadow_scenario(&v));
                continue;
            }
            let c = self.rng.below(if depth < 2 { 26 } else { 21 });
            let (k, lines): (&str, Vec<String>) = match c {
                0 | 1 => ("rebind", vec![format!("{} = {}", self.fresh("w"), v)]),
                2 => ("rebind-block1", vec![format!("{} =", self.fresh("w")), format!("    {}", v)]),
                3 => ("rebind-block2", vec![format!("{} =", self.fresh("w")), "    print! 0".into(), format!("    {}", v)]),
                4 => ("list", vec![format!("{} = [{}]", self.fresh("c"), v)]),
                5 => ("tuple", vec![format!("{} = ({}, 1)", self.fresh("c"), v)]),
                6 => ("dict", vec![format!("{} = {{\"a\": {}}}", self.fresh("c"), v)]),
                7 => ("record", vec![format!("{} = {{a = {}; b = 1}}", self.fresh("c"), v)]),
                8 => ("call-mut-param", vec![format!("take_mut {}", v)]),
                9 => ("call-ref-param", vec![format!("take_ref {}", v)]),
                10 => ("call-imm-param", vec![format!("take_imm {}", v)]),
                11 => ("call-generic-param", vec![format!("gen {}", v)]),
                12 => ("call-kw-mut-param", vec![format!("take_mut(a := {})", v)]),
                13 => ("call-mut-second", vec![format!("take2(1, {})", v)]),
                14 | 15 => ("use-print", vec![format!("print! {}", v)]),
                16 => ("use-method", vec![format!("{}.push! 3", v)]),
                17 => ("use-index", vec![format!("{} = {}[0]", self.fresh("i"), v)]),
                18 => ("use-binop", vec![format!("{} = {} == {}", self.fresh("b"), v, v)]),
                19 => ("call-proc-mut-param", vec![format!("take_mut_p! {}", v)]),
                20 => ("statement-access", vec![v.clone()]),
                21 => ("lambda-mut-param", vec![format!("{} = (a: List!(Int, _)) -> [a]", self.fresh("l"))]),
                22 => ("lambda-capture", vec![format!("{} = () -> {}", self.fresh("l"), v)]),
                23 => {
                    // an inner scope that shadows a (possibly moved) outer name
                    let f = self.fresh("f");
                    ("inner-func-shadow", vec![format!("{}() =", f), format!("    {} = ![3]", v), format!("    {}", v)])
                }
                24 => {
                    let f = self.fresh("f");
                    let mut inner = vars.clone();
                    let n2 = 1 + self.rng.below(3);
                    let mut b = vec![format!("{}() =", f)];
                    b.extend(self.stmts(&mut inner, n2, depth + 1).into_iter().map(|s| format!("    {}", s)));
                    b.push("    0".into());
                    ("inner-func", b)
                }
                _ => {
                    let f = self.fresh("p");
                    let mut inner = vars.clone();
                    let n2 = 1 + self.rng.below(3);
                    let mut b = vec![format!("{}!() =", f)];
                    b.extend(self.stmts(&mut inner, n2, depth + 1).into_iter().map(|s| format!("    {}", s)));
                    b.push("    0".into());
                    ("inner-proc", b)
                }
            };
            self.note(&format!("stmt:{}", k));
            l.extend(lines);
        }
        l
    }

    /// move sequences under shadowing: the name `v` (mutable, alive or already moved in the enclosing scope) is defined again
    /// as a mutable variable in 1..3 nested subroutine scopes; at the innermost level the inner variable is moved and/or used;
    /// afterwards the enclosing `v` is used and/or moved (both orders). Which variable a move marks and which one a later use
    /// resolves to is exactly what `drop` / `check_if_dropped` must agree on.
    fn shadow_scenario(&mut self, v: &str) -> Vec<String> {
        let levels = 1 + self.rng.below(3);
        let shadow_at_every_level = self.rng.chance(1, 2);
        let outer_first = self.rng.chance(1, 3);
        self.note(&format!("stmt:shadow-scenario-depth{}", levels));
        let mut l: Vec<String> = vec![];
        if outer_first {
            // the enclosing variable is moved (or just used) before the inner scopes are entered
            if self.rng.chance(1, 2) { self.note("shadow:outer-moved-first"); l.push(format!("{} = {}", self.fresh("w"), v)); }
            else { self.note("shadow:outer-used-first"); l.push(format!("print! {}", v)); }
        }
        let mut ind = String::new();
        let mut closers: Vec<(String, String)> = vec![];
        for k in 0..levels {
            let f = if self.rng.chance(1, 2) { format!("{}()", self.fresh("f")) } else { format!("{}!()", self.fresh("p")) };
            l.push(format!("{}{} =", ind, f));
            ind.push_str("    ");
            if shadow_at_every_level || k == levels - 1 {
                l.push(format!("{}{} = ![3]", ind, v));
            }
            closers.push((ind.clone(), f));
        }
        // innermost body: move and/or use the inner variable, several orders
        match self.rng.below(5) {
            0 => { self.note("shadow:inner-move-then-use"); l.push(format!("{}{} = {}", ind, self.fresh("w"), v)); l.push(format!("{}print! {}", ind, v)); }
            1 => { self.note("shadow:inner-use-then-move"); l.push(format!("{}print! {}", ind, v)); l.push(format!("{}{} = {}", ind, self.fresh("w"), v)); }
            2 => { self.note("shadow:inner-move-twice"); l.push(format!("{}{} = {}", ind, self.fresh("w"), v)); l.push(format!("{}{} = [{}]", ind, self.fresh("c"), v)); }
            3 => { self.note("shadow:inner-move-by-call"); l.push(format!("{}take_mut {}", ind, v)); l.push(format!("{}print! {}", ind, v)); }
            _ => { self.note("shadow:inner-use-only"); l.push(format!("{}print! {}", ind, v)); }
        }
        // unwind: after each inner scope, the variable of that level may be used / moved
        for (i, (cind, _)) in closers.iter().enumerate().rev() {
            l.push(format!("{}0", cind));
            let outer_ind = &cind[..cind.len() - 4];
            if i > 0 || true {
                match self.rng.below(4) {
                    0 => { self.note("shadow:after-use"); l.push(format!("{}print! {}", outer_ind, v)); }
                    1 => { self.note("shadow:after-move-then-use"); l.push(format!("{}{} = {}", outer_ind, self.fresh("w"), v)); l.push(format!("{}print! {}", outer_ind, v)); }
                    2 => { self.note("shadow:after-move"); l.push(format!("{}{} = {}", outer_ind, self.fresh("w"), v)); }
                    _ => {}
                }
            }
        }
        l
    }

    fn program(&mut self) -> String {
        let mut lines: Vec<String> = vec![
            "take_mut(a: List!(Int, _)) = 0".into(),
            "take_ref(a: Ref(List!(Int, _))) = 0".into(),
            "take_imm(a: List(Int, _)) = 0".into(),
            "gen a = 0".into(),
            "take2(n: Int, a: List!(Int, _)) = n".into(),
            "take_mut_p!(a: List!(Int, _)) =".into(), "    print! a".into(), "    0".into(),
        ];
        let mut vars = vec![];
        let n = 3 + self.rng.below(8);
        lines.extend(self.stmts(&mut vars, n, 0));
        lines.join("\n") + "\n"
    }
}

fn main() {
    quiet_panics();
    let a = parse_args();
    match a.mode.as_str() {
        "gen" => {
            let mut g = Gen { rng: Rng::new(a.seed), ctr: 0, hist: Default::default() };
            for i in 0..a.n {
                g.ctr = 0;
                let src = g.program();
                run_case(&format!("g{}", i), &src);
            }
            for (k, v) in g.hist.iter() { eprintln!("cov\t{}\t{}", k, v); }
        }
        "replay" => {
            for (id, input) in stdin_cases() {
                match src_of_input(&input) { Some(s) => run_case(&id, &s), None => println!("{}\t{}\tbad-input", id, input) }
            }
        }
        "file" => {
            let src = std::fs::read_to_string(&a.rest[0]).unwrap();
            run_case("f0", &src);
        }
        _ => { eprintln!("usage: c23 gen|replay|file"); std::process::exit(2); }
    }
}
