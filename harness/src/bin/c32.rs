//! C32: builds predicate trees bottom-up through the real `Predicate::{and, or, invert, gt, lt, ge, le, eq, ne}`
//! and prints the resulting structure canonically (`Or` members sorted).
//! line: id \t <construction expression> \t <printed Predicate>
use erg_harness::*;
#[path = "../predx.rs"]
mod predx;
use predx::*;

fn run_case(id: &str, e: &PExpr) {
    let ee = e.clone();
    let out = match catch(move || match ee.build() {
        Some(p) => show(&p),
        None => "out-of-model(constant)".to_string(),
    }) {
        Ok(s) => s,
        Err(m) => format!("crash({})", quote(&m)),
    };
    println!("{}\t{}\t{}", id, e.to_sexp(), out);
}

fn main() {
    quiet_panics();
    let a = parse_args();
    match a.mode.as_str() {
        "gen" => {
            let mut rng = Rng::new(a.seed);
            let small: Vec<i128> = (-3..=3).collect();
            let wide: Vec<i128> = vec![
                -2147483648, -2147483647, -4, -3, -2, -1, 0, 1, 2, 3, 4, 2147483647, 2147483648, 4294967296,
                9007199254740992, 9007199254740993, 9223372036854775807, 9223372036854775808, 18446744073709551615,
            ];
            let mut id = 0usize;
            // exhaustive stream: every binary/unary combination of atoms over {-1,0,1} and of depth-1 trees over them
            let atoms = |cs: &[i128]| -> Vec<PExpr> {
                let mut v = vec![PExpr::Val(true), PExpr::Val(false)];
                for &c in cs {
                    v.extend([PExpr::Eq(c), PExpr::Ge(c), PExpr::Le(c), PExpr::Ne(c), PExpr::Gt(c), PExpr::Lt(c)]);
                }
                v
            };
            let at = atoms(&[0, 1]);
            for x in &at {
                run_case(&format!("x{}", id), &PExpr::Not(Box::new(x.clone())));
                id += 1;
                for y in &at {
                    run_case(&format!("x{}", id), &PExpr::And(Box::new(x.clone()), Box::new(y.clone())));
                    id += 1;
                    run_case(&format!("x{}", id), &PExpr::Or(Box::new(x.clone()), Box::new(y.clone())));
                    id += 1;
                }
            }
            if a.tier == "thorough" {
                // depth 2 over one constant: (x op y) op z and not (x op y)
                let at1 = atoms(&[0]);
                let mk = |k: usize, l: &PExpr, r: &PExpr| -> PExpr {
                    if k == 0 { PExpr::And(Box::new(l.clone()), Box::new(r.clone())) } else { PExpr::Or(Box::new(l.clone()), Box::new(r.clone())) }
                };
                for x in &at1 {
                    for y in &at1 {
                        for k in 0..2 {
                            let xy = mk(k, x, y);
                            run_case(&format!("x{}", id), &PExpr::Not(Box::new(xy.clone())));
                            id += 1;
                            for z in &at1 {
                                for k2 in 0..2 {
                                    run_case(&format!("x{}", id), &mk(k2, &xy, z));
                                    id += 1;
                                    run_case(&format!("x{}", id), &mk(k2, z, &xy));
                                    id += 1;
                                }
                            }
                        }
                    }
                }
            }
            for i in 0..a.n {
                let wide_case = i % 8 == 7;
                let g = GenCfg { consts: if wide_case { &wide } else { &small }, raw16: if i % 5 == 4 { 3 } else { 0 }, val16: 1 };
                let depth = 1 + (rng.below(4) as usize);
                let e = gen(&mut rng, depth, &g);
                run_case(&format!("g{}", i), &e);
            }
        }
        "replay" => {
            for (id, input) in stdin_cases() {
                match parse(&input) {
                    Some(e) => run_case(&id, &e),
                    None => println!("{}\t{}\tbad-input", id, input),
                }
            }
        }
        _ => {
            eprintln!("usage: c32 gen|replay");
            std::process::exit(2);
        }
    }
}
