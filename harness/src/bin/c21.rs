//! C21: operation histories over `erg_compiler::module::graph::ModuleGraph` (public API only, no hooks).
//!
//! line: id \t (ops (add m0) (inc m0 m1) (remove m2) (rename m1 m3) (sort)) \t <one S-expression per step>
//! step: (s <res> (st <node>…) (gn <g0>…<g5>) (dep <36 bits>) (deep <36 bits>) (ch <l0>…<l5>) (par <p0>…<p5>) (anc <a0>…<a5>))
//!   <res>  add/remove/rename: unit; inc_ref: ok | err:cycle; sort: sorted | err:CyclicReference | err:KeyNotFound
//!   (st …) one `(id dep…)` per node in vector order (`iter()`), deps in the hash set's ITERATION order (unsorted)
//!   (gn …) per path m0..m5: `-` or `(id d…)` (id of the node get_node returned, deps sorted)
//!   (dep …)/(deep …) 36 chars, index p*6+t: depends_on(mp, mt) / deep_depends_on(mp, mt)
//!   (ch …) children sorted; (par …) `-` or parents sorted; (anc …) ancestors sorted
//!   a panic in the operation or in any query of a step: `(s crash)` and the history stops.
//! Universe: /verif-nonexistent/m0.er … m5.er (no such files: is_dir() is false).
//! stderr: one line of JSON, the histogram of operation kinds / results of the run (`--stats-file F`: also into F;
//! `--stats-only`: no rows on stdout).
use erg_common::pathutil::NormalizedPathBuf;
use erg_common::tsort::TopoSortErrorKind;
use erg_compiler::module::graph::ModuleGraph;
use erg_harness::*;
use std::io::Write as _;
use std::panic::{catch_unwind, AssertUnwindSafe};
use std::path::PathBuf;

const NP: usize = 6;

#[derive(Clone, Copy, Debug)]
enum Op {
    Add(usize),
    Inc(usize, usize),
    Remove(usize),
    Rename(usize, usize),
    Sort,
}

struct Universe {
    paths: Vec<NormalizedPathBuf>,
}

impl Universe {
    fn new() -> Self {
        let paths = (0..NP)
            .map(|i| NormalizedPathBuf::new(PathBuf::from(format!("/verif-nonexistent/m{}.er", i))))
            .collect();
        Universe { paths }
    }
    fn name(&self, p: &NormalizedPathBuf) -> String {
        match self.paths.iter().position(|q| q == p) {
            Some(i) => format!("m{}", i),
            None => "?".to_string(),
        }
    }
    fn num(&self, p: &NormalizedPathBuf) -> usize {
        self.paths.iter().position(|q| q == p).unwrap_or(usize::MAX)
    }
    /// names of a collection of paths, sorted ascending by number
    fn sorted_names<'a>(&self, it: impl Iterator<Item = &'a NormalizedPathBuf>) -> Vec<String> {
        let mut v: Vec<usize> = it.map(|p| self.num(p)).collect();
        v.sort();
        v.into_iter().map(|i| if i < NP { format!("m{}", i) } else { "?".to_string() }).collect()
    }
}

fn plist(items: &[String]) -> String {
    format!("({})", items.join(" "))
}

#[derive(Default)]
struct Stats {
    histories: u64,
    steps: u64,
    add: u64,
    add_new: u64,
    inc: u64,
    inc_ok: u64,
    inc_self: u64,
    inc_refused: u64,
    inc_dangling_target: u64,
    remove: u64,
    remove_registered: u64,
    rename: u64,
    rename_self: u64,
    rename_old_registered: u64,
    rename_onto_registered: u64,
    sort: u64,
    sort_sorted: u64,
    sort_cyclic: u64,
    sort_keynotfound: u64,
    crash: u64,
    len_1_10: u64,
    len_11_20: u64,
    len_21_30: u64,
    len_31_40: u64,
    universe: [u64; NP + 1],
}

impl Stats {
    fn json(&self) -> String {
        let u: Vec<String> = (2..=NP).map(|i| format!("\"{}\": {}", i, self.universe[i])).collect();
        format!(
            "{{\"histories\": {}, \"steps\": {}, \"add\": {}, \"add_new\": {}, \"inc\": {}, \"inc_ok\": {}, \"inc_self\": {}, \
             \"inc_refused\": {}, \"inc_dangling_target\": {}, \"remove\": {}, \"remove_registered\": {}, \"rename\": {}, \
             \"rename_self\": {}, \"rename_old_registered\": {}, \"rename_onto_registered\": {}, \"sort\": {}, \
             \"sort_sorted\": {}, \"sort_cyclic\": {}, \"sort_keynotfound\": {}, \"crash\": {}, \
             \"len_1_10\": {}, \"len_11_20\": {}, \"len_21_30\": {}, \"len_31_40\": {}, \"universe_size\": {{{}}}}}",
            self.histories, self.steps, self.add, self.add_new, self.inc, self.inc_ok, self.inc_self, self.inc_refused,
            self.inc_dangling_target, self.remove, self.remove_registered, self.rename, self.rename_self,
            self.rename_old_registered, self.rename_onto_registered, self.sort, self.sort_sorted, self.sort_cyclic,
            self.sort_keynotfound, self.crash, self.len_1_10, self.len_11_20, self.len_21_30, self.len_31_40, u.join(", ")
        )
    }
}

/// what the statistics want to know about a step (never used for the output column)
#[derive(Default, Clone, Copy)]
struct Flags {
    was_node_a: bool,
    was_node_b: bool,
}

/// apply one operation and dump every query; panics propagate to the caller's catch_unwind
fn do_step(u: &Universe, g: &mut ModuleGraph, op: Op) -> (String, &'static str, Flags) {
    let mut fl = Flags::default();
    let res: &'static str = match op {
        Op::Add(p) => {
            fl.was_node_a = g.get_node(&u.paths[p]).is_some();
            g.add_node_if_none(&u.paths[p]);
            "unit"
        }
        Op::Inc(a, b) => {
            fl.was_node_a = g.get_node(&u.paths[a]).is_some();
            fl.was_node_b = g.get_node(&u.paths[b]).is_some();
            match g.inc_ref(&u.paths[a], u.paths[b].clone()) {
                Ok(()) => "ok",
                Err(e) => {
                    if e.is_cycle_detected() {
                        "err:cycle"
                    } else {
                        "err:?"
                    }
                }
            }
        }
        Op::Remove(p) => {
            fl.was_node_a = g.get_node(&u.paths[p]).is_some();
            g.remove(&u.paths[p]);
            "unit"
        }
        Op::Rename(o, n) => {
            fl.was_node_a = g.get_node(&u.paths[o]).is_some();
            fl.was_node_b = g.get_node(&u.paths[n]).is_some();
            g.rename_path(&u.paths[o], u.paths[n].clone());
            "unit"
        }
        Op::Sort => match g.sort() {
            Ok(()) => "sorted",
            Err(e) => match e.kind {
                TopoSortErrorKind::CyclicReference => "err:CyclicReference",
                TopoSortErrorKind::KeyNotFound => "err:KeyNotFound",
            },
        },
    };
    let mut o = String::with_capacity(512);
    o.push_str("(s ");
    o.push_str(res);
    // (st …): vector order, hash-set iteration order
    o.push_str(" (st");
    for n in g.iter() {
        o.push_str(" (");
        o.push_str(&u.name(&n.id));
        for d in n.depends_on.iter() {
            o.push(' ');
            o.push_str(&u.name(d));
        }
        o.push(')');
    }
    o.push(')');
    // (gn …)
    o.push_str(" (gn");
    for p in u.paths.iter() {
        match g.get_node(p) {
            None => o.push_str(" -"),
            Some(n) => {
                let mut items = vec![u.name(&n.id)];
                items.extend(u.sorted_names(n.depends_on.iter()));
                o.push(' ');
                o.push_str(&plist(&items));
            }
        }
    }
    o.push(')');
    // (dep …) (deep …)
    o.push_str(" (dep ");
    for p in u.paths.iter() {
        for t in u.paths.iter() {
            o.push(if g.depends_on(p, t) { '1' } else { '0' });
        }
    }
    o.push_str(") (deep ");
    for p in u.paths.iter() {
        for t in u.paths.iter() {
            o.push(if g.deep_depends_on(p, t) { '1' } else { '0' });
        }
    }
    o.push(')');
    // (ch …)
    o.push_str(" (ch");
    for p in u.paths.iter() {
        let ch: Vec<NormalizedPathBuf> = g.children(p).collect();
        o.push(' ');
        o.push_str(&plist(&u.sorted_names(ch.iter())));
    }
    o.push(')');
    // (par …)
    o.push_str(" (par");
    for p in u.paths.iter() {
        match g.parents(p) {
            None => o.push_str(" -"),
            Some(ps) => {
                o.push(' ');
                o.push_str(&plist(&u.sorted_names(ps.iter())));
            }
        }
    }
    o.push(')');
    // (anc …)
    o.push_str(" (anc");
    for p in u.paths.iter() {
        let an = g.ancestors(p);
        o.push(' ');
        o.push_str(&plist(&u.sorted_names(an.iter().copied())));
    }
    o.push_str("))");
    (o, res, fl)
}

fn op_text(op: Op) -> String {
    match op {
        Op::Add(p) => format!("(add m{})", p),
        Op::Inc(a, b) => format!("(inc m{} m{})", a, b),
        Op::Remove(p) => format!("(remove m{})", p),
        Op::Rename(o, n) => format!("(rename m{} m{})", o, n),
        Op::Sort => "(sort)".to_string(),
    }
}

fn ops_text(ops: &[Op]) -> String {
    let mut s = String::from("(ops");
    for op in ops {
        s.push(' ');
        s.push_str(&op_text(*op));
    }
    s.push(')');
    s
}

fn run_history(u: &Universe, ops: &[Op], st: &mut Stats) -> String {
    st.histories += 1;
    match ops.len() {
        0..=10 => st.len_1_10 += 1,
        11..=20 => st.len_11_20 += 1,
        21..=30 => st.len_21_30 += 1,
        _ => st.len_31_40 += 1,
    }
    let mut g = ModuleGraph::new();
    let mut out: Vec<String> = Vec::with_capacity(ops.len());
    for &op in ops {
        st.steps += 1;
        let r = catch_unwind(AssertUnwindSafe(|| do_step(u, &mut g, op)));
        match r {
            Err(_) => {
                st.crash += 1;
                out.push("(s crash)".to_string());
                break;
            }
            Ok((s, res, fl)) => {
                match op {
                    Op::Add(_) => {
                        st.add += 1;
                        if !fl.was_node_a { st.add_new += 1; }
                    }
                    Op::Inc(a, b) => {
                        st.inc += 1;
                        if a == b { st.inc_self += 1; }
                        if res == "ok" { st.inc_ok += 1; } else { st.inc_refused += 1; }
                        if !fl.was_node_b && a != b { st.inc_dangling_target += 1; }
                    }
                    Op::Remove(_) => {
                        st.remove += 1;
                        if fl.was_node_a { st.remove_registered += 1; }
                    }
                    Op::Rename(o, n) => {
                        st.rename += 1;
                        if o == n { st.rename_self += 1; }
                        if fl.was_node_a { st.rename_old_registered += 1; }
                        if fl.was_node_b && o != n { st.rename_onto_registered += 1; }
                    }
                    Op::Sort => {
                        st.sort += 1;
                        match res {
                            "sorted" => st.sort_sorted += 1,
                            "err:CyclicReference" => st.sort_cyclic += 1,
                            _ => st.sort_keynotfound += 1,
                        }
                    }
                }
                out.push(s);
            }
        }
    }
    out.join(" ")
}

// ------------------------------------------------------------------------------------------- generator

fn pick_from(rng: &mut Rng, xs: &[usize], u: usize) -> usize {
    if xs.is_empty() { rng.below(u as u64) as usize } else { *rng.pick(xs) }
}

fn gen_history(rng: &mut Rng, st: &mut Stats) -> Vec<Op> {
    let len = rng.range(1, 40) as usize;
    let u = rng.range(2, NP as i64) as usize;
    st.universe[u] += 1;
    // shadow of the registered ids: used for biasing the choices only
    let mut reg: Vec<usize> = vec![];
    let mut ops = Vec::with_capacity(len);
    for _ in 0..len {
        let w = rng.below(100);
        let op = if w < 18 {
            Op::Add(rng.below(u as u64) as usize)
        } else if w < 60 {
            // half of the inc_refs between registered ids (chains, cycle refusals); otherwise anywhere in the universe, so the
            // target is sometimes unregistered (dangling edge); one re-draw of an equal target keeps inc_ref(a, a) rare
            let biased = rng.chance(1, 2) && !reg.is_empty();
            let a = if biased { *rng.pick(&reg) } else { rng.below(u as u64) as usize };
            let mut b = if biased { *rng.pick(&reg) } else { rng.below(u as u64) as usize };
            if b == a { b = if biased || rng.chance(1, 2) { pick_from(rng, &reg, u) } else { rng.below(u as u64) as usize }; }
            Op::Inc(a, b)
        } else if w < 72 {
            if rng.chance(7, 10) { Op::Remove(pick_from(rng, &reg, u)) } else { Op::Remove(rng.below(u as u64) as usize) }
        } else if w < 84 {
            let k = rng.below(4);
            if k < 2 {
                // onto an unused path
                let o = if rng.chance(4, 5) { pick_from(rng, &reg, u) } else { rng.below(u as u64) as usize };
                let unused: Vec<usize> = (0..u).filter(|i| !reg.contains(i)).collect();
                let n = pick_from(rng, &unused, u);
                Op::Rename(o, n)
            } else if k == 2 {
                // onto a registered path
                let o = if rng.chance(4, 5) { pick_from(rng, &reg, u) } else { rng.below(u as u64) as usize };
                let n = pick_from(rng, &reg, u);
                Op::Rename(o, n)
            } else {
                Op::Rename(rng.below(u as u64) as usize, rng.below(u as u64) as usize)
            }
        } else {
            Op::Sort
        };
        match op {
            Op::Add(p) => { if !reg.contains(&p) { reg.push(p); } }
            Op::Inc(a, _) => { if !reg.contains(&a) { reg.push(a); } }
            Op::Remove(p) => reg.retain(|x| *x != p),
            Op::Rename(o, n) => {
                if o != n && reg.contains(&o) {
                    reg.retain(|x| *x != n);
                    for x in reg.iter_mut() { if *x == o { *x = n; } }
                }
            }
            Op::Sort => {}
        }
        ops.push(op);
    }
    ops
}

// ------------------------------------------------------------------------------------------- replay input

fn parse_path(t: &str) -> Option<usize> {
    let d = t.strip_prefix('m')?;
    let i: usize = d.parse().ok()?;
    if i < NP { Some(i) } else { None }
}

fn parse_ops(input: &str) -> Option<Vec<Op>> {
    let flat: String = input.chars().map(|c| if c == '(' || c == ')' { ' ' } else { c }).collect();
    let toks: Vec<&str> = flat.split_whitespace().collect();
    if toks.first() != Some(&"ops") { return None; }
    let mut ops = vec![];
    let mut i = 1;
    while i < toks.len() {
        match toks[i] {
            "add" => { ops.push(Op::Add(parse_path(toks.get(i + 1)?)?)); i += 2; }
            "remove" => { ops.push(Op::Remove(parse_path(toks.get(i + 1)?)?)); i += 2; }
            "inc" => { ops.push(Op::Inc(parse_path(toks.get(i + 1)?)?, parse_path(toks.get(i + 2)?)?)); i += 3; }
            "rename" => { ops.push(Op::Rename(parse_path(toks.get(i + 1)?)?, parse_path(toks.get(i + 2)?)?)); i += 3; }
            "sort" => { ops.push(Op::Sort); i += 1; }
            _ => return None,
        }
    }
    Some(ops)
}

fn main() {
    quiet_panics();
    let a = parse_args();
    let stats_only = a.rest.iter().any(|x| x == "--stats-only");
    let u = Universe::new();
    let mut st = Stats::default();
    let stdout = std::io::stdout();
    let mut w = std::io::BufWriter::with_capacity(1 << 20, stdout.lock());
    match a.mode.as_str() {
        "gen" => {
            // `Rng::new(s)` and `Rng::new(s + 1)` are the same splitmix stream shifted by one draw; the generator state is
            // therefore the first OUTPUT of `Rng::new(seed)`, so that neighbouring seeds give unrelated histories
            let mut rng = Rng(Rng::new(a.seed).next());
            for i in 0..a.n {
                let ops = gen_history(&mut rng, &mut st);
                let out = run_history(&u, &ops, &mut st);
                if !stats_only {
                    writeln!(w, "g{}\t{}\t{}", i, ops_text(&ops), out).unwrap();
                }
            }
        }
        "replay" => {
            for (id, input) in stdin_cases() {
                match parse_ops(&input) {
                    Some(ops) => {
                        let out = run_history(&u, &ops, &mut st);
                        writeln!(w, "{}\t{}\t{}", id, input, out).unwrap();
                    }
                    None => writeln!(w, "{}\t{}\tbad-input", id, input).unwrap(),
                }
            }
        }
        _ => {
            eprintln!("usage: c21 gen --seed S --n N [--tier T] [--stats-only] | replay");
            std::process::exit(2);
        }
    }
    w.flush().unwrap();
    eprintln!("{}", st.json());
    // `--stats-file F`: the same histogram into a file (the orchestrator's standard run does not keep stderr)
    if let Some(i) = a.rest.iter().position(|x| x == "--stats-file") {
        if let Some(f) = a.rest.get(i + 1) {
            let _ = std::fs::write(f, st.json());
        }
    }
}
