//! C16: table dumps of the opcode enums, jump classification and magic-number functions of the working tree (T-gen).
//!
//!   c16 dump                 static tables, one TAB-separated row per line:
//!        op <enum> <byte> <variant>           `<enum>::try_from(byte)` succeeded ({:?} name), byte in 0..=255
//!        isjump <byte>                        `CommonOpcode::is_jump_op(byte)` is true
//!        arm <minor> <byte> <kind>            `jump_abs_addr(minor, byte, idx, arg)` returned (no panic); kind = which formula
//!        vermagic <m> <major> <minor>         `get_ver_from_magic_num(m)` returned (no panic), m in 3000..3700
//!        magicbytes <m> <b0> <b1> <b2> <b3> <back>   `get_magic_num_bytes(m)`, `get_magic_num_from_bytes` of it
//!   c16 written <minor> <magic> <file.er>...  (second stage) compiles each file for the target and prints the
//!        (enum, byte) pairs passed to `write_instr`, see below.
use erg_common::opcode::CommonOpcode;
use erg_common::opcode308::Opcode308;
use erg_common::opcode309::Opcode309;
use erg_common::opcode310::Opcode310;
use erg_common::opcode311::Opcode311;
use erg_common::serialize::{get_magic_num_bytes, get_magic_num_from_bytes, get_ver_from_magic_num};
use erg_compiler::ty::codeobj::jump_abs_addr;
use erg_common::config::ErgConfig;
use erg_common::python_util::PythonVersion;
use erg_compiler::Compiler;
use erg_harness::*;
use std::collections::BTreeMap;
use std::sync::Mutex;

fn dump_enum<T: TryFrom<u8> + std::fmt::Debug>(name: &str) {
    for b in 0..=255u8 {
        if let Ok(v) = T::try_from(b) {
            println!("op\t{}\t{}\t{:?}", name, b, v);
        }
    }
}

/// which address formula does `jump_abs_addr(minor, op, ·, ·)` compute? (probed at two points)
fn arm_kind(minor: u8, op: u8) -> Option<String> {
    let probes: [(usize, usize); 3] = [(1000, 10), (2000, 7), (500, 33)];
    let mut rs = vec![];
    for (idx, arg) in probes {
        match catch(move || jump_abs_addr(minor, op, idx, arg)) {
            Ok(r) => rs.push(r as i64),
            Err(_) => return None,
        }
    }
    let forms: [(&str, fn(i64, i64) -> i64); 5] = [
        ("rel1", |i, a| i + a + 2),
        ("abs1", |_, a| a),
        ("rel2", |i, a| i + 2 * a + 2),
        ("abs2", |_, a| 2 * a),
        ("back2", |i, a| i - 2 * a + 2),
    ];
    for (n, f) in forms {
        if probes.iter().zip(rs.iter()).all(|((i, a), r)| f(*i as i64, *a as i64) == *r) {
            return Some(n.to_string());
        }
    }
    Some(format!("other:{:?}", rs))
}

fn dump() {
    dump_enum::<CommonOpcode>("CommonOpcode");
    dump_enum::<Opcode308>("Opcode308");
    dump_enum::<Opcode309>("Opcode309");
    dump_enum::<Opcode310>("Opcode310");
    dump_enum::<Opcode311>("Opcode311");
    for b in 0..=255u8 {
        if CommonOpcode::is_jump_op(b) {
            println!("isjump\t{}", b);
        }
    }
    for minor in 7..=11u8 {
        for b in 0..=255u8 {
            if let Some(k) = arm_kind(minor, b) {
                println!("arm\t{}\t{}\t{}", minor, b, k);
            }
        }
    }
    for m in 3000..3700u32 {
        if let Ok(v) = catch(move || get_ver_from_magic_num(m)) {
            println!("vermagic\t{}\t{}\t{}", m, v.major, v.minor.map(|x| x as i32).unwrap_or(-1));
        }
        let bs = get_magic_num_bytes(m);
        println!("magicbytes\t{}\t{}\t{}\t{}\t{}\t{}", m, bs[0], bs[1], bs[2], bs[3], get_magic_num_from_bytes(&bs));
    }
}

// ---------------------------------------------------------------------------------------------- written

static LOG: Mutex<BTreeMap<(u8, String, u8), (u64, String)>> = Mutex::new(BTreeMap::new());
static CURRENT: Mutex<String> = Mutex::new(String::new());

fn sink(ty: &'static str, byte: u8, minor: u8) {
    let short = ty.rsplit("::").next().unwrap_or(ty).to_string();
    let cur = CURRENT.lock().unwrap_or_else(|e| e.into_inner()).clone();
    LOG.lock().unwrap_or_else(|e| e.into_inner()).entry((minor, short, byte)).or_insert((0, cur)).0 += 1;
}

fn variant_name(enum_name: &str, b: u8) -> String {
    fn n<T: TryFrom<u8> + std::fmt::Debug>(b: u8) -> String {
        T::try_from(b).map(|v| format!("{:?}", v)).unwrap_or_else(|_| "?".to_string())
    }
    match enum_name {
        "CommonOpcode" => n::<CommonOpcode>(b),
        "Opcode308" => n::<Opcode308>(b),
        "Opcode309" => n::<Opcode309>(b),
        "Opcode310" => n::<Opcode310>(b),
        "Opcode311" => n::<Opcode311>(b),
        _ => "?".to_string(),
    }
}

/// `c16 written <minor>:<magic>[,<minor>:<magic>...] <file.er>...`: compiles every file for every target in-process (the real
/// `Compiler`, code generator instrumented through `verif_instr_log`) and prints
///    file <minor> <path> <ok|rejected|crash(..)>
///    w <minor> <enum> <byte> <variant> <count> <first file that wrote it>
fn written(rest: &[String]) {
    let targets: Vec<(u8, u32)> = rest[0]
        .split(',')
        .map(|t| {
            let (a, b) = t.split_once(':').expect("minor:magic");
            (a.parse().unwrap(), b.parse().unwrap())
        })
        .collect();
    erg_compiler::verif_hooks::verif_instr_log::set_sink(Some(sink));
    for (minor, magic) in targets {
        for f in &rest[1..] {
            let path = std::path::PathBuf::from(f);
            *CURRENT.lock().unwrap_or_else(|e| e.into_inner()) = f.clone();
            let res = catch(move || {
                let mut cfg = ErgConfig::with_main_path(path);
                cfg.target_version = Some(PythonVersion::new(3, Some(minor), Some(0)));
                cfg.py_magic_num = Some(magic);
                cfg.quiet_repl = true;
                let mut compiler = Compiler::new(cfg);
                match compiler.compile_module() {
                    Ok(_) => "ok".to_string(),
                    Err(_) => "rejected".to_string(),
                }
            });
            let status = match res {
                Ok(s) => s,
                Err(e) => format!("crash({})", quote(&e.chars().take(120).collect::<String>())),
            };
            println!("file\t{}\t{}\t{}", minor, f, status);
        }
    }
    let log = LOG.lock().unwrap_or_else(|e| e.into_inner());
    for ((minor, en, b), (c, first)) in log.iter() {
        println!("w\t{}\t{}\t{}\t{}\t{}\t{}", minor, en, b, variant_name(en, *b), c, first);
    }
}

fn main() {
    quiet_panics();
    let a = parse_args();
    match a.mode.as_str() {
        "dump" => dump(),
        "written" => written(&a.rest),
        // c16 pyc <minor>:<magic> <file.er> <out.pyc>: compile one program for one target and dump the .pyc (known-finding replay)
        "pyc" => {
            let (mi, ma) = a.rest[0].split_once(':').expect("minor:magic");
            let (minor, magic): (u8, u32) = (mi.parse().unwrap(), ma.parse().unwrap());
            let mut cfg = ErgConfig::with_main_path(std::path::PathBuf::from(&a.rest[1]));
            cfg.target_version = Some(PythonVersion::new(3, Some(minor), Some(0)));
            cfg.py_magic_num = Some(magic);
            let src = cfg.input.read();
            let mut compiler = Compiler::new(cfg);
            match compiler.compile_and_dump_as_pyc(&a.rest[2], src, "exec") {
                Ok(_) => println!("ok"),
                Err(_) => println!("rejected"),
            }
        }
        _ => { eprintln!("usage: c16 dump | c16 written <minor:magic,...> <files>"); std::process::exit(2); }
    }
}
