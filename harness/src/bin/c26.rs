//! C26: declared result classes of the builtin operators, dumped from the real checker.
//!
//!   c26 dump [--single [--stride K]]   (--single: one compilation per row, every K-th row; validates the batched dump)
//!   c26 dump            one line per (op, A, B):  `bin \t <op> \t <A> \t <B> \t <result type | ->`
//!                       and per (unary op, A):     `un  \t <op> \t <A> \t - \t <result type | ->`
//!   c26 ty <src>        lower one source text; prints the type of the module-level binding `z` (debugging aid)
//!
//! Each row lowers the program `f(x: A, y: B) = x <op> y` in-process with `HIRBuilder` (fresh builder per row:
//! the builtin module context is the one every compilation starts from) and prints the return type the checker
//! assigned to `f`; `-` when the checker rejects the program (the operator is not declared for these operand classes).
use erg_common::config::ErgConfig;
use erg_common::io::Input;
use erg_common::traits::Locational;
use erg_compiler::HIRBuilder;
use erg_harness::*;

pub const BINOPS: [(&str, &str); 13] = [
    ("add", "+"), ("sub", "-"), ("mul", "*"), ("truediv", "/"), ("floordiv", "//"), ("mod", "%"), ("pow", "**"),
    ("eq", "=="), ("ne", "!="), ("lt", "<"), ("le", "<="), ("gt", ">"), ("ge", ">="),
];
pub const UNOPS: [(&str, &str); 2] = [("neg", "-"), ("pos", "+")];
pub const CLASSES: [&str; 10] = ["Nat", "Int", "Bool", "Float", "Str", "Nat!", "Int!", "Bool!", "Float!", "Str!"];

/// Lower one program holding one definition per line (`f<i>(…) = …`); returns per definition the return type the
/// checker assigned, or None when an error was reported on that line (or the name got no usable type).
fn lower_many(defs: &[String]) -> Vec<Option<String>> {
    let src: String = defs.iter().map(|d| format!("{}\n", d)).collect();
    let cfg = ErgConfig { input: Input::str(src.clone()), ..ErgConfig::default() };
    let mut b = HIRBuilder::new(cfg);
    let mut bad = std::collections::HashSet::new();
    let mut whole_bad = false;
    match b.build(src, "exec") {
        Ok(_) => {}
        Err(e) => {
            for er in e.errors.iter() {
                match er.core.loc.ln_begin() {
                    Some(l) => { bad.insert(l as usize); }
                    None => { whole_bad = true; }
                }
            }
        }
    }
    let mut out = vec![];
    for i in 0..defs.len() {
        if whole_bad || bad.contains(&(i + 1)) { out.push(None); continue; }
        let name = format!("f{}", i);
        match b.get_var_info(&name) {
            Some((_, vi)) => {
                let t = vi.t.clone();
                let r = match t.return_t() { Some(r) => format!("{}", r), None => format!("?{}", t) };
                if r.contains("Failure") || r.contains('?') { out.push(None) } else { out.push(Some(r)) }
            }
            None => out.push(None),
        }
    }
    out
}

fn dump(single: bool, stride: usize) {
    let mut rows: Vec<(String, String)> = vec![];
    for (opn, sym) in BINOPS.iter() {
        for a in CLASSES.iter() {
            for b in CLASSES.iter() {
                rows.push((format!("bin\t{}\t{}\t{}", opn, a, b), format!("(x: {}, y: {}) = x {} y", a, b, sym)));
            }
        }
    }
    for (opn, sym) in UNOPS.iter() {
        for a in CLASSES.iter() {
            rows.push((format!("un\t{}\t{}\t-", opn, a), format!("(x: {}) = {}x", a, sym)));
        }
    }
    if single {
        // one compilation per row (slow; used by the thorough tier to validate the batched dump)
        for (n, (key, body)) in rows.iter().enumerate() {
            if n % stride != 0 { continue; }
            let d = vec![format!("f0{}", body)];
            let r = catch(move || lower_many(&d)).unwrap_or_else(|_| vec![None]);
            println!("{}\t{}", key, r[0].clone().unwrap_or_else(|| "-".into()));
        }
        return;
    }
    // batched: all rows of one operator in one program, one definition per line
    let per = CLASSES.len() * CLASSES.len();
    let mut i = 0;
    while i < rows.len() {
        let j = (i + per).min(rows.len());
        let defs: Vec<String> = rows[i..j].iter().enumerate().map(|(k, (_, body))| format!("f{}{}", k, body)).collect();
        let n = defs.len();
        let res = catch(move || lower_many(&defs)).unwrap_or_else(|_| vec![None; n]);
        for (k, (key, _)) in rows[i..j].iter().enumerate() {
            println!("{}\t{}", key, res[k].clone().unwrap_or_else(|| "-".into()));
        }
        i = j;
    }
}

fn main() {
    quiet_panics();
    let a = parse_args();
    match a.mode.as_str() {
        "dump" => {
            let stride = a.rest.iter().position(|x| x == "--stride").and_then(|i| a.rest.get(i + 1)).and_then(|v| v.parse().ok()).unwrap_or(1);
            dump(a.rest.iter().any(|x| x == "--single"), stride)
        }
        "ty" => {
            let src = a.rest.get(0).cloned().unwrap_or_default().replace("\\n", "\n");
            let cfg = ErgConfig { input: Input::str(src.clone()), ..ErgConfig::default() };
            let mut b = HIRBuilder::new(cfg);
            match b.build(src, "exec") {
                Ok(_) => {
                    for n in ["z", "f"] {
                        if let Some((_, vi)) = b.get_var_info(n) { println!("{}: {}", n, vi.t); }
                    }
                }
                Err(e) => { println!("rejected: {}", e.errors.len()); for er in e.errors.iter() { println!("{}", er.core.main_message); } }
            }
        }
        _ => { eprintln!("usage: c26 dump | ty <src>"); std::process::exit(2); }
    }
}
