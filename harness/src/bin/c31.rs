//! C31: NormalizedPathBuf::new / Path::components on generated component strings.
//! line: id \t (path "<string>") \t (comps <c>…) (norm "<string>")
use erg_common::pathutil::NormalizedPathBuf;
use erg_harness::*;
use std::path::{Component, Path, PathBuf};

fn comps(p: &str) -> String {
    let mut o = String::from("(comps");
    for c in Path::new(p).components() {
        match c {
            Component::Prefix(_) => o.push_str(" prefix"),
            Component::RootDir => o.push_str(" root"),
            Component::CurDir => o.push_str(" cur"),
            Component::ParentDir => o.push_str(" parent"),
            Component::Normal(n) => { o.push(' '); o.push_str(&quote(&n.to_string_lossy())); }
        }
    }
    o.push(')');
    o
}

fn run_case(id: &str, p: &str) {
    let pp = p.to_string();
    let out = match catch(move || {
        let n = NormalizedPathBuf::new(PathBuf::from(&pp));
        let again = NormalizedPathBuf::new(n.to_path_buf());
        format!("{} (norm {}) (again {})", comps(&pp), quote(&n.to_string_lossy()), quote(&again.to_string_lossy()))
    }) {
        Ok(s) => s,
        Err(e) => format!("crash({})", quote(&e)),
    };
    println!("{}\t(path {})\t{}", id, quote(p), out);
}

fn main() {
    quiet_panics();
    let a = parse_args();
    match a.mode.as_str() {
        "gen" => {
            let mut rng = Rng::new(a.seed);
            let alphabet = [".", "..", "a", "b"];
            if a.tier == "thorough" {
                // exhaustive: all component strings of length 0..=8 over {., .., a, b}, relative and absolute
                let mut id = 0usize;
                for len in 0..=8u32 {
                    for code in 0..4u32.pow(len) {
                        for abs in [false, true] {
                            let mut parts = vec![];
                            let mut c = code;
                            for _ in 0..len { parts.push(alphabet[(c % 4) as usize]); c /= 4; }
                            let mut s = parts.join("/");
                            if abs { s = format!("/{}", s); }
                            run_case(&format!("x{}", id), &s);
                            id += 1;
                        }
                    }
                }
            }
            let names = [".", "..", "a", "b", "c.er", "dir", "..a", "a..", "...", "é", "x y"];
            for i in 0..a.n {
                let len = rng.below(9) as usize;
                let mut s = String::new();
                if rng.chance(1, 2) { s.push('/'); if rng.chance(1, 8) { s.push('/'); } }
                for k in 0..len {
                    if k > 0 { s.push('/'); if rng.chance(1, 10) { s.push('/'); } }
                    if rng.chance(3, 4) { s.push_str(alphabet[rng.below(4) as usize]); } else { s.push_str(names[rng.below(names.len() as u64) as usize]); }
                }
                if rng.chance(1, 6) { s.push('/'); }
                run_case(&format!("g{}", i), &s);
            }
        }
        "replay" => {
            for (id, input) in stdin_cases() {
                // input is `(path "<s>")`
                let inner = input.trim().strip_prefix("(path ").and_then(|s| s.strip_suffix(")")).unwrap_or("");
                match unquote(inner) { Some(p) => run_case(&id, &p), None => println!("{}\t{}\tbad-input", id, input) }
            }
        }
        _ => { eprintln!("usage: c31 gen|replay"); std::process::exit(2); }
    }
}
