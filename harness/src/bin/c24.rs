//! C24: (a) Location::concat / left_main_concat / stream and the renderer (`ErrorDisplay::show` → format_context) through the public
//! erg_common API on generated location pairs; (b) end-to-end: programs with one undefined name after arbitrary same-line text,
//! compiled in-process (HIRBuilder), every CompileError location checked inside the source, sliced, and rendered under catch_unwind.
//! lines:  id \t (locs <l> <r> (src "<s>")) \t (concat <loc>) (lmc <loc>) (stream <loc>) (render-l <ok|crash>) (render-c <ok|crash>)
//!         id \t (prog (src "<s>") (name "<n>")) \t (nameerr <loc>|none) (n <errors>) (inside <bool>) (slice <bool>) (render <ok|crash>)
use erg_common::config::ErgConfig;
use erg_common::error::{ErrorCore, ErrorDisplay, ErrorKind, Location, SubMessage};
use erg_common::io::Input;
use erg_compiler::build_hir::HIRBuilder;
use erg_compiler::error::CompileError;
use erg_compiler::module::SharedCompilerResource;
use erg_harness::*;

fn loc_sexp(l: &Location) -> String {
    match l {
        Location::Range { ln_begin, col_begin, ln_end, col_end } => format!("(r {} {} {} {})", ln_begin, col_begin, ln_end, col_end),
        Location::LineRange(a, b) => format!("(lr {} {})", a, b),
        Location::Line(a) => format!("(l {})", a),
        Location::Unknown => "unknown".to_string(),
    }
}

fn parse_loc(t: &[String], i: &mut usize) -> Option<Location> {
    // tokens of a flat s-expression
    if t.get(*i)? == "unknown" { *i += 1; return Some(Location::Unknown); }
    if t.get(*i)? != "(" { return None; }
    let k = t.get(*i + 1)?.clone();
    let n = |j: usize| t.get(*i + 2 + j).and_then(|x| x.parse::<u32>().ok());
    let r = match k.as_str() {
        "r" => { let l = Location::range(n(0)?, n(1)?, n(2)?, n(3)?); *i += 7; l }
        "lr" => { let l = Location::LineRange(n(0)?, n(1)?); *i += 5; l }
        "l" => { let l = Location::Line(n(0)?); *i += 4; l }
        _ => return None,
    };
    Some(r)
}

fn render(loc: Location, src: &str) -> String {
    let s = src.to_string();
    match catch(move || {
        let core = ErrorCore::new(vec![SubMessage::only_loc(loc)], "msg", 0, ErrorKind::SyntaxError, loc);
        let e = CompileError::new(core, Input::str(s), "<module>".into());
        e.show().len()
    }) { Ok(_) => "ok".into(), Err(_) => "crash".into() }
}

fn run_locs(id: &str, l: Location, r: Location, src: &str) {
    let c = Location::concat(&l, &r);
    let out = format!("(concat {}) (lmc {}) (stream {}) (render-l {}) (render-c {})", loc_sexp(&c), loc_sexp(&Location::left_main_concat(&l, &r)),
        loc_sexp(&Location::stream(&[l, r])), render(l, src), render(c, src));
    println!("{}\t(locs {} {} (src {}))\t{}", id, loc_sexp(&l), loc_sexp(&r), quote(src), out);
}

fn lines_of(src: &str) -> Vec<Vec<char>> {
    erg_common::normalize_newline(src).split('\n').map(|l| l.chars().collect()).collect()
}

fn inside(lines: &[Vec<char>], l: &Location) -> bool {
    let n = lines.len() as u32;
    match *l {
        Location::Range { ln_begin, col_begin, ln_end, col_end } =>
            1 <= ln_begin && ln_begin <= ln_end && ln_end <= n
                && col_begin as usize <= lines[ln_begin as usize - 1].len() && col_end as usize <= lines[ln_end as usize - 1].len()
                && (ln_begin < ln_end || col_begin <= col_end),
        Location::LineRange(a, b) => 1 <= a && a <= b && b <= n,
        Location::Line(a) => 1 <= a && a <= n,
        Location::Unknown => false,
    }
}

fn run_prog(id: &str, src: &str, name: &str) {
    let s = src.to_string();
    let nm = name.to_string();
    let out = match catch(move || {
        let cfg = ErgConfig::string(s.clone());
        let shared = SharedCompilerResource::new(cfg.clone());
        let mut builder = HIRBuilder::new_with_cache(cfg, "<module>", shared);
        let errs = match builder.build(s.clone(), "exec") { Ok(art) => art.warns, Err(iart) => iart.errors };
        let lines = lines_of(&s);
        let mut name_locs: Vec<Location> = vec![];
        let (mut all_inside, mut slice_ok, mut rend, mut n) = (true, true, "ok", 0);
        for e in errs.iter() {
            if e.core.kind == ErrorKind::UnusedWarning { continue; }
            n += 1;
            let loc = e.core.loc;
            if !inside(&lines, &loc) { all_inside = false; }
            if e.core.kind == ErrorKind::NameError && e.core.main_message.contains(&nm) {
                name_locs.push(loc);
                if let Location::Range { ln_begin, col_begin, ln_end, col_end } = loc {
                    let ok = ln_begin == ln_end && inside(&lines, &loc)
                        && lines[ln_begin as usize - 1][col_begin as usize..col_end as usize].iter().collect::<String>() == nm;
                    if !ok { slice_ok = false; }
                } else { slice_ok = false; }
            }
            let e2: &CompileError = e;
            if std::panic::catch_unwind(std::panic::AssertUnwindSafe(|| e2.show().len())).is_err() { rend = "crash"; }
        }
        name_locs.sort_by_key(|l| (l.ln_begin(), l.col_begin()));
        let nl = name_locs.first().map(loc_sexp).unwrap_or("none".into());
        format!("(nameerr {}) (n {}) (inside {}) (slice {}) (render {})", nl, n.min(1), all_inside, slice_ok, rend)
    }) { Ok(s) => s, Err(m) => format!("crash({})", quote(&m)) };
    println!("{}\t(prog (src {}) (name {}))\t{}", id, quote(src), quote(name), out);
}

fn pk<T: Copy>(rng: &mut Rng, xs: &[T]) -> T { xs[rng.below(xs.len() as u64) as usize] }

fn gen_loc(rng: &mut Rng, nlines: u32, w: u32) -> Location {
    let ln = |rng: &mut Rng| if rng.chance(1, 12) { pk(rng, &[0u32, 99]) } else { 1 + rng.below(nlines as u64) as u32 };
    match rng.below(10) {
        0 => Location::Unknown,
        1 => Location::Line(ln(rng)),
        2 => { let a = ln(rng); let b = ln(rng); Location::LineRange(a.min(b), if rng.chance(1, 8) { a.max(b) + 1 } else { a.max(b) }) }
        _ => {
            let a = ln(rng); let b = if rng.chance(2, 3) { a } else { ln(rng) };
            let (lb, le) = if rng.chance(1, 10) { (a.max(b), a.min(b)) } else { (a.min(b), a.max(b)) };
            let c1 = rng.below(w as u64 + 2) as u32; let c2 = rng.below(w as u64 + 2) as u32;
            let (cb, ce) = if lb == le && !rng.chance(1, 10) { (c1.min(c2), c1.max(c2)) } else { (c1, c2) };
            Location::range(lb, cb, le, ce)
        }
    }
}

const PREFIX: &[&str] = &["\"a\\tb\"", "\"x\\n\"", "\"\\\\\"", "\"\\x41\\0\"", "\"日本語\"", "\"é😀\"", "\"tab\there\"", "\"\\{1}\"", "\"a\\{\"b\"}c\"", "1", "1.5", "0xff", "[1, 2]", "'raw id'", "\"\"", "\"\\\"q\\\"\"", "\"    \"", "x", "x.real", "(1, \"\\t\")", "\"\"\"m\\n\"\"\""];
const NAMES: &[&str] = &["zq_undefined", "undefinedName9", "zq", "zq_é", "Zq_T"];

fn gen_prog(rng: &mut Rng) -> (String, String) {
    let name = pk(rng, NAMES).to_string();
    let mut s = String::new();
    s.push_str("x = 1\n");
    if rng.chance(1, 4) { s.push_str("# comment é\n"); }
    let ind = if rng.chance(1, 4) { s.push_str("f() =\n"); "    " } else { "" };
    s.push_str(ind);
    let k = rng.below(4);
    match rng.below(4) {
        0 => { s.push_str("print! "); for _ in 0..k { s.push_str(pk(rng, PREFIX)); s.push_str(pk(rng, &[", ", ",", " , "])); } s.push_str(&name); }
        1 => { s.push_str("y = ["); for _ in 0..k { s.push_str(pk(rng, PREFIX)); s.push_str(", "); } s.push_str(&name); s.push(']'); }
        2 => { s.push_str("y = "); if k > 0 { s.push_str(pk(rng, PREFIX)); s.push_str(pk(rng, &["; z = ", ";z="])); } s.push_str(&name); }
        _ => { s.push_str("print!("); for _ in 0..k { s.push_str(pk(rng, PREFIX)); s.push_str(", "); } s.push_str(&name); s.push(')'); }
    }
    if rng.chance(1, 3) { s.push_str(pk(rng, &[" # trailing é", "  ", " #[ c ]#"])); }
    s.push('\n');
    if !ind.is_empty() || rng.chance(1, 3) { s.push_str(ind); s.push_str("1\n"); }
    (s, name)
}

fn main() {
    quiet_panics();
    let a = parse_args();
    match a.mode.as_str() {
        "gen" => {
            let mut rng = Rng(Rng::new(a.seed).next());
            let srcs = ["x = 1\ny = \"é\\t\"\n\nprint! x, y\n", "a", "", "f x =\n    x + 1\n日本 = 2\n"];
            let nloc = a.n * 9 / 10;
            for i in 0..nloc {
                let src = pk(&mut rng, &srcs);
                let nl = src.split('\n').count() as u32;
                let l = gen_loc(&mut rng, nl, 12);
                let r = gen_loc(&mut rng, nl, 12);
                run_locs(&format!("u{}", i), l, r, src);
            }
            for i in 0..(a.n - nloc) {
                let (s, n) = gen_prog(&mut rng);
                run_prog(&format!("p{}", i), &s, &n);
            }
        }
        "replay" => {
            for (id, input) in stdin_cases() {
                let t = input.trim();
                if let Some(rest) = t.strip_prefix("(prog ") {
                    let src = src_of(rest);
                    let name = rest.rfind("(name ").and_then(|k| unquote(rest[k + 6..].trim_end_matches(')').trim()));
                    match (src, name) { (Some(s), Some(n)) => run_prog(&id, &s, &n), _ => println!("{}\t{}\tbad-input", id, input) }
                } else if let Some(rest) = t.strip_prefix("(locs ") {
                    let k = rest.find("(src ").unwrap_or(rest.len());
                    let toks: Vec<String> = rest[..k].replace('(', " ( ").replace(')', " ) ").split_whitespace().map(|x| x.to_string()).collect();
                    let mut i = 0;
                    let l = parse_loc(&toks, &mut i);
                    let r = parse_loc(&toks, &mut i);
                    match (l, r, src_of(&rest[k..])) { (Some(l), Some(r), Some(s)) => run_locs(&id, l, r, &s), _ => println!("{}\t{}\tbad-input", id, input) }
                } else { println!("{}\t{}\tbad-input", id, input); }
            }
        }
        _ => { eprintln!("usage: c24 gen|replay"); std::process::exit(2); }
    }
}

fn src_of(s: &str) -> Option<String> {
    let k = s.find("(src ")?;
    let b: Vec<char> = s[k + 5..].chars().collect();
    if b.first() != Some(&'"') { return None; }
    let mut i = 1;
    while i < b.len() { if b[i] == '\\' { i += 2; continue; } if b[i] == '"' { break; } i += 1; }
    let lit: String = b[..=i.min(b.len() - 1)].iter().collect();
    unquote(&lit)
}
