//! C15: marshal writer (`ValueObj::into_bytes`, `CodeObj::into_bytes`, `into_bytecode`) and .pyc reader
//! (`Deserializer::deserialize_const`, `CodeObj::from_bytes`, `CodeObj::from_pyc`) on generated values, code objects of generated
//! programs, and truncated / mutated files.
//!
//! input forms                                   impl output
//!   (w <minor> <val>)                           (bytes x<hex>) (read <R>)     | (crash "<msg>")
//!   (r <minor> x<hex>)      from_bytes          (read <R>)
//!   (rc <minor> x<hex>)     deserialize_const   (read <R>)
//!   (pyc x<hex>)            from_pyc (file)     (read <R>) [(ver <minor>)]
//!   (p <minor> "<src>")     compile in-process  (obj <val>) (bytes x<hex>) (read <R>) | (compile-error "<msg>")
//! <R> ::= (ok <val> <rest-len>) | (err <kind> [<detail>]) | (crash <site>)
//! Every case runs in a worker child process (`c15 worker <file> <from>`): an abort (allocation failure, stack overflow) of the
//! reader on a malformed file is an outcome `(crash abort)`, not the end of the run.
use erg_common::python_util::PythonVersion;
use erg_common::{ArcArray, Str};
use erg_compiler::ty::codeobj::CodeObj;
use erg_compiler::ty::deserialize::{DeserializeError, Deserializer};
use erg_compiler::ty::value::ValueObj;
use erg_harness::*;
use std::io::Write;

#[path = "../c14c15/progs.rs"]
mod progs;

// ------------------------------------------------------------------------------------------------ printing

fn hex(b: &[u8]) -> String {
    let mut s = String::with_capacity(1 + 2 * b.len());
    s.push('x');
    for x in b {
        s.push_str(&format!("{:02x}", x));
    }
    s
}

fn unhex(s: &str) -> Option<Vec<u8>> {
    let s = s.strip_prefix('x')?;
    if s.len() % 2 != 0 { return None; }
    (0..s.len() / 2).map(|i| u8::from_str_radix(&s[2 * i..2 * i + 2], 16).ok()).collect()
}

fn strs(name: &str, v: &[Str]) -> String {
    let mut o = format!("({}", name);
    for s in v {
        o.push(' ');
        o.push_str(&quote(s));
    }
    o.push(')');
    o
}

fn code_sexp(c: &CodeObj) -> String {
    let mut o = format!("(code {} {} {} {} {} {} {} (consts", c.argcount, c.posonlyargcount, c.kwonlyargcount, c.nlocals, c.stacksize,
        c.flags, hex(&c.code));
    for v in &c.consts {
        o.push(' ');
        o.push_str(&val_sexp(v));
    }
    o.push_str(&format!(") {} {} {} {} {} {} {} {} {} {})", strs("names", &c.names), strs("varnames", &c.varnames), strs("freevars", &c.freevars),
        strs("cellvars", &c.cellvars), quote(&c.filename), quote(&c.name), quote(&c.qualname), c.firstlineno, hex(&c.lnotab), hex(&c.exceptiontable)));
    o
}

fn val_sexp(v: &ValueObj) -> String {
    match v {
        ValueObj::Int(i) => format!("(int {})", i),
        ValueObj::Nat(n) => format!("(nat {})", n),
        ValueObj::Float(f) => format!("(float {:016x})", f.to_bits()),
        ValueObj::Str(s) => format!("(str {})", quote(s)),
        ValueObj::Bool(true) => "true".into(),
        ValueObj::Bool(false) => "false".into(),
        ValueObj::None => "none".into(),
        ValueObj::List(vs) => format!("(list{})", vs.iter().map(|x| format!(" {}", val_sexp(x))).collect::<String>()),
        ValueObj::Tuple(vs) => format!("(tuple{})", vs.iter().map(|x| format!(" {}", val_sexp(x))).collect::<String>()),
        ValueObj::Code(c) => code_sexp(c),
        _ => "(unsupported)".into(),
    }
}

/// canonical kind of a `DeserializeError`: the function that raised it plus the part of the message the model reproduces
fn err_sexp(e: &DeserializeError) -> String {
    match e.caused_by.as_str() {
        "deserialize_const" => format!("(err deserialize_const {})", e.desc.rsplit(' ').next().unwrap_or("?")),
        "type_error" => {
            let field = e.desc.strip_prefix("failed to read field ").and_then(|r| r.split(": expect").next()).unwrap_or("-");
            format!("(err type_error {})", field.replace(", ", "+"))
        }
        "Str::try_from" => "(err utf8)".into(),
        "io::Error::into" => "(err io)".into(),
        other => format!("(err {})", other),
    }
}

/// canonical site of a panic in the reader
fn crash_sexp(msg: &str) -> String {
    let site = if msg.starts_with("removal index") { "remove0" }
        else if msg.contains("range end index") || msg.contains("out of range for slice") { "drain" }
        else if msg.contains("not a code object") { "not-code" }
        else if msg.contains("unknown magic number") { "magic" }
        else if msg.contains("entered unreachable code") { "kind" }
        else if msg.contains("assertion") && msg.contains("left == right") { "kinds-len" }
        else if msg.contains("cannot be serialized") { "unserializable" }
        else if msg.contains("cannot get reference of the const") { "ref_t" }
        else { return format!("(crash other {})", quote(msg)); };
    format!("(crash {})", site)
}

fn ver(minor: u8) -> PythonVersion {
    PythonVersion::new(3, Some(minor), Some(0))
}

fn read_code(bytes: &[u8], minor: u8) -> String {
    let b = bytes.to_vec();
    match catch(move || {
        let mut v = b;
        let r = CodeObj::from_bytes(&mut v, ver(minor));
        (r, v.len())
    }) {
        Ok((Ok(c), rest)) => format!("(read (ok {} {}))", code_sexp(&c), rest),
        Ok((Err(e), _)) => format!("(read {})", err_sexp(&e)),
        Err(m) => format!("(read {})", crash_sexp(&m)),
    }
}

fn read_const(bytes: &[u8], minor: u8) -> String {
    let b = bytes.to_vec();
    match catch(move || {
        let mut v = b;
        let r = Deserializer::new().deserialize_const(&mut v, ver(minor));
        (r, v.len())
    }) {
        Ok((Ok(c), rest)) => format!("(read (ok {} {}))", val_sexp(&c), rest),
        Ok((Err(e), _)) => format!("(read {})", err_sexp(&e)),
        Err(m) => format!("(read {})", crash_sexp(&m)),
    }
}

fn read_pyc(bytes: &[u8]) -> String {
    let path = std::env::temp_dir().join(format!("c15-{}.pyc", std::process::id()));
    std::fs::write(&path, bytes).unwrap();
    let p = path.clone();
    let out = match catch(move || CodeObj::from_pyc(&p)) {
        Ok(Ok((c, v))) => format!("(read (ok {} 0)) (ver {})", code_sexp(&c), v.minor.unwrap_or(0)),
        Ok(Err(e)) => format!("(read {})", err_sexp(&e)),
        Err(m) => format!("(read {})", crash_sexp(&m)),
    };
    let _ = std::fs::remove_file(&path);
    out
}

// ------------------------------------------------------------------------------------------------ values (generator side)

#[derive(Clone)]
enum V {
    Int(i32),
    Nat(u64),
    Float(u64),
    Str(String),
    Bool(bool),
    None,
    List(Vec<V>),
    Tuple(Vec<V>),
    Code(Box<C>),
    Unsupported,
}
#[derive(Clone)]
struct C {
    ints: [u32; 7], // argcount posonly kwonly nlocals stacksize flags firstlineno
    code: Vec<u8>,
    consts: Vec<V>,
    names: [Vec<String>; 4], // names varnames freevars cellvars
    filename: String,
    name: String,
    qualname: String,
    lnotab: Vec<u8>,
    exc: Vec<u8>,
}

fn to_valueobj(v: &V) -> ValueObj {
    match v {
        V::Int(i) => ValueObj::Int(*i),
        V::Nat(n) => ValueObj::Nat(*n),
        V::Float(b) => ValueObj::from(f64::from_bits(*b)),
        V::Str(s) => ValueObj::Str(Str::from(s.clone())),
        V::Bool(b) => ValueObj::Bool(*b),
        V::None => ValueObj::None,
        V::List(vs) => ValueObj::List(ArcArray::from(vs.iter().map(to_valueobj).collect::<Vec<_>>())),
        V::Tuple(vs) => ValueObj::Tuple(ArcArray::from(vs.iter().map(to_valueobj).collect::<Vec<_>>())),
        V::Code(c) => ValueObj::Code(Box::new(to_codeobj(c))),
        V::Unsupported => ValueObj::Ellipsis,
    }
}

fn to_codeobj(c: &C) -> CodeObj {
    let ss = |v: &Vec<String>| v.iter().map(|s| Str::from(s.clone())).collect::<Vec<_>>();
    CodeObj {
        argcount: c.ints[0], posonlyargcount: c.ints[1], kwonlyargcount: c.ints[2], nlocals: c.ints[3], stacksize: c.ints[4],
        flags: c.ints[5], code: c.code.clone(), consts: c.consts.iter().map(to_valueobj).collect(), names: ss(&c.names[0]),
        varnames: ss(&c.names[1]), freevars: ss(&c.names[2]), cellvars: ss(&c.names[3]), filename: Str::from(c.filename.clone()),
        name: Str::from(c.name.clone()), qualname: Str::from(c.qualname.clone()), firstlineno: c.ints[6], lnotab: c.lnotab.clone(),
        exceptiontable: c.exc.clone(),
    }
}

const INTS: [i32; 16] = [0, 1, -1, 2, 127, 128, 255, 256, 65535, 65536, i32::MAX, i32::MIN, i32::MAX - 1, i32::MIN + 1, -256, 1 << 30];
const NATS: [u64; 22] = [0, 1, 2, 255, 256, 32767, 32768, 65535, 65536, (1 << 31) - 1, 1 << 31, (1 << 31) + 1, (1 << 32) - 1, 1 << 32,
    (1 << 32) + 1, (1 << 45) - 1, 1 << 45, 1 << 60, (1 << 63) - 1, 1 << 63, u64::MAX - 1, u64::MAX];
const FLOATS: [u64; 14] = [0, 0x8000000000000000, 0x3ff0000000000000, 0xbff8000000000000, 0x7ff0000000000000, 0xfff0000000000000,
    0x7ff8000000000000, 0x7ff8000000000001, 0xfff8000000000000, 0x7ff0000000000001, 1, 0x000fffffffffffff, 0x7fefffffffffffff,
    0x400921fb54442d18];

fn gen_char(rng: &mut Rng) -> char {
    match rng.below(12) {
        0..=4 => (32 + rng.below(95)) as u8 as char,
        5 => *rng.pick(&['\0', '\t', '\n', '\r', '"', '\\', '\'', '{', '}', '\x7f']),
        6 => *rng.pick(&['\u{80}', '\u{ff}', '\u{e9}', '\u{7ff}', '\u{800}', '\u{d7ff}', '\u{e000}', '\u{ffff}', '\u{fffd}']),
        7 => *rng.pick(&['\u{10000}', '\u{1f600}', '\u{10ffff}', '\u{202e}', '\u{2066}']),
        8 => char::from_u32(0x3040 + rng.below(96) as u32).unwrap(),
        _ => (97 + rng.below(26)) as u8 as char,
    }
}

fn gen_string(rng: &mut Rng) -> String {
    match rng.below(20) {
        0 => String::new(),
        1 => {
            // byte lengths at the marshal limits, ASCII or with one non-ASCII character
            let n = *rng.pick(&[254usize, 255, 256, 257, 65535, 65536]);
            let mut s = "a".repeat(n);
            if rng.chance(1, 3) { s.pop(); s.pop(); s.push('é'); }
            s
        }
        _ => {
            let n = rng.below(9) as usize;
            (0..n).map(|_| gen_char(rng)).collect()
        }
    }
}

fn gen_ident(rng: &mut Rng) -> String {
    if rng.chance(1, 10) { return gen_string(rng); }
    let n = 1 + rng.below(6) as usize;
    (0..n).map(|_| (97 + rng.below(26)) as u8 as char).collect()
}

fn gen_bytes(rng: &mut Rng, max: u64) -> Vec<u8> {
    let n = rng.below(max + 1) as usize;
    (0..n).map(|_| rng.below(256) as u8).collect()
}

fn gen_names(rng: &mut Rng, pool: &[String]) -> Vec<String> {
    let n = match rng.below(12) { 0 => 0, 11 => *rng.pick(&[255usize, 256, 257]), k => (k % 4) as usize };
    (0..n).map(|j| if n > 10 { format!("n{}", j) } else if rng.chance(1, 3) && !pool.is_empty() { rng.pick(pool).clone() } else { gen_ident(rng) }).collect()
}

fn gen_code(rng: &mut Rng, depth: u32) -> C {
    let small = |rng: &mut Rng| -> u32 { if rng.chance(1, 12) { *rng.pick(&[255u32, 256, 65536, 0x7fffffff, 0x80000000, 0xffffffff]) } else { rng.below(6) as u32 } };
    let varnames = gen_names(rng, &[]);
    let freevars = gen_names(rng, &varnames);
    let cellvars = gen_names(rng, &varnames);
    let nconsts = match rng.below(10) { 0 => *rng.pick(&[255usize, 256, 257]), k => (k % 5) as usize };
    let consts = (0..nconsts).map(|_| gen_val(rng, if nconsts > 10 { 99 } else { depth + 1 })).collect();
    let mut ints = [small(rng), small(rng), small(rng), small(rng), small(rng), small(rng), small(rng)];
    // co_code is opaque to writer and reader; the pairs are base opcodes without inline caches, because 3.11's `co_code` getter
    // de-optimises what it returns (unknown opcodes and cache slots would come back changed from the marshal.loads oracle)
    let mut code: Vec<u8> = (0..rng.below(7)).flat_map(|_| [*rng.pick(&[9u8, 1, 83, 100, 124, 125, 110]), rng.below(256) as u8]).collect();
    if rng.chance(1, 6) { code.push(rng.below(256) as u8); }
    if rng.chance(4, 5) {
        // mostly fields the interpreters' code constructors accept (argument counts covered by varnames, even code length), so that
        // the marshal.loads oracle gets to compare the object rather than reject it
        let nv = varnames.len() as u32;
        ints[0] = ints[0].min(nv);
        ints[1] = ints[1].min(ints[0]);
        ints[2] = ints[2].min(nv - ints[0]);
        ints[3] = nv;
        ints[4] = ints[4].min(1000);
        ints[5] = *rng.pick(&[0u32, 1, 2, 3, 0x10, 0x13, 0x40, 0x43]);
        ints[6] = ints[6].min(100000);
        if code.len() % 2 == 1 { code.pop(); }
    }
    C {
        ints,
        code,
        consts,
        names: [gen_names(rng, &[]), varnames, freevars, cellvars],
        filename: gen_string(rng),
        name: gen_ident(rng),
        qualname: gen_ident(rng),
        lnotab: gen_bytes(rng, 6),
        exc: gen_bytes(rng, 4),
    }
}

fn gen_val(rng: &mut Rng, depth: u32) -> V {
    let k = if depth >= 4 { rng.below(7) } else { rng.below(11) };
    match k {
        0 => V::Int(if rng.chance(1, 2) { *rng.pick(&INTS) } else { rng.next() as i32 }),
        1 => V::Nat(if rng.chance(2, 3) { *rng.pick(&NATS) } else { rng.next() >> rng.below(64) }),
        2 => V::Float(if rng.chance(1, 2) { *rng.pick(&FLOATS) } else { rng.next() }),
        3 => V::Str(gen_string(rng)),
        4 => V::Bool(rng.chance(1, 2)),
        5 => V::None,
        6 => V::Str(gen_ident(rng)),
        7 | 8 => {
            let n = if rng.chance(1, 25) && depth < 2 { *rng.pick(&[255usize, 256, 257]) } else { rng.below(5) as usize };
            let vs = (0..n).map(|_| gen_val(rng, if n > 10 { 99 } else { depth + 1 })).collect();
            if k == 7 { V::List(vs) } else { V::Tuple(vs) }
        }
        9 => V::Code(Box::new(gen_code(rng, depth + 1))),
        _ => if rng.chance(1, 6) { V::Unsupported } else { V::Int(rng.range(-5, 5) as i32) },
    }
}

// ------------------------------------------------------------------------------------------------ cases

fn case_w(minor: u8, v: &V) -> (String, Vec<u8>) {
    let obj = to_valueobj(v);
    let input = format!("(w {} {})", minor, val_sexp(&obj));
    (input, vec![])
}

/// run one case given its input S-expression (the worker side); the input is re-parsed from text so that `gen` and `replay` share
/// one code path
fn run_input(input: &str) -> String {
    let inner = input.trim();
    let toks: Vec<&str> = inner.trim_start_matches('(').splitn(3, ' ').collect();
    match toks.first().copied() {
        Some("w") => {
            let minor: u8 = toks[1].parse().unwrap_or(11);
            let body = toks[2].strip_suffix(')').unwrap_or("");
            let Some(v) = parse_val(&mut Tok::new(body)) else { return "bad-input".into() };
            let obj = to_valueobj(&v);
            let is_code = matches!(v, V::Code(_));
            match catch(move || obj.into_bytes(ver(minor))) {
                Ok(b) => format!("(bytes {}) {}", hex(&b), if is_code { read_code(&b, minor) } else { read_const(&b, minor) }),
                Err(m) => crash_sexp(&m),
            }
        }
        Some("r") | Some("rc") => {
            let minor: u8 = toks[1].parse().unwrap_or(11);
            let Some(b) = unhex(toks[2].strip_suffix(')').unwrap_or("")) else { return "bad-input".into() };
            if toks[0] == "r" { read_code(&b, minor) } else { read_const(&b, minor) }
        }
        Some("pyc") => {
            let rest = inner.strip_prefix("(pyc ").and_then(|s| s.strip_suffix(')')).unwrap_or("");
            let Some(b) = unhex(rest) else { return "bad-input".into() };
            read_pyc(&b)
        }
        Some("p") => {
            let minor: u8 = toks[1].parse().unwrap_or(11);
            let Some(src) = unquote(toks[2].strip_suffix(')').unwrap_or("")) else { return "bad-input".into() };
            match catch(move || progs::compile(&src, minor)) {
                Ok(Ok(c)) => {
                    let obj = code_sexp(&c);
                    match catch(move || c.into_bytes(ver(minor))) {
                        Ok(b) => format!("(obj {}) (bytes {}) {}", obj, hex(&b), read_code(&b, minor)),
                        Err(m) => format!("(obj {}) {}", obj, crash_sexp(&m)),
                    }
                }
                Ok(Err(e)) => format!("(compile-error {})", quote(&e)),
                Err(m) => format!("(compile-crash {})", quote(&m)),
            }
        }
        _ => "bad-input".into(),
    }
}

// a tiny S-expression reader for values (replay path)
struct Tok<'a> { s: &'a [u8], i: usize }
impl<'a> Tok<'a> {
    fn new(s: &'a str) -> Self { Tok { s: s.as_bytes(), i: 0 } }
    fn ws(&mut self) { while self.i < self.s.len() && self.s[self.i] == b' ' { self.i += 1; } }
    fn peek(&mut self) -> Option<u8> { self.ws(); self.s.get(self.i).copied() }
    fn atom(&mut self) -> Option<String> {
        self.ws();
        let st = self.i;
        if self.s.get(self.i) == Some(&b'"') {
            self.i += 1;
            while self.i < self.s.len() && self.s[self.i] != b'"' { if self.s[self.i] == b'\\' { self.i += 1; } self.i += 1; }
            self.i += 1;
        } else {
            while self.i < self.s.len() && !b" ()".contains(&self.s[self.i]) { self.i += 1; }
        }
        if self.i > self.s.len() || st == self.i { return None; }
        Some(String::from_utf8_lossy(&self.s[st..self.i]).into_owned())
    }
    fn open(&mut self) -> bool { if self.peek() == Some(b'(') { self.i += 1; true } else { false } }
    fn close(&mut self) -> bool { if self.peek() == Some(b')') { self.i += 1; true } else { false } }
}

fn parse_strs(t: &mut Tok) -> Option<Vec<String>> {
    if !t.open() { return None; }
    t.atom()?;
    let mut v = vec![];
    while !t.close() { v.push(unquote(&t.atom()?)?); }
    Some(v)
}

fn parse_val(t: &mut Tok) -> Option<V> {
    if !t.open() {
        return match t.atom()?.as_str() { "true" => Some(V::Bool(true)), "false" => Some(V::Bool(false)), "none" => Some(V::None), _ => None };
    }
    let head = t.atom()?;
    let v = match head.as_str() {
        "int" => V::Int(t.atom()?.parse().ok()?),
        "nat" => V::Nat(t.atom()?.parse().ok()?),
        "float" => V::Float(u64::from_str_radix(&t.atom()?, 16).ok()?),
        "str" => V::Str(unquote(&t.atom()?)?),
        "unsupported" => V::Unsupported,
        "list" | "tuple" => {
            let mut vs = vec![];
            while t.peek()? != b')' { vs.push(parse_val(t)?); }
            if head == "list" { V::List(vs) } else { V::Tuple(vs) }
        }
        "code" => {
            let mut ints = [0u32; 7];
            for k in 0..6 { ints[k] = t.atom()?.parse().ok()?; }
            let code = unhex(&t.atom()?)?;
            if !t.open() { return None; }
            t.atom()?;
            let mut consts = vec![];
            while t.peek()? != b')' { consts.push(parse_val(t)?); }
            t.close();
            let names = [parse_strs(t)?, parse_strs(t)?, parse_strs(t)?, parse_strs(t)?];
            let filename = unquote(&t.atom()?)?;
            let name = unquote(&t.atom()?)?;
            let qualname = unquote(&t.atom()?)?;
            ints[6] = t.atom()?.parse().ok()?;
            let lnotab = unhex(&t.atom()?)?;
            let exc = unhex(&t.atom()?)?;
            V::Code(Box::new(C { ints, code, consts, names, filename, name, qualname, lnotab, exc }))
        }
        _ => return None,
    };
    if !t.close() { return None; }
    Some(v)
}

fn mutate(rng: &mut Rng, b: &[u8]) -> Vec<u8> {
    let mut v = b.to_vec();
    match rng.below(8) {
        0 | 1 | 2 => { let n = rng.below(v.len() as u64 + 1) as usize; v.truncate(n); }         // truncation
        3 | 4 => { if !v.is_empty() { let i = rng.below(v.len() as u64) as usize; v[i] ^= 1 << rng.below(8); } }   // bit flip
        5 => { if !v.is_empty() { let i = rng.below(v.len() as u64) as usize; v[i] = *rng.pick(&[0u8, 0xff, b'(', b')', b'i', b'l', b's', b'u', b'z', 0xe3, 0xfa, 0xda, b'N', b'r', 0x60, 0x20, 0x40, 0x80]); } }
        6 => { if !v.is_empty() { let i = rng.below(v.len() as u64) as usize; v.remove(i); } }    // deletion
        _ => { let i = rng.below(v.len() as u64 + 1) as usize; v.insert(i, rng.below(256) as u8); } // insertion
    }
    v
}

fn gen_cases(a: &Args) -> Vec<(String, String)> {
    let mut rng = Rng::new(a.seed);
    let mut cases: Vec<(String, String)> = vec![];
    let thorough = a.tier == "thorough";
    // stream 1: values and synthetic code objects through the writer (and read back)
    for i in 0..a.n {
        let minor = *rng.pick(&progs::MINORS);
        let v = if i % 3 == 0 { V::Code(Box::new(gen_code(&mut rng, 0))) } else { gen_val(&mut rng, 0) };
        cases.push((format!("w{}", i), case_w(minor, &v).0));
    }
    // stream 2: boundary pools exhaustively
    let mut j = 0;
    for n in NATS { cases.push((format!("wb{}", j), format!("(w 11 (nat {}))", n))); j += 1; }
    for n in INTS { cases.push((format!("wb{}", j), format!("(w 9 (int {}))", n))); j += 1; }
    for f in FLOATS { cases.push((format!("wb{}", j), format!("(w 10 (float {:016x}))", f))); j += 1; }
    // stream 3: malformed input for the reader: truncations and mutations of valid encodings
    let nm = a.n;
    for i in 0..nm {
        let minor = *rng.pick(&progs::MINORS);
        let as_code = rng.chance(2, 3);
        let v = if as_code { V::Code(Box::new(gen_code(&mut rng, 2))) } else { gen_val(&mut rng, 1) };
        let obj = to_valueobj(&v);
        let Ok(b) = catch(move || obj.into_bytes(ver(minor))) else { continue };
        if b.len() > 4000 { continue; }
        let mut m = mutate(&mut rng, &b);
        if rng.chance(1, 4) { m = mutate(&mut rng, &m); }
        if as_code && rng.chance(1, 5) {
            // as a whole file: header + code object, possibly damaged in the header as well
            let mut f = erg_common::serialize::get_magic_num_bytes(progs::magic_of(minor)).to_vec();
            f.extend([0, 0, 0, 0, 1, 2, 3, 4, 0, 0, 0, 0]);
            f.extend(&b);
            let f = if rng.chance(2, 3) { mutate(&mut rng, &f) } else { f };
            cases.push((format!("m{}", i), format!("(pyc {})", hex(&f))));
        } else {
            cases.push((format!("m{}", i), format!("({} {} {})", if as_code { "r" } else { "rc" }, minor, hex(&m))));
        }
    }
    // stream 4: code objects of programs compiled by the real pipeline, every target version
    let mut progs_: Vec<String> = progs::fixed_programs();
    let np = if thorough { 60 } else { 12 };
    for _ in 0..np { progs_.push(progs::gen_program(&mut rng)); }
    for (i, src) in progs_.iter().enumerate() {
        for minor in progs::MINORS {
            if !thorough && i >= progs::fixed_programs().len() && (i + minor as usize) % 2 == 0 { continue; }
            cases.push((format!("p{}v{}", i, minor), format!("(p {} {})", minor, quote(src))));
        }
    }
    cases
}

/// run the cases in worker children; a child that dies marks the case in progress as aborted and the run continues after it
fn supervise(cases: &[(String, String)]) {
    let path = std::env::temp_dir().join(format!("c15-cases-{}.txt", std::process::id()));
    {
        let mut f = std::fs::File::create(&path).unwrap();
        for (id, input) in cases { writeln!(f, "{}\t{}", id, input).unwrap(); }
    }
    let exe = std::env::current_exe().unwrap();
    let mut from = 0usize;
    let out = std::io::stdout();
    while from < cases.len() {
        // the worker runs under an 8 GiB address-space limit, so that `Vec::with_capacity(<length read from the file>)` in the reader
        // fails deterministically (abort) for lengths whose allocation exceeds it, independently of the machine's free memory
        let o = std::process::Command::new("sh").arg("-c").arg("ulimit -v 8388608; exec \"$0\" worker \"$1\" \"$2\"")
            .arg(&exe).arg(&path).arg(from.to_string()).output().unwrap();
        let text = String::from_utf8_lossy(&o.stdout);
        let mut done = 0usize;
        let mut lock = out.lock();
        for l in text.lines() {
            if l.matches('\t').count() >= 2 { writeln!(lock, "{}", l).unwrap(); done += 1; }
        }
        from += done;
        if from < cases.len() && !o.status.success() {
            let (id, input) = &cases[from];
            writeln!(lock, "{}\t{}\t(read (crash abort))", id, input).unwrap();
            from += 1;
        } else if done == 0 {
            break;
        }
    }
    let _ = std::fs::remove_file(&path);
}

fn main() {
    quiet_panics();
    let a = parse_args();
    match a.mode.as_str() {
        "gen" => supervise(&gen_cases(&a)),
        "replay" => supervise(&stdin_cases()),
        "sizeof" => println!("{}", std::mem::size_of::<ValueObj>()),
        "worker" => {
            let text = std::fs::read_to_string(&a.rest[0]).unwrap();
            let from: usize = a.rest[1].parse().unwrap();
            let out = std::io::stdout();
            for l in text.lines().skip(from) {
                let mut it = l.splitn(2, '\t');
                let id = it.next().unwrap_or("");
                let input = it.next().unwrap_or("");
                let r = run_input(input);
                let mut lock = out.lock();
                writeln!(lock, "{}\t{}\t{}", id, input, r).unwrap();
                lock.flush().unwrap();
            }
        }
        _ => { eprintln!("usage: c15 gen|replay"); std::process::exit(2); }
    }
}
