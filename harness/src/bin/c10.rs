//! C10: layout rewrites of generated/corpus programs; `SimpleParser::parse` ASTs compared with `==` (position-insensitive), the
//! base program parsed twice for determinism, and the `(kind, content)` token streams of the two texts compared.
//! line: id \t (rw <kind> <k> (src "<s>")) \t (toks <same|same-mod-newlines|diff>) (ast <equal|diff|err-both|err-one>) (det <bool>)
//! The rewrite `kind` inserts its snippet at character offset `k` of the newline-normalised source (same definition as
//! ErgVerif.C10.rewrite): comment → "#c é\n"+indent… see `snippet`.
use erg_harness::*;
use erg_parser::lex::Lexer;
use erg_parser::parse::{Parsable, SimpleParser};
use erg_parser::token::TokenKind;

pub fn rewrite(kind: &str, k: usize, src: &str) -> Option<String> {
    let cs: Vec<char> = erg_common::normalize_newline(src).chars().collect();
    if k > cs.len() { return None; }
    let pre: String = cs[..k].iter().collect();
    let post: String = cs[k..].iter().collect();
    // `blank`, `commentline`, `commentlinep` take a run length 1..4 as a trailing digit (`blank3` = three blank lines)
    let (kind, n) = match kind.char_indices().last() { Some((i, d)) if ('2'..='4').contains(&d) => (&kind[..i], d.to_digit(10).unwrap() as usize), _ => (kind, 1) };
    Some(match kind {
        // a line comment at the end of the line that contains offset k (k = offset of that line's `\n`)
        "comment" => format!("{} # c é{}", pre, post),
        "comment0" => format!("{}#c{}", pre, post),
        // trailing spaces before a line break
        "spaces" => format!("{}   {}", pre, post),
        // a blank line after a line break (k = offset just after a `\n`)
        "blank" => format!("{}{}{}", pre, "\n".repeat(n), post),
        // a comment-only line indented like the line that follows it (k = offset just after a `\n`)
        "commentline" => { let ind = cs[k..].iter().take_while(|c| **c == ' ').count(); format!("{}{}{}", pre, format!("{}# c\n", " ".repeat(ind)).repeat(n), post) }
        // comment-only lines indented like the line that PRECEDES them (e.g. the block opener)
        "commentlinep" => {
            if k == 0 || cs[k - 1] != '\n' { return None; }
            let ls = cs[..k - 1].iter().rposition(|c| *c == '\n').map(|i| i + 1).unwrap_or(0);
            let ind = cs[ls..].iter().take_while(|c| **c == ' ').count();
            format!("{}{}{}", pre, format!("{}# c\n", " ".repeat(ind)).repeat(n), post)
        }
        // a comment-only line starting in column 0
        "commentline0" => format!("{}# c\n{}", pre, post),
        // backslash continuation between two tokens of an expression (k = offset of a space between them): ` \` + line break
        "cont" => format!("{} \\\n{}", pre, post),
        // the same without the space before the backslash
        "cont0" => format!("{}\\\n{}", pre, post),
        // `#[ ]#` directly before a token (no space after it)
        "mlcomment" => format!("{}#[ c ]#{}", pre, post),
        // `#[ ]#` followed by a space
        "mlcomment-sp" => format!("{}#[ c ]# {}", pre, post),
        // parentheses around a literal operand: k = offset of the literal, its length is found by scanning the literal
        "parens" => {
            let mut e = k;
            while e < cs.len() && (cs[e].is_ascii_alphanumeric() || cs[e] == '_') { e += 1; }
            if e == k { return None; }
            let lit: String = cs[k..e].iter().collect();
            let rest: String = cs[e..].iter().collect();
            format!("{}({}){}", pre, lit, rest)
        }
        _ => return None,
    })
}

fn toks(src: &str) -> Option<Vec<(TokenKind, String)>> {
    let s = src.to_string();
    catch(move || Lexer::from_str(s).lex().ok().map(|ts| ts.into_iter().map(|t| (t.kind, t.content.to_string())).collect::<Vec<_>>())).ok().flatten()
}

fn squeeze(v: &[(TokenKind, String)]) -> Vec<(TokenKind, String)> {
    let mut o: Vec<(TokenKind, String)> = vec![];
    for t in v {
        if t.0 == TokenKind::Newline && o.last().map(|l| l.0 == TokenKind::Newline).unwrap_or(true) { continue; }
        o.push(t.clone());
    }
    o
}

fn run_case(id: &str, kind: &str, k: usize, src: &str) {
    let out = match rewrite(kind, k, src) {
        None => "declined".to_string(),
        Some(rw) => {
            let (a, b) = (toks(src), toks(&rw));
            let t = match (&a, &b) {
                (Some(a), Some(b)) => if a == b { "same" } else if squeeze(a) == squeeze(b) { "same-mod-newlines" } else { "diff" },
                (None, None) => "err-both",
                _ => "err-one",
            };
            let (s1, s2, s3) = (src.to_string(), src.to_string(), rw.clone());
            let p = catch(move || {
                let x = SimpleParser::parse(s1).ok().map(|a| a.ast);
                let y = SimpleParser::parse(s2).ok().map(|a| a.ast);
                let z = SimpleParser::parse(s3).ok().map(|a| a.ast);
                let det = x == y && x.as_ref().map(|m| m.to_string()) == y.as_ref().map(|m| m.to_string());
                // `==` on ASTs ignores token positions but not the explicit `Location`s some nodes carry (e.g. the dot of `x.real`), so the
                // position-free comparison is the printed tree; `eq` reports the derived `==` for information
                let ast = match (&x, &z) { (Some(x), Some(z)) => if x.to_string() == z.to_string() { "equal" } else { "diff" }, (None, None) => "err-both", _ => "err-one" };
                if std::env::var("C10_DEBUG").is_ok() { eprintln!("BASE:\n{}\nREWRITTEN:\n{}", x.as_ref().map(|m| m.to_string()).unwrap_or_default(), z.as_ref().map(|m| m.to_string()).unwrap_or_default()); }
                let eq = match (&x, &z) { (Some(x), Some(z)) => x == z, (None, None) => true, _ => false };
                format!("(ast {}) (det {}) (eq {})", ast, det, eq)
            }).unwrap_or_else(|m| format!("(crash {})", quote(&m)));
            format!("(toks {}) {}", t, p)
        }
    };
    println!("{}\t(rw {} {} (src {}))\t{}", id, kind, k, quote(src), out);
}

fn pk<T: Copy>(rng: &mut Rng, xs: &[T]) -> T { xs[rng.below(xs.len() as u64) as usize] }

const ATOMS: &[&str] = &["1", "2", "x", "y", "n", "3.5", "\"s\"", "\"a\\tb\"", "\"é\"", "True", "[1, 2]", "(1, 2)", "f(1)", "x.real", "\"\\{x}\"", "0xff", "{1: 2}"];
const BINOPS: &[&str] = &["+", "-", "*", "//", "%", "**", "==", "<=", "and", "or", "in", "..", "<..<"];

fn gen_expr(rng: &mut Rng, o: &mut String) {
    o.push_str(pk(rng, ATOMS));
    for _ in 0..rng.below(3) { o.push(' '); o.push_str(pk(rng, BINOPS)); o.push(' '); o.push_str(pk(rng, ATOMS)); }
}

fn gen_program(rng: &mut Rng) -> String {
    let mut o = String::from("x = 1\ny = 2\nn = 3\nf a = a\n");
    for _ in 0..(1 + rng.below(4)) {
        match rng.below(10) {
            0 | 1 => { o.push_str(pk(rng, &["z", "w", "q"])); o.push_str(" = "); gen_expr(rng, &mut o); o.push('\n'); }
            2 => { o.push_str("print! "); gen_expr(rng, &mut o); o.push_str(", "); gen_expr(rng, &mut o); o.push('\n'); }
            3 => { o.push_str("g a, b =\n    c = "); gen_expr(rng, &mut o); o.push_str("\n    c + a\n"); }
            4 => { o.push_str("if x == 1, do:\n    print! "); gen_expr(rng, &mut o); o.push('\n'); }
            5 => { o.push_str("h = i ->\n    j = i + 1\n    if j == 2:\n        do: j\n        do: "); gen_expr(rng, &mut o); o.push('\n'); }
            6 => { o.push_str("p! a =>\n    print! a\n    print! "); gen_expr(rng, &mut o); o.push('\n'); }
            7 => { o.push_str("for! 0..<2, i =>\n    print! i, "); gen_expr(rng, &mut o); o.push('\n'); }
            8 => { o.push_str("if! x == 1:\n    do!:\n        print! "); gen_expr(rng, &mut o); o.push_str("\n    do!:\n        print! y\n"); }
            _ => { o.push_str("C = Class {.a = Int}\nC.\n    m self =\n        k = self.a\n        k + "); gen_expr(rng, &mut o); o.push('\n'); }
        }
    }
    o
}

/// candidate offsets for a rewrite kind, from the real lexer's token positions
fn candidates(kind: &str, src: &str) -> Vec<usize> {
    let kind = kind.trim_end_matches(|c: char| ('2'..='4').contains(&c));
    let cs: Vec<char> = erg_common::normalize_newline(src).chars().collect();
    let mut line_start = vec![0usize];
    for (i, c) in cs.iter().enumerate() { if *c == '\n' { line_start.push(i + 1); } }
    let ts: Vec<erg_parser::token::Token> = match Lexer::from_str(src.to_string()).lex() { Ok(t) => t.into_iter().collect(), Err(_) => return vec![] };
    let off = |t: &erg_parser::token::Token| line_start.get(t.lineno as usize - 1).map(|s| s + t.col_begin as usize);
    let mut v = vec![];
    for (i, t) in ts.iter().enumerate() {
        let Some(o) = off(t) else { continue };
        // the offset is derived from the token's line/column: skip tokens whose recorded position is not where their text is
        // (line drift after multi-line strings, finding C08-line-drift)
        let first = if t.kind == TokenKind::Newline { Some('\n') } else { t.content.chars().next() };
        if !matches!(t.kind, TokenKind::Indent | TokenKind::Dedent | TokenKind::EOF) && cs.get(o).copied() != first { continue; }
        match kind {
            "comment" | "comment0" | "spaces" => if t.kind == TokenKind::Newline { v.push(o); },
            "blank" | "commentline" | "commentlinep" | "commentline0" => if t.kind == TokenKind::Newline { v.push(o + 1); },
            // whitespace next to `+ - * **` decides prefix/infix (op_fix reads the neighbouring characters): a comment or a continuation glued to
            // such an operator is not a layout-preserving rewrite
            "cont" | "cont0" | "mlcomment" | "mlcomment-sp" if matches!(t.kind, TokenKind::Plus | TokenKind::Minus | TokenKind::Star | TokenKind::Pow | TokenKind::PrePlus
                | TokenKind::PreMinus | TokenKind::PreStar | TokenKind::PreDblStar | TokenKind::IntLit) => {}
            "cont" | "cont0" => if i > 0 && o > 0 && cs.get(o - 1) == Some(&' ') && !matches!(t.kind, TokenKind::Newline | TokenKind::Indent | TokenKind::Dedent | TokenKind::EOF)
                && !matches!(ts[i - 1].kind, TokenKind::Newline | TokenKind::Indent | TokenKind::Dedent) { v.push(o - 1); },
            "mlcomment" | "mlcomment-sp" => if !matches!(t.kind, TokenKind::Newline | TokenKind::Indent | TokenKind::Dedent | TokenKind::EOF | TokenKind::StrInterpMid | TokenKind::StrInterpRight)
                && i > 0 && o > 0 && cs.get(o - 1) == Some(&' ') && !matches!(ts[i - 1].kind, TokenKind::Newline | TokenKind::Indent | TokenKind::Dedent) { v.push(o); },
            // an operand that cannot be read as the argument list of a preceding callee: the previous token is a binary operator, `=`, `,` or an opening bracket
            "parens" => if matches!(t.kind, TokenKind::NatLit | TokenKind::BoolLit) && i > 0
                && (matches!(ts[i - 1].category(), erg_parser::token::TokenCategory::BinOp | erg_parser::token::TokenCategory::DefOp)
                    || matches!(ts[i - 1].kind, TokenKind::Comma | TokenKind::LParen | TokenKind::LSqBr)) { v.push(o); },
            _ => {}
        }
    }
    v
}

fn main() {
    quiet_panics();
    let a = parse_args();
    match a.mode.as_str() {
        "gen" => {
            let mut rng = Rng(Rng::new(a.seed).next());
            let kinds = ["comment", "comment0", "spaces", "blank", "blank2", "blank3", "blank4", "commentline", "commentline2", "commentline3", "commentline4",
                "commentlinep", "commentlinep2", "commentlinep3", "commentline0", "cont", "cont", "cont0", "mlcomment", "mlcomment", "mlcomment-sp", "parens", "parens"];
            // corpus programs: `--corpus <dir>` (the repository's examples and should_ok tests) — files that lex and parse, at most 4000 characters
            let mut corpus: Vec<String> = vec![];
            if let Some(i) = a.rest.iter().position(|x| x == "--corpus") {
                for d in a.rest[i + 1..].iter() {
                    let mut names: Vec<_> = std::fs::read_dir(d).map(|r| r.filter_map(|e| e.ok()).map(|e| e.path()).collect()).unwrap_or_default();
                    names.sort();
                    for f in names {
                        if f.extension().map(|e| e == "er").unwrap_or(false) {
                            if let Ok(t) = std::fs::read_to_string(&f) {
                                let t2 = t.clone();
                                if t.chars().count() <= 4000 && !t.contains('\t') && catch(move || SimpleParser::parse(t2).is_ok()).unwrap_or(false) { corpus.push(t); }
                            }
                        }
                    }
                }
            }
            eprintln!("corpus programs: {}", corpus.len());
            let mut i = 0;
            let mut guard = 0;
            while i < a.n && guard < a.n * 20 {
                guard += 1;
                let s = if !corpus.is_empty() && rng.chance(1, 4) { corpus[rng.below(corpus.len() as u64) as usize].clone() } else { gen_program(&mut rng) };
                let kind = pk(&mut rng, &kinds);
                let c = candidates(kind, &s);
                if c.is_empty() { continue; }
                let k = pk(&mut rng, &c);
                run_case(&format!("g{}", i), kind, k, &s);
                i += 1;
            }
        }
        "replay" => {
            for (id, input) in stdin_cases() {
                let t = input.trim();
                let ok = (|| {
                    let rest = t.strip_prefix("(rw ")?;
                    let mut it = rest.splitn(3, ' ');
                    let kind = it.next()?.to_string();
                    let k: usize = it.next()?.parse().ok()?;
                    let tail = it.next()?;
                    let inner = tail.trim().strip_prefix("(src ")?.strip_suffix("))")?;
                    let s = unquote(inner)?;
                    run_case(&id, &kind, k, &s);
                    Some(())
                })();
                if ok.is_none() { println!("{}\t{}\tbad-input", id, input); }
            }
        }
        _ => { eprintln!("usage: c10 gen|replay"); std::process::exit(2); }
    }
}
