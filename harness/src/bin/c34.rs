//! C34 (also used by C05): run the real front end and code generator in-process on Erg sources.
//!
//! `c34 replay --out <dir>`: stdin lines `id \t (src "<erg source>")`; for each program
//!   * compile (build + link + desugar + optimize + code generation, target 3.11) with the real `Compiler`,
//!   * report every top-level variable definition's inferred type: `Display` of `VarInfo.t` of the defined identifier, the
//!     text `erg --mode typecheck` prints after `::name(: ` (cross-checked against the CLI by checks/c34.py on a sample),
//!   * write the code object to `<dir>/<sanitised id>.pyc` for the orchestrator to run under the target interpreter.
//!   line: id \t (src …) \t (types ("name" "type")…) (pyc "<file>")  |  rejected (errors N) (first "<kind: message>")  |  crash("…")
//! `c34 check`: same input, front end only (no code generation): `accepted` | `rejected (errors N) (first "…")` | `crash("…")`.
use erg_common::config::ErgConfig;
use erg_common::io::Input;
use erg_common::python_util::PythonVersion;
use erg_common::traits::Stream;
use erg_compiler::hir::{Expr, Signature};
use erg_compiler::Compiler;
use erg_harness::*;

fn sanitise(id: &str) -> String {
    id.chars().map(|c| if c.is_ascii_alphanumeric() || c == '_' { c } else { '_' }).collect()
}

fn first_error(errs: &erg_compiler::error::CompileErrors) -> String {
    match errs.iter().next() {
        Some(e) => {
            let msg = format!("{:?}: {}", e.core.kind, e.core.main_message);
            msg.chars().take(200).collect()
        }
        None => String::new(),
    }
}

fn run_case(id: &str, src: &str, out: &str, codegen: bool) -> String {
    let s = src.to_string();
    let idc = id.to_string();
    let outc = out.to_string();
    let res = catch(move || -> String {
        let mut cfg = ErgConfig::default();
        cfg.input = Input::str(s.clone());
        cfg.target_version = Some(PythonVersion::new(3, Some(11), Some(0)));
        cfg.py_magic_num = Some(3495);
        cfg.quiet_repl = true;
        let mut compiler = Compiler::new(cfg);
        let (hir, code) = match compiler.verif_compile_with_hir(s, "exec") {
            Ok(x) => x,
            Err(arti) => {
                return format!("rejected (errors {}) (first {})", arti.errors.len(), quote(&first_error(&arti.errors)));
            }
        };
        if !codegen {
            return "accepted".to_string();
        }
        let mut t = String::from("(types");
        for chunk in hir.module.iter() {
            if let Expr::Def(def) = chunk {
                if let Signature::Var(v) = &def.sig {
                    t.push_str(&format!(" ({} {})", quote(v.ident.inspect()), quote(&format!("{}", v.ident.vi.t))));
                }
            }
        }
        t.push(')');
        let path = format!("{}/{}.pyc", outc, sanitise(&idc));
        match code.dump_as_pyc(&path, Some(3495)) {
            Ok(()) => format!("{} (pyc {})", t, quote(&path)),
            Err(e) => format!("{} (pyc-error {})", t, quote(&e.to_string())),
        }
    });
    let outp = match res {
        Ok(s) => s,
        Err(e) => format!("crash({})", quote(&e)),
    };
    format!("{}\t(src {})\t{}", id, quote(src), outp)
}

fn main() {
    quiet_panics();
    let a = parse_args();
    let mut out = std::env::temp_dir().to_string_lossy().to_string();
    let mut i = 0;
    while i < a.rest.len() {
        if a.rest[i] == "--out" && i + 1 < a.rest.len() {
            out = a.rest[i + 1].clone();
            i += 1;
        }
        i += 1;
    }
    let codegen = a.mode != "check";
    let cases = stdin_cases();
    let n = cases.len();
    let cases = std::sync::Arc::new(cases);
    let next = std::sync::Arc::new(std::sync::atomic::AtomicUsize::new(0));
    let results = std::sync::Arc::new(std::sync::Mutex::new(vec![String::new(); n]));
    let mut handles = vec![];
    let workers: usize = std::env::var("C34_WORKERS").ok().and_then(|s| s.parse().ok()).unwrap_or(6);
    for _ in 0..workers {
        let (cases, next, results, out) = (cases.clone(), next.clone(), results.clone(), out.clone());
        handles.push(
            std::thread::Builder::new()
                .stack_size(64 * 1024 * 1024)
                .spawn(move || loop {
                    let i = next.fetch_add(1, std::sync::atomic::Ordering::SeqCst);
                    if i >= cases.len() {
                        break;
                    }
                    let (id, input) = &cases[i];
                    let inner = input.trim().strip_prefix("(src ").and_then(|s| s.strip_suffix(")")).unwrap_or("");
                    let line = match unquote(inner) {
                        Some(p) => run_case(id, &p, &out, codegen),
                        None => format!("{}\t{}\tbad-input", id, input),
                    };
                    results.lock().unwrap()[i] = line;
                })
                .unwrap(),
        );
    }
    for h in handles {
        h.join().unwrap();
    }
    for l in results.lock().unwrap().iter() {
        println!("{}", l);
    }
}
