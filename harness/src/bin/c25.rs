//! C25: REPL wire format of src/dummy.rs through `erg::verif_hooks` over an in-memory `Read + Write` whose reads and
//! writes are split by generated schedules; generator of the cases for the Python end too; end-to-end `DummyVM::eval`.
//!
//! line: id \t <case> \t <impl output | ? (to be run by py/c25_fake_socket.py)>
//! cases: see lean/Driver/C25.lean.  bytes ::= "hex" | (rep N B) | (cat bytes…)
//!
//! `c25 e2e --py <python> <step>…` runs one history against a real server process (step = out:<n> | src:<n>):
//!   step k of kind out prints a tagged line of n characters, of kind src evaluates `len` of an n-character literal.
use erg::verif_hooks as hooks;
use erg_harness::*;
use std::io::{Read, Write};

// ------------------------------------------------------------------------------------------------- stream

/// in-memory stream: the k-th read returns a non-empty prefix of what is in flight, at most the buffer and at most
/// max(1, k-th schedule entry) bytes (exhausted schedule: as much as asked); writes likewise. Mirrors ErgVerif.C25.Sock/WSock.
struct ChunkStream {
    data: Vec<u8>,
    pos: usize,
    rsched: std::collections::VecDeque<usize>,
    wsched: std::collections::VecDeque<usize>,
    written: Vec<u8>,
}

impl ChunkStream {
    fn new(data: Vec<u8>, rsched: &[usize], wsched: &[usize]) -> Self {
        ChunkStream { data, pos: 0, rsched: rsched.iter().cloned().collect(), wsched: wsched.iter().cloned().collect(), written: vec![] }
    }
}

impl Read for ChunkStream {
    fn read(&mut self, buf: &mut [u8]) -> std::io::Result<usize> {
        let n = buf.len();
        let cap = match self.rsched.pop_front() { Some(c) => std::cmp::max(1, std::cmp::min(c, n)), None => n };
        let k = std::cmp::min(std::cmp::min(cap, n), self.data.len() - self.pos);
        buf[..k].copy_from_slice(&self.data[self.pos..self.pos + k]);
        self.pos += k;
        Ok(k)
    }
}

impl Write for ChunkStream {
    fn write(&mut self, buf: &[u8]) -> std::io::Result<usize> {
        let n = buf.len();
        let cap = match self.wsched.pop_front() { Some(c) => std::cmp::max(1, std::cmp::min(c, n)), None => n };
        let k = std::cmp::min(cap, n);
        self.written.extend_from_slice(&buf[..k]);
        Ok(k)
    }
    fn flush(&mut self) -> std::io::Result<()> { Ok(()) }
}

// ------------------------------------------------------------------------------------------------- byte expressions

#[derive(Clone, Debug)]
enum BExpr { Hex(Vec<u8>), Rep(usize, u8), Cat(Vec<BExpr>) }

impl BExpr {
    fn eval(&self) -> Vec<u8> {
        match self {
            BExpr::Hex(v) => v.clone(),
            BExpr::Rep(n, b) => vec![*b; *n],
            BExpr::Cat(xs) => xs.iter().flat_map(|x| x.eval()).collect(),
        }
    }
    fn show(&self) -> String {
        match self {
            BExpr::Hex(v) => format!("\"{}\"", hex(v)),
            BExpr::Rep(n, b) => format!("(rep {} {})", n, b),
            BExpr::Cat(xs) => format!("(cat {})", xs.iter().map(|x| x.show()).collect::<Vec<_>>().join(" ")),
        }
    }
}

fn hex(v: &[u8]) -> String { v.iter().map(|b| format!("{:02x}", b)).collect() }

fn fnv(b: &[u8]) -> u64 {
    let mut h: u64 = 0xcbf29ce484222325;
    for x in b { h ^= *x as u64; h = h.wrapping_mul(0x100000001b3); }
    h
}

/// canonical printing of a byte string (mirrors the Lean driver and the Python helper)
fn pb(b: &[u8]) -> String {
    if b.len() <= 48 { format!("\"{}\"", hex(b)) }
    else { format!("(big {} {:016x} \"{}\" \"{}\")", b.len(), fnv(b), hex(&b[..8]), hex(&b[b.len() - 8..])) }
}

// ------------------------------------------------------------------------------------------------- s-expressions (replay)

#[derive(Clone, Debug)]
enum Sx { Atom(String), Str(String), List(Vec<Sx>) }

fn parse_sx(s: &str) -> Option<Sx> {
    let cs: Vec<char> = s.chars().collect();
    let mut pos = 0;
    fn skip(cs: &[char], pos: &mut usize) { while *pos < cs.len() && cs[*pos].is_whitespace() { *pos += 1; } }
    fn one(cs: &[char], pos: &mut usize) -> Option<Sx> {
        skip(cs, pos);
        if *pos >= cs.len() { return None; }
        match cs[*pos] {
            '(' => {
                *pos += 1;
                let mut xs = vec![];
                loop {
                    skip(cs, pos);
                    if *pos >= cs.len() { return None; }
                    if cs[*pos] == ')' { *pos += 1; return Some(Sx::List(xs)); }
                    xs.push(one(cs, pos)?);
                }
            }
            '"' => {
                let mut j = *pos + 1;
                while j < cs.len() && cs[j] != '"' { j += 1; }
                if j >= cs.len() { return None; }
                let v: String = cs[*pos + 1..j].iter().collect();
                *pos = j + 1;
                Some(Sx::Str(v))
            }
            ')' => None,
            _ => {
                let mut j = *pos;
                while j < cs.len() && !cs[j].is_whitespace() && cs[j] != '(' && cs[j] != ')' && cs[j] != '"' { j += 1; }
                let v: String = cs[*pos..j].iter().collect();
                *pos = j;
                Some(Sx::Atom(v))
            }
        }
    }
    one(&cs, &mut pos)
}

fn sx_bytes(x: &Sx) -> Option<BExpr> {
    match x {
        Sx::Str(h) => {
            if h.len() % 2 != 0 { return None; }
            let mut v = vec![];
            for i in (0..h.len()).step_by(2) { v.push(u8::from_str_radix(&h[i..i + 2], 16).ok()?); }
            Some(BExpr::Hex(v))
        }
        Sx::List(xs) => match xs.first()? {
            Sx::Atom(a) if a == "rep" => {
                let n = if let Sx::Atom(n) = xs.get(1)? { n.parse().ok()? } else { return None };
                let b: usize = if let Sx::Atom(b) = xs.get(2)? { b.parse().ok()? } else { return None };
                if b > 255 { return None; }
                Some(BExpr::Rep(n, b as u8))
            }
            Sx::Atom(a) if a == "cat" => Some(BExpr::Cat(xs[1..].iter().map(sx_bytes).collect::<Option<Vec<_>>>()?)),
            _ => None,
        },
        _ => None,
    }
}

fn sx_field<'a>(xs: &'a [Sx], key: &str) -> Option<&'a [Sx]> {
    for x in xs {
        if let Sx::List(ys) = x {
            if let Some(Sx::Atom(k)) = ys.first() { if k == key { return Some(&ys[1..]); } }
        }
    }
    None
}

fn sx_nats(xs: &[Sx]) -> Option<Vec<usize>> {
    xs.iter().map(|x| if let Sx::Atom(a) = x { a.parse().ok() } else { None }).collect()
}

// ------------------------------------------------------------------------------------------------- running the Rust end

fn run_rtx(inst: usize, data: Option<Vec<u8>>, wsched: &[usize]) -> (String, Vec<u8>, bool) {
    let wsched = wsched.to_vec();
    match catch(move || {
        let (s, r) = hooks::send(ChunkStream::new(vec![], &[], &wsched), inst as u8, data);
        (s.written, r)
    }) {
        Ok((w, Ok(()))) => (format!("(wire {}) ok", pb(&w)), w, true),
        Ok((w, Err(e))) => (format!("(wire {}) (err {})", pb(&w), quote(&e)), w, false),
        Err(e) => (format!("crash({})", quote(&e)), vec![], false),
    }
}

fn run_rrx(wire: Vec<u8>, rsched: &[usize], n: usize) -> String {
    let rsched = rsched.to_vec();
    match catch(move || hooks::recv_all(ChunkStream::new(wire, &rsched, &[]), n)) {
        Ok(rs) => {
            let items: Vec<String> = rs.iter().map(|r| match r {
                Ok((i, size, None)) => format!("(msg {} {} none)", i, size),
                Ok((i, size, Some(d))) => format!("(msg {} {} {})", i, size, pb(d)),
                Err(e) => format!("(err {})", quote(e)),
            }).collect();
            if items.is_empty() { "()".to_string() } else { items.join(" ") }
        }
        Err(e) => format!("crash({})", quote(&e)),
    }
}

fn run_instfrom() -> String {
    let vals: Vec<String> = (0..=255u8).map(|v| hooks::inst_from(v).to_string()).collect();
    let names = ["Unknown", "Print", "Load", "Exception", "Initialize", "Exit", "Execute"];
    let codes: Vec<String> = names.iter().map(|n| hooks::inst_code(n).map(|c| c.to_string()).unwrap_or("missing".into())).collect();
    format!("(from {}) (codes {})", vals.join(" "), codes.join(" "))
}

fn show_sched(s: &[usize]) -> String { s.iter().map(|v| v.to_string()).collect::<Vec<_>>().join(" ") }

fn emit(id: &str, input: &str, out: &str) { println!("{}\t{}\t{}", id, input, out); }

// ------------------------------------------------------------------------------------------------- generator

fn gen_sched(rng: &mut Rng, total: usize) -> Vec<usize> {
    match rng.below(9) {
        0 => vec![],
        1 => vec![1; rng.range(1, 24) as usize],
        2 => (0..rng.range(1, 30)).map(|_| rng.range(1, 8) as usize).collect(),
        3 => (0..4).map(|_| rng.range(1, 9) as usize).collect(),
        4 => (0..rng.range(1, 20)).map(|_| rng.below(4) as usize).collect(),
        5 => (0..rng.range(1, 10)).map(|_| *rng.pick(&[1usize, 3, 1000, 65535, 65536, 100000])).collect(),
        6 => { let mut v = if rng.chance(1, 2) { vec![1, 1, 1] } else { vec![2, 1] }; v.push(1 + rng.below(70000) as usize); v }
        7 => (0..rng.range(1, 6)).map(|_| 1 + rng.below(std::cmp::max(total, 1) as u64) as usize).collect(),
        _ => vec![2, 8, 3, 8],
    }
}

const CHARS: &[char] = &['a', 'Z', '0', ' ', '\n', '(', '\'', '\\', '\u{7f}', '\u{80}', 'é', '\u{7ff}', '\u{800}', 'あ', '\u{d7ff}',
    '\u{e000}', '\u{ffff}', '\u{10000}', '😀', '\u{10ffff}', '\0'];

fn gen_size(rng: &mut Rng, allow_big: bool) -> usize {
    let p = rng.below(100);
    if p < 48 { rng.below(13) as usize }
    else if p < 66 { *rng.pick(&[0usize, 1, 2, 3, 255, 256, 257]) }
    else if p < 84 { rng.range(100, 2000) as usize }
    else if !allow_big { rng.range(14, 99) as usize }
    else if p < 92 { *rng.pick(&[65534usize, 65535]) }
    else if p < 97 { *rng.pick(&[65536usize, 65537, 70000]) }
    else { *rng.pick(&[131071usize, 200000]) }
}

/// a payload of exactly `size` bytes; (expression, is valid UTF-8)
fn gen_payload(rng: &mut Rng, size: usize, want_utf8: bool) -> (BExpr, bool) {
    if size > 64 {
        // compact: a run of one ASCII byte, then a short tail (multi-byte characters, or raw bytes)
        let mut tail: Vec<u8> = vec![];
        let raw = !want_utf8 && rng.chance(1, 3);
        if raw { for _ in 0..rng.range(1, 8) { tail.push(rng.below(256) as u8); } }
        else {
            for _ in 0..rng.below(4) { let mut b = [0u8; 4]; tail.extend_from_slice(rng.pick(CHARS).encode_utf8(&mut b).as_bytes()); }
        }
        while tail.len() > size { tail.pop(); }
        let valid = std::str::from_utf8(&tail).is_ok();
        if !valid && want_utf8 { tail = vec![b'!'; tail.len()]; }
        let valid = std::str::from_utf8(&tail).is_ok();
        let b = *rng.pick(&[b'a', b'x', b' ', b'\n', b'0']);
        let e = if tail.is_empty() { BExpr::Rep(size, b) } else { BExpr::Cat(vec![BExpr::Rep(size - tail.len(), b), BExpr::Hex(tail)]) };
        return (e, valid);
    }
    let kind = rng.below(if want_utf8 { 2 } else { 3 });
    let mut v: Vec<u8> = vec![];
    match kind {
        0 => { for _ in 0..size { v.push(b'a' + rng.below(26) as u8); } }
        1 => {
            while v.len() < size {
                let mut b = [0u8; 4];
                let s = rng.pick(CHARS).encode_utf8(&mut b).as_bytes().to_vec();
                if v.len() + s.len() <= size { v.extend_from_slice(&s); } else { v.push(b'.'); }
            }
        }
        _ => { for _ in 0..size { v.push(rng.below(256) as u8); } }
    }
    let valid = std::str::from_utf8(&v).is_ok();
    (BExpr::Hex(v), valid)
}

fn gen_inst(rng: &mut Rng) -> usize {
    if rng.chance(5, 6) { rng.below(7) as usize } else { *rng.pick(&[7usize, 8, 97, 128, 255]) }
}

/// Python-style (ideal) frame header for a payload that fits
fn header(inst: usize, len: usize) -> Vec<u8> { vec![inst as u8, (len / 256) as u8, (len % 256) as u8] }

fn gen_cases(seed: u64, n: usize, _tier: &str) {
    let mut rng = Rng::new(seed);
    emit("inst", "(instfrom)", &run_instfrom());
    for i in 0..n {
        match i % 10 {
            0 | 1 => {
                // Rust tx, and the chained Python rx on the bytes really written
                let inst = gen_inst(&mut rng);
                let none = rng.chance(1, 8);
                let size = gen_size(&mut rng, true);
                let want = rng.chance(5, 6);
                let (pe, valid) = gen_payload(&mut rng, size, want);
                let ws = gen_sched(&mut rng, size + 3);
                let data = if none { None } else { Some(pe.eval()) };
                let input = format!("(rtx (inst {}) (data {}) (wsched {}))", inst, if none { "none".to_string() } else { pe.show() }, show_sched(&ws));
                let (out, wire, ok) = run_rtx(inst, data.clone(), &ws);
                emit(&format!("g{}", i), &input, &out);
                if ok && wire.len() >= 3 {
                    let body = data.unwrap_or_default();
                    let wexpr = if wire[3..] == body[..] {
                        if body.is_empty() { BExpr::Hex(wire.clone()) } else { BExpr::Cat(vec![BExpr::Hex(wire[..3].to_vec()), if none { BExpr::Hex(vec![]) } else { pe.clone() }]) }
                    } else { BExpr::Hex(wire.clone()) };
                    let rs = gen_sched(&mut rng, wire.len());
                    let sent = if valid { format!(" (sent ({} {}))", hooks::inst_from(inst as u8), if none { "\"\"".to_string() } else { pe.show() }) } else { String::new() };
                    let cin = format!("(prx (wire {}) (rsched {}) (n 2){})", wexpr.show(), show_sched(&rs), sent);
                    emit(&format!("c:g{}", i), &cin, "?");
                }
            }
            2 | 3 => {
                // Python tx (run by the helper, which also emits the chained Rust rx)
                let inst = if rng.chance(1, 25) { *rng.pick(&[256usize, 300, 65536]) } else { gen_inst(&mut rng) };
                let size = gen_size(&mut rng, true);
                let (pe, _) = gen_payload(&mut rng, size, true);
                let ws = gen_sched(&mut rng, size + 3);
                emit(&format!("g{}", i), &format!("(ptx (inst {}) (text {}) (wsched {}))", inst, pe.show(), show_sched(&ws)), "?");
            }
            9 => {
                // the whole server script on one connection: 1..5 requests really framed by the Rust sender, then Exit or end of stream
                let cnt = rng.range(1, 5) as usize;
                let mut parts: Vec<BExpr> = vec![];
                let mut reqs: Vec<String> = vec![];
                let mut var: Option<u64> = None;
                let mut big_seen = false;
                for _ in 0..cnt {
                    let kind = rng.below(12);
                    let (inst, script, resp): (usize, BExpr, Option<(usize, BExpr)>) = match kind {
                        0 => (*rng.pick(&[0usize, 1, 3, 4, 7, 200]), BExpr::Hex(b"pass".to_vec()), None),
                        1 => (6, BExpr::Hex(b"pass".to_vec()), Some((1, BExpr::Hex(b"\nNone".to_vec())))),
                        2 => { let v = rng.below(100000); var = Some(v);
                               (6, BExpr::Hex(format!("v = {}", v).into_bytes()), Some((1, BExpr::Hex(b"\nNone".to_vec())))) }
                        3 if var.is_some() => (6, BExpr::Hex(b"print(v)".to_vec()), Some((1, BExpr::Hex(format!("{}\nNone", var.unwrap()).into_bytes())))),
                        4 => (6, BExpr::Hex(b"raise SystemExit".to_vec()), Some((3, BExpr::Hex(b"SystemExit".to_vec())))),
                        5 => { let n = rng.range(1, 9) as usize;      // multi-byte output
                               (6, BExpr::Hex(format!("print('\u{3042}'*{})", n).into_bytes()), Some((1, BExpr::Hex(format!("{}\nNone", "\u{3042}".repeat(n)).into_bytes())))) }
                        6 => { let n = rng.range(1, 3000) as usize;   // long script (a comment), short answer
                               (6, BExpr::Cat(vec![BExpr::Hex(b"print(1) #".to_vec()), BExpr::Rep(n, b'c')]), Some((1, BExpr::Hex(b"1\nNone".to_vec())))) }
                        _ => {
                            let mut n = gen_size(&mut rng, !big_seen);
                            if n > 60000 { big_seen = true; }
                            if n >= 65531 && n <= 65535 { n = 65530; }            // answer = n + 5 bytes: 65535 fits exactly
                            if n == 65534 { n = 65530; }
                            let resp = if n == 0 { BExpr::Hex(b"\nNone".to_vec()) } else { BExpr::Cat(vec![BExpr::Rep(n, b'a'), BExpr::Hex(b"\nNone".to_vec())]) };
                            (6, BExpr::Hex(format!("print('a'*{})", n).into_bytes()), Some((1, resp)))
                        }
                    };
                    let body = script.eval();
                    let (_, wire, ok) = run_rtx(inst, Some(body.clone()), &[]);
                    if ok && wire.len() >= 3 && wire[3..] == body[..] { parts.push(BExpr::Hex(wire[..3].to_vec())); parts.push(script.clone()); }
                    else { parts.push(BExpr::Hex(wire)); }
                    reqs.push(match resp {
                        Some((ri, rb)) => format!("({} {} {} {})", hooks::inst_from(inst as u8), script.show(), ri, rb.show()),
                        None => format!("({} {})", hooks::inst_from(inst as u8), script.show()),
                    });
                }
                if rng.chance(3, 4) {
                    let (_, wire, _) = run_rtx(5, None, &[]);
                    parts.push(BExpr::Hex(wire));
                    reqs.push("(5 \"\")".to_string());
                }
                let wire = BExpr::Cat(parts);
                let total = wire.eval().len();
                let rs = gen_sched(&mut rng, total);
                let ws = gen_sched(&mut rng, 70000);
                emit(&format!("g{}", i), &format!("(srv (wire {}) (rsched {}) (wsched {}) (reqs {}))", wire.show(), show_sched(&rs), show_sched(&ws), reqs.join(" ")), "?");
            }
            k => {
                // a receiver on a stream of 1..4 frames, sometimes damaged
                let py_rx = k >= 7;
                let cnt = rng.range(1, 4) as usize;
                let mut parts: Vec<BExpr> = vec![];
                let mut sent: Vec<String> = vec![];
                let mut all_valid = true;
                let mut big_seen = false;
                for _ in 0..cnt {
                    let inst = gen_inst(&mut rng);
                    let half = rng.chance(1, 2);
                    let size = gen_size(&mut rng, !big_seen && (py_rx || half));
                    let size = if !py_rx && size > 65535 { 65535 } else { size };   // the Python sender has no frame above 65535
                    if size > 60000 { big_seen = true; }
                    let mostly = rng.chance(7, 8);
                    let (pe, valid) = gen_payload(&mut rng, size, !py_rx || mostly);
                    all_valid &= valid;
                    if py_rx {
                        // the bytes the Rust sender really writes for this message
                        let (_, wire, ok) = run_rtx(inst, Some(pe.eval()), &[]);
                        let body = pe.eval();
                        if ok && wire.len() >= 3 && wire[3..] == body[..] { parts.push(BExpr::Hex(wire[..3].to_vec())); parts.push(pe.clone()); }
                        else { parts.push(BExpr::Hex(wire)); }
                        sent.push(format!("({} {})", hooks::inst_from(inst as u8), pe.show()));
                    } else {
                        parts.push(BExpr::Hex(header(inst, size)));
                        parts.push(pe.clone());
                        sent.push(format!("({} {})", inst, pe.show()));
                    }
                }
                let mut annotate = all_valid || !py_rx;
                let damage = rng.below(10);
                if damage == 0 {
                    // truncate the stream somewhere
                    let full = BExpr::Cat(parts.clone()).eval();
                    let cut = rng.below(full.len() as u64 + 1) as usize;
                    if full.len() <= 4096 { parts = vec![BExpr::Hex(full[..cut].to_vec())]; annotate = false; }
                } else if damage == 1 {
                    let mut g = vec![];
                    for _ in 0..rng.range(1, 6) { g.push(rng.below(256) as u8); }
                    parts.push(BExpr::Hex(g));
                } else if damage == 2 {
                    // raw bytes, no structure
                    let mut g = vec![];
                    for _ in 0..rng.range(0, 12) { g.push(rng.below(8) as u8); }
                    parts = vec![BExpr::Hex(g)];
                    annotate = false;
                }
                let wire = BExpr::Cat(parts);
                let total = wire.eval().len();
                let rs = gen_sched(&mut rng, total);
                let n = cnt + rng.below(2) as usize;
                let sent_s = if annotate { format!(" (sent {})", sent.join(" ")) } else { String::new() };
                let input = format!("({} (wire {}) (rsched {}) (n {}){})", if py_rx { "prx" } else { "rrx" }, wire.show(), show_sched(&rs), n, sent_s);
                if py_rx { emit(&format!("g{}", i), &input, "?"); } else { emit(&format!("g{}", i), &input, &run_rrx(wire.eval(), &rs, n)); }
            }
        }
    }
}

// ------------------------------------------------------------------------------------------------- replay

fn replay_case(id: &str, input: &str) {
    let out = (|| -> Option<String> {
        let sx = parse_sx(input)?;
        let xs = if let Sx::List(xs) = &sx { xs } else { return None };
        let kind = if let Sx::Atom(k) = xs.first()? { k.as_str() } else { return None };
        let args = &xs[1..];
        match kind {
            "instfrom" => Some(run_instfrom()),
            "rtx" => {
                let inst = sx_nats(sx_field(args, "inst")?)?.first().cloned()?;
                let d = sx_field(args, "data")?.first()?;
                let data = if let Sx::Atom(a) = d { if a == "none" { None } else { return None } } else { Some(sx_bytes(d)?.eval()) };
                let ws = sx_nats(sx_field(args, "wsched")?)?;
                Some(run_rtx(inst, data, &ws).0)
            }
            "rrx" => {
                let wire = sx_bytes(sx_field(args, "wire")?.first()?)?.eval();
                let rs = sx_nats(sx_field(args, "rsched")?)?;
                let n = sx_nats(sx_field(args, "n")?)?.first().cloned()?;
                Some(run_rrx(wire, &rs, n))
            }
            "ptx" | "prx" | "srv" | "ptx-legacy" | "prx-legacy" => Some("?".to_string()),
            _ => None,
        }
    })();
    emit(id, input, &out.unwrap_or_else(|| "bad-input".to_string()));
}

// ------------------------------------------------------------------------------------------------- end to end

fn e2e(rest: &[String]) {
    use erg::DummyVM;
    use erg_common::config::ErgConfig;
    use erg_common::python_util::{detect_magic_number, get_python_version};
    let mut py: Option<String> = None;
    let mut steps: Vec<(String, usize)> = vec![];
    let mut i = 0;
    while i < rest.len() {
        if rest[i] == "--py" { py = Some(rest[i + 1].clone()); i += 2; continue; }
        let mut it = rest[i].splitn(2, ':');
        let k = it.next().unwrap().to_string();
        let n: usize = it.next().unwrap_or("0").parse().unwrap();
        steps.push((k, n));
        i += 1;
    }
    let mut cfg = ErgConfig { quiet_repl: true, ..Default::default() };
    if let Some(p) = py {
        cfg.py_magic_num = Some(detect_magic_number(&p));
        cfg.target_version = get_python_version(&p);
        cfg.py_command = Some(Box::leak(p.into_boxed_str()));
    }
    let mut vm = DummyVM::new(cfg);
    let out = std::io::stdout();
    for (k, (kind, n)) in steps.iter().enumerate() {
        let (src, expected) = match kind.as_str() {
            "out" => (format!("print! \"s{}:\" + \"a\" * {}", k, n), format!("s{}:{}", k, "a".repeat(*n))),
            "src" => (format!("print! \"s{}:\", len(\"{}\")", k, "b".repeat(*n)), format!("s{}: {}", k, n)),
            // observations outside the framing (see notes/C25.md): output without a final newline, an exception
            "noeol" => (format!("print! \"s{}:\" + \"a\" * {}, end:=\"\"", k, n), format!("s{}:{}", k, "a".repeat(*n))),
            "exc" => (format!("print! \"s{}:\", 1 // ({} - {})", k, n, n), format!("s{}: <ZeroDivisionError>", k)),
            _ => { println!("bad-step"); return; }
        };
        let got = match vm.eval(src) {
            Ok(s) => s,
            Err(es) => format!("<compile-error {}>", es.len()),
        };
        let verdict = if got == expected { "ok" } else { "MISMATCH" };
        let mut o = out.lock();
        writeln!(o, "step {} {}:{}\texpected {}\tgot {}\t{}", k, kind, n, pb(expected.as_bytes()), pb(got.as_bytes()), verdict).unwrap();
        if std::env::var("C25_E2E_SHOW").is_ok() { writeln!(o, "  got text: {:?}", got.chars().take(300).collect::<String>()).unwrap(); }
        o.flush().unwrap();
    }
    drop(vm);
    println!("done");
}

fn main() {
    quiet_panics();
    let a = parse_args();
    match a.mode.as_str() {
        "gen" => gen_cases(a.seed, a.n, &a.tier),
        "replay" => { for (id, input) in stdin_cases() { replay_case(&id, &input); } }
        "e2e" => { let av: Vec<String> = std::env::args().skip(2).collect(); e2e(&av); }
        _ => { eprintln!("usage: c25 gen|replay|e2e"); std::process::exit(2); }
    }
}
