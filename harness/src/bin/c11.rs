//! C11: operator expressions parsed by the real lexer + `Parser` (no desugaring), printed as S-expressions.
//!   c11 dump                              -> lines `spelling \t TokenKind \t TokenCategory \t precedence|none` (T-gen source)
//!   c11 gen --seed S --n N --tier T       -> id \t (src "<text>") \t (toks …) (ok <ast>…)|(err)|(lexerr)
//!   c11 replay                            -> same for `id \t (src "<text>")` lines on stdin
use erg_harness::*;
use erg_parser::ast::{Accessor, Args, Expr, Signature, Tuple, VarPattern};
use erg_parser::lex::Lexer;
use erg_parser::token::{Token, TokenKind};
use erg_parser::Parser;

// ------------------------------------------------------------------------------------------- printing

fn args_sexp(a: &Args, o: &mut String) -> bool {
    if a.var_args.is_some() || !a.kw_args.is_empty() || a.kw_var_args.is_some() {
        return false;
    }
    for p in a.pos_args.iter() {
        o.push(' ');
        expr_sexp(&p.expr, o);
    }
    true
}

fn expr_sexp(e: &Expr, o: &mut String) {
    match e {
        Expr::Literal(l) => {
            o.push_str("(lit ");
            o.push_str(&quote(&l.token.content));
            o.push(')');
        }
        Expr::Accessor(Accessor::Ident(i)) => {
            o.push_str("(id ");
            o.push_str(&quote(i.inspect()));
            o.push(')');
        }
        Expr::Accessor(Accessor::Attr(a)) => {
            o.push_str("(attr ");
            expr_sexp(&a.obj, o);
            o.push(' ');
            o.push_str(&quote(a.ident.inspect()));
            o.push(')');
        }
        Expr::Accessor(Accessor::Subscr(s)) => {
            o.push_str("(idx ");
            expr_sexp(&s.obj, o);
            o.push(' ');
            expr_sexp(&s.index, o);
            o.push(')');
        }
        Expr::Accessor(Accessor::TupleAttr(t)) => {
            o.push_str("(tattr ");
            expr_sexp(&t.obj, o);
            o.push(' ');
            o.push_str(&quote(&t.index.token.content));
            o.push(')');
        }
        Expr::BinOp(b) => {
            o.push_str(&format!("(bin {:?} ", b.op.kind));
            expr_sexp(&b.args[0], o);
            o.push(' ');
            expr_sexp(&b.args[1], o);
            o.push(')');
        }
        Expr::UnaryOp(u) => {
            o.push_str(&format!("(un {:?} ", u.op.kind));
            expr_sexp(&u.args[0], o);
            o.push(')');
        }
        Expr::Call(c) => {
            let mut s = String::from("(call ");
            expr_sexp(&c.obj, &mut s);
            match &c.attr_name {
                Some(i) => {
                    s.push(' ');
                    s.push_str(&quote(i.inspect()));
                }
                None => s.push_str(" -"),
            }
            if args_sexp(&c.args, &mut s) {
                s.push(')');
                o.push_str(&s);
            } else {
                o.push_str("(other CallWithNonPosArgs)");
            }
        }
        Expr::Tuple(Tuple::Normal(t)) => {
            let mut s = String::from("(tuple");
            if args_sexp(&t.elems, &mut s) {
                s.push(')');
                o.push_str(&s);
            } else {
                o.push_str("(other TupleWithNonPosArgs)");
            }
        }
        Expr::Def(d) => match &d.sig {
            Signature::Var(v) if v.t_spec.is_none() => match &v.pat {
                VarPattern::Ident(i) => {
                    o.push_str("(def ");
                    o.push_str(&quote(i.inspect()));
                    for e in d.body.block.iter() {
                        o.push(' ');
                        expr_sexp(e, o);
                    }
                    o.push(')');
                }
                _ => o.push_str("(other DefPattern)"),
            },
            _ => o.push_str("(other DefSig)"),
        },
        other => {
            o.push_str("(other ");
            o.push_str(other.name());
            o.push(')');
        }
    }
}

fn toks_sexp(ts: &[Token]) -> String {
    let mut o = String::from("(toks");
    let mut prev_end: Option<(u32, u32)> = None; // (line, col_end)
    for t in ts {
        if t.kind == TokenKind::EOF {
            continue;
        }
        let sp = match prev_end {
            None => t.col_begin != 0,
            Some((l, c)) => l != t.lineno || c != t.col_begin,
        };
        o.push_str(&format!(" ({:?} {} {})", t.kind, quote(&t.content), if sp { 1 } else { 0 }));
        prev_end = Some((t.lineno, t.col_end));
    }
    o.push(')');
    o
}

fn run_src(src: &str) -> String {
    let s = src.to_string();
    match catch(move || {
        let ts = match Lexer::from_str(s).lex() {
            Ok(ts) => ts,
            Err(_) => return "(lexerr)".to_string(),
        };
        let toks: Vec<Token> = ts.clone().into_iter().collect();
        let mut out = toks_sexp(&toks);
        match Parser::new(ts).parse() {
            Ok(art) => {
                out.push_str(" (ok");
                for e in art.ast.into_iter() {
                    out.push(' ');
                    expr_sexp(&e, &mut out);
                }
                out.push(')');
            }
            Err(_) => out.push_str(" (err)"),
        }
        out
    }) {
        Ok(s) => s,
        Err(e) => format!("crash({})", quote(&e)),
    }
}

fn run_case(id: &str, src: &str) {
    println!("{}\t(src {})\t{}", id, quote(src), run_src(src));
}

// ------------------------------------------------------------------------------------------- table dump

/// every operator spelling of the property's table, lexed in a context that makes it binary (`x OP y`) or prefix (`OP x`)
const BIN_SPELLINGS: &[&str] = &[
    "**", "*", "/", "//", "%", "+", "-", "<<", ">>", "&&", "^^", "||", "..", "<..", "..<", "<..<", "<", ">", "<=", ">=",
    "==", "!=", "in", "notin", "contains", "is!", "isnot!", "and", "or",
];
const PRE_SPELLINGS: &[&str] = &["+", "-", "~"];

fn lex_kinds(src: &str) -> Vec<Token> {
    match Lexer::from_str(src.to_string()).lex() {
        Ok(ts) => ts.into_iter().collect(),
        Err((ts, _)) => ts.into_iter().collect(),
    }
}

fn dump() {
    for sp in BIN_SPELLINGS {
        let ts = lex_kinds(&format!("x {} y", sp));
        match ts.get(1) {
            Some(t) => println!("bin\t{}\t{:?}\t{:?}\t{}", sp, t.kind, t.kind.category(),
                t.kind.precedence().map(|p| p.to_string()).unwrap_or("none".into())),
            None => println!("bin\t{}\tNONE\tNONE\tnone", sp),
        }
    }
    for sp in PRE_SPELLINGS {
        let ts = lex_kinds(&format!("{}x", sp));
        match ts.first() {
            Some(t) => println!("pre\t{}\t{:?}\t{:?}\t{}", sp, t.kind, t.kind.category(),
                t.kind.precedence().map(|p| p.to_string()).unwrap_or("none".into())),
            None => println!("pre\t{}\tNONE\tNONE\tnone", sp),
        }
    }
    // member access
    let ts = lex_kinds("x.y");
    if let Some(t) = ts.get(1) {
        println!("post\t.\t{:?}\t{:?}\t{}", t.kind, t.kind.category(),
            t.kind.precedence().map(|p| p.to_string()).unwrap_or("none".into()));
    }
}

// ------------------------------------------------------------------------------------------- generator

struct Gen {
    rng: Rng,
}

fn pk(rng: &mut Rng, xs: &[&'static str]) -> &'static str {
    xs[rng.below(xs.len() as u64) as usize]
}

const IDENTS: &[&str] = &["x", "y", "f", "g", "ab", "z1"];
const LITS: &[&str] = &["0", "1", "2", "10", "42"];
const ATTRS: &[&str] = &["m", "n", "len"];
/// one representative per precedence class (top to bottom), used for exhaustive class triples
const CLASS_REPS: &[&str] = &["**", "*", "+", "<<", "&&", "^^", "||", "..", "<", "and", "or"];

impl Gen {
    fn atom(&mut self) -> String {
        if self.rng.chance(2, 3) { pk(&mut self.rng, IDENTS).to_string() } else { pk(&mut self.rng, LITS).to_string() }
    }
    fn args(&mut self, depth: u32) -> String {
        let n = self.rng.below(3);
        let mut v = vec![];
        for _ in 0..n {
            v.push(self.expr(depth.saturating_sub(2), 1));
        }
        let sep = if self.rng.chance(1, 4) { "," } else { ", " };
        v.join(sep)
    }
    fn primary(&mut self, depth: u32) -> String {
        if depth > 0 && self.rng.chance(1, 3) {
            let inner = self.expr(depth - 1, 2);
            if self.rng.chance(1, 6) { format!("( {} )", inner) } else { format!("({})", inner) }
        } else {
            self.atom()
        }
    }
    fn postfix(&mut self, depth: u32) -> String {
        let mut s = self.primary(depth);
        let starts_with_lit = s.chars().next().map(|c| c.is_ascii_digit()).unwrap_or(false);
        if starts_with_lit {
            return s; // `1.m` is a different lexical story (lex_num_dot)
        }
        let mut k = 0;
        while self.rng.chance(1, 6) && k < 2 {
            k += 1;
            match self.rng.below(4) {
                0 => { s.push('.'); s.push_str(pk(&mut self.rng, ATTRS)); }
                1 => { s.push('.'); s.push_str(pk(&mut self.rng, ATTRS)); s.push('('); let a = self.args(depth); s.push_str(&a); s.push(')'); }
                2 => { s.push('('); let a = self.args(depth); s.push_str(&a); s.push(')'); }
                _ => { s.push('['); let a = self.expr(depth.saturating_sub(2), 1); s.push_str(&a); s.push(']'); }
            }
        }
        s
    }
    fn operand(&mut self, depth: u32) -> String {
        let mut s = String::new();
        let mut k = 0;
        while self.rng.chance(1, 5) && k < 2 {
            k += 1;
            s.push_str(pk(&mut self.rng, PRE_SPELLINGS));
            if self.rng.chance(1, 8) { s.push(' '); }
        }
        s.push_str(&self.postfix(depth));
        s
    }
    fn binop(&mut self) -> &'static str {
        // half of the time arithmetic (where the literal-minus rule and prefix/infix classification live)
        if self.rng.chance(1, 2) { pk(&mut self.rng, &BIN_SPELLINGS[..7]) } else { pk(&mut self.rng, BIN_SPELLINGS) }
    }
    fn expr(&mut self, depth: u32, maxops: u64) -> String {
        let mut s = self.operand(depth);
        let n = self.rng.below(maxops + 1);
        for _ in 0..n {
            let op = self.binop();
            let alpha = op.chars().next().unwrap().is_ascii_alphabetic();
            // spacing: symmetric (most), none, or lopsided (`x -1`, `x- 1`)
            let (l, r) = if alpha { (" ", " ") } else {
                match self.rng.below(40) {
                    0..=5 => ("", ""),
                    6 => (" ", ""),
                    7 => ("", " "),
                    8 | 9 => ("  ", " "),
                    _ => (" ", " "),
                }
            };
            s.push_str(l);
            s.push_str(op);
            s.push_str(r);
            s.push_str(&self.operand(depth));
        }
        s
    }
    fn top(&mut self) -> String {
        let d = self.rng.below(5) as u32 + 1;
        let e = self.expr(d - 1, if d <= 2 { 5 } else { 3 });
        match self.rng.below(4) {
            0 => format!("v = {}", e),
            _ => e,
        }
    }
}

fn exhaustive(tier: &str) {
    let mut id = 0usize;
    let mut emit = |s: String| {
        run_case(&format!("x{}", id), &s);
        id += 1;
    };
    let ops: Vec<&str> = BIN_SPELLINGS.to_vec();
    // (1) every ordered pair of binary operators, 2-identifier alphabet + a literal, prefix `-` on any subset of operands
    for o1 in &ops {
        for o2 in &ops {
            for mask in 0..8u32 {
                let p = |i: u32| if mask & (1 << i) != 0 { "-" } else { "" };
                emit(format!("{}x {} {}y {} {}x", p(0), o1, p(1), o2, p(2)));
            }
        }
    }
    // (2) every triple of precedence classes over 4 operands, no prefix / one prefix operator at each position
    for o1 in CLASS_REPS {
        for o2 in CLASS_REPS {
            for o3 in CLASS_REPS {
                for pos in 0..5u32 {
                    let p = |i: u32| if pos == i + 1 { "~" } else { "" };
                    emit(format!("{}x {} {}y {} {}1 {} {}x", p(0), o1, p(1), o2, p(2), o3, p(3)));
                }
            }
        }
    }
    // (3) literal-minus / prefix-infix classification: all spacings of `a OP b` for + - * ** with literal and identifier operands
    for op in ["+", "-", "*", "**"] {
        for l in ["", " ", "  "] {
            for r in ["", " ", "  "] {
                for a in ["x", "1", "(x)", "x.m", "f(y)"] {
                    for b in ["y", "1", "(y)", "-1", "-y"] {
                        emit(format!("{}{}{}{}{}", a, l, op, r, b));
                        emit(format!("v = {}{}{}{}{} * 2", a, l, op, r, b));
                    }
                }
            }
        }
    }
    // (4) parentheses and postfix forms around every class representative
    for o1 in CLASS_REPS {
        for o2 in CLASS_REPS {
            emit(format!("(x {} y) {} x", o1, o2));
            emit(format!("x {} (y {} x)", o1, o2));
            emit(format!("x.m {} y.n(x {} y) {} f(x)", o1, o2, o1));
            emit(format!("-(x {} y) {} ~x.m", o1, o2));
            emit(format!("f(x {} y, -y {} x)", o1, o2));
            emit(format!("x[y {} x] {} y", o1, o2));
        }
    }
    if tier == "thorough" {
        // all operator triples over the full alphabet would be 24k*; take all triples where two are arithmetic
        for o1 in &ops {
            for o2 in &ops {
                for o3 in &ops[..7] {
                    emit(format!("x {} y {} 1 {} x", o1, o2, o3));
                    emit(format!("x {} y {} 1 {} -x", o3, o1, o2));
                }
            }
        }
    }
}

fn main() {
    quiet_panics();
    let a = parse_args();
    match a.mode.as_str() {
        "dump" => dump(),
        "gen" => {
            exhaustive(&a.tier);
            let mut g = Gen { rng: Rng::new(a.seed) };
            for i in 0..a.n {
                let s = g.top();
                run_case(&format!("g{}", i), &s);
            }
        }
        "replay" => {
            for (id, input) in stdin_cases() {
                let inner = input.trim().strip_prefix("(src ").and_then(|s| s.strip_suffix(")")).unwrap_or("");
                match unquote(inner) {
                    Some(p) => run_case(&id, &p),
                    None => println!("{}\t{}\tbad-input", id, input),
                }
            }
        }
        _ => {
            eprintln!("usage: c11 dump|gen|replay");
            std::process::exit(2);
        }
    }
}
