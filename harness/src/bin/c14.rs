//! C14 (T-val): compile generated and fixed programs with the real pipeline for every target 3.7–3.11 and hand the marshalled code
//! object to the Lean validator. line: id \t (p <minor> "<src>") \t (nlines N) (bytes x<hex>)  |  (compile-error "...") | (crash "...")
use erg_common::python_util::PythonVersion;
use erg_harness::*;

#[path = "../c14c15/progs.rs"]
mod progs;

fn hex(b: &[u8]) -> String {
    let mut s = String::with_capacity(1 + 2 * b.len());
    s.push('x');
    for x in b { s.push_str(&format!("{:02x}", x)); }
    s
}

fn run_case(id: &str, minor: u8, src: &str) {
    let s = src.to_string();
    let out = match catch(move || progs::compile(&s, minor).map(|c| c.into_bytes(PythonVersion::new(3, Some(minor), Some(0))))) {
        Ok(Ok(b)) => format!("(nlines {}) (bytes {})", src.lines().count(), hex(&b)),
        Ok(Err(e)) => format!("(compile-error {})", quote(&e)),
        Err(m) => format!("(crash {})", quote(&m)),
    };
    println!("{}\t(p {} {})\t{}", id, minor, quote(src), out);
}

fn main() {
    quiet_panics();
    let a = parse_args();
    match a.mode.as_str() {
        "gen" => {
            let mut rng = Rng::new(a.seed);
            let mut ps = progs::fixed_programs();
            for _ in 0..a.n { ps.push(progs::gen_program(&mut rng)); }
            for (i, src) in ps.iter().enumerate() {
                for minor in progs::MINORS { run_case(&format!("p{}v{}", i, minor), minor, src); }
            }
        }
        "replay" => {
            for (id, input) in stdin_cases() {
                let toks: Vec<&str> = input.trim().trim_start_matches('(').splitn(3, ' ').collect();
                let minor: u8 = toks.get(1).and_then(|x| x.parse().ok()).unwrap_or(11);
                match toks.get(2).and_then(|x| x.strip_suffix(')')).and_then(unquote) {
                    Some(src) => run_case(&id, minor, &src),
                    None => println!("{}\t{}\tbad-input", id, input),
                }
            }
        }
        _ => { eprintln!("usage: c14 gen|replay"); std::process::exit(2); }
    }
}
