//! C13: for each (target minor version, Erg source): lower with the real front end, project the HIR the code generator
//! receives onto the stage-1 mini-HIR (as harness c01 does), run the real code generator FOR THAT TARGET and decode the
//! emitted code object (after the import prelude) into the abstract instruction form of lean/ErgVerif/C13/Model.lean.
//!
//! line:  id \t (ver <minor>) (src "<erg source>") \t (ver m) (base <byte offset of the first chunk>) (hir <stmt>…) (code <instr>…)
//!        | out-of-model(<why>) | rejected | crash("…")
//! The decoders use CPython's own opcode numbers per version (Lib/opcode.py of 3.7.16, 3.8.18, 3.9.18, 3.10.13, 3.11.7 as
//! printed by `opcode.opmap` of the installed interpreters), written down here independently of erg_common::opcode3xx.
use erg_common::config::ErgConfig;
use erg_common::io::Input;
use erg_common::python_util::PythonVersion;
use erg_common::traits::Stream;
use erg_compiler::hir::{Accessor, Expr, Signature};
use erg_compiler::ty::codeobj::CodeObj;
use erg_compiler::ty::value::ValueObj;
use erg_compiler::ty::HasType;
use erg_compiler::Compiler;
use erg_harness::*;
use erg_parser::token::TokenKind;

type R<T> = Result<T, String>;

fn ident(id: &erg_compiler::hir::Identifier) -> String {
    let loc = &id.vi.def_loc.loc;
    format!(
        "(id {} {} {} {} {} {})",
        quote(id.inspect()),
        if id.vis().is_private() { 1 } else { 0 },
        loc.ln_begin().unwrap_or(0),
        loc.col_begin().unwrap_or(0),
        quote(id.vi.py_name.as_ref().map(|s| &s[..]).unwrap_or("")),
        if id.vi.is_parameter() { 1 } else { 0 }
    )
}

/// wrapper information exactly as `emit_expr` reads it: `should_wrap()` and the derefined type's qualified name
/// The type is reported the way `emit_expr` inspects it: the *structural* variant of `ref_t().derefine()` when it is one
/// of the five builtin classes (a type variable linked to `Bool` is not `Type::Bool` and is not wrapped), otherwise
/// `other:<qualified name>` (the model wraps nothing for those and refuses the container names Bytes/List/Dict/Set).
fn winfo(e: &Expr) -> String {
    use erg_compiler::ty::Type;
    let t = e.ref_t().derefine();
    let k = match &t {
        Type::Bool => "Bool".to_string(),
        Type::Nat => "Nat".to_string(),
        Type::Int => "Int".to_string(),
        Type::Float => "Float".to_string(),
        Type::Str => "Str".to_string(),
        other => format!("other:{}", other.qual_name()),
    };
    format!("(sw {}) (ty {})", if e.should_wrap() { 1 } else { 0 }, quote(&k))
}

fn konst(v: &ValueObj) -> R<String> {
    Ok(match v {
        ValueObj::Int(i) => format!("(int {})", i),
        ValueObj::Nat(n) => format!("(int {})", n),
        ValueObj::Str(s) => format!("(str {})", quote(s)),
        ValueObj::Bool(b) => format!("(bool {})", b),
        ValueObj::None => "(none)".to_string(),
        other => return Err(format!("const:{}", other.class())),
    })
}

fn expr(e: &Expr) -> R<String> {
    let w = winfo(e);
    Ok(match e {
        Expr::Literal(l) => format!("(lit {} {})", konst(&l.value)?, w),
        Expr::Accessor(Accessor::Ident(id)) => format!("(var {} {})", ident(id), w),
        Expr::BinOp(b) => {
            let l = expr(&b.lhs)?;
            let r = expr(&b.rhs)?;
            let op = match b.op.kind {
                TokenKind::Plus => "(bin add",
                TokenKind::Minus => "(bin sub",
                TokenKind::Star => "(bin mul",
                TokenKind::FloorDiv => "(bin floordiv",
                TokenKind::Mod => "(bin mod",
                TokenKind::Less => "(cmp lt",
                TokenKind::LessEq => "(cmp le",
                TokenKind::DblEq => "(cmp eq",
                TokenKind::NotEq => "(cmp ne",
                TokenKind::Gre => "(cmp gt",
                TokenKind::GreEq => "(cmp ge",
                TokenKind::AndOp => "(and",
                TokenKind::OrOp => "(or",
                k => return Err(format!("binop:{:?}", k)),
            };
            if matches!(b.op.kind, TokenKind::OrOp) && b.lhs.ref_t().is_type() {
                return Err("type-union".into());
            }
            format!("{} {} {} {})", op, l, r, w)
        }
        Expr::UnaryOp(u) => match u.op.kind {
            TokenKind::PreMinus => format!("(neg {} {})", expr(&u.expr)?, w),
            k => return Err(format!("unop:{:?}", k)),
        },
        Expr::Call(c) => {
            if c.attr_name.is_some() {
                return Err("method-call".into());
            }
            match c.obj.as_ref() {
                Expr::Accessor(Accessor::Ident(id)) if id.vis().is_private() && &id.inspect()[..] == "not" => {
                    if c.args.pos_args.len() != 1 || !c.args.kw_args.is_empty() || c.args.var_args.is_some() || c.args.kw_var.is_some() {
                        return Err("not-args".into());
                    }
                    format!("(not {} {})", expr(&c.args.pos_args[0].expr)?, w)
                }
                Expr::Accessor(Accessor::Ident(id)) if id.vis().is_private() && &id.inspect()[..] == "if" => {
                    // `if(c, do a, do b)` with both branches given as one-expression lambdas
                    if c.args.pos_args.len() != 3 || !c.args.kw_args.is_empty() || c.args.var_args.is_some() || c.args.kw_var.is_some() {
                        return Err("if-args".into());
                    }
                    let branch = |e: &Expr| -> R<String> {
                        match e {
                            Expr::Lambda(l) if l.body.len() == 1 => expr(l.body.first().unwrap()),
                            _ => Err("if-branch".into()),
                        }
                    };
                    format!("(ite {} {} {} {})", expr(&c.args.pos_args[0].expr)?, branch(&c.args.pos_args[1].expr)?, branch(&c.args.pos_args[2].expr)?, w)
                }
                _ => return Err("call".into()),
            }
        }
        Expr::TypeAsc(t) => return expr(&t.expr).map(|_| ()).and(Err("typeasc".into())),
        other => return Err(format!("expr:{}", other.name())),
    })
}

fn stmt(e: &Expr) -> R<String> {
    match e {
        Expr::Def(d) => match &d.sig {
            Signature::Var(sig) if !sig.global && d.body.block.len() == 1 => {
                Ok(format!("(defv {} {})", ident(&sig.ident), expr(d.body.block.first().unwrap())?))
            }
            _ => Err("def".into()),
        },
        Expr::Call(c) => {
            if let Expr::Accessor(Accessor::Ident(id)) = c.obj.as_ref() {
                if c.attr_name.is_none() && id.vis().is_private() && &id.inspect()[..] == "print!" {
                    if !c.args.kw_args.is_empty() || c.args.var_args.is_some() || c.args.kw_var.is_some() {
                        return Err("print-args".into());
                    }
                    let mut o = format!("(print {}", ident(id));
                    for a in c.args.pos_args.iter() {
                        o.push(' ');
                        o.push_str(&expr(&a.expr)?);
                    }
                    o.push(')');
                    return Ok(o);
                }
            }
            Ok(format!("(expr {})", expr(e)?))
        }
        Expr::Dummy(_) | Expr::TypeAsc(_) => Err("dummy-chunk".into()),
        other => Ok(format!("(expr {})", expr(other)?)),
    }
}

// CPython 3.11 opcode numbers (Lib/opcode.py of 3.11), written down here independently of erg_common::opcode311
const CACHE: u8 = 0;
const POP_TOP: u8 = 1;
const PUSH_NULL: u8 = 2;
const UNARY_NEGATIVE: u8 = 11;
const UNARY_NOT: u8 = 12;
const RETURN_VALUE: u8 = 83;
const IMPORT_STAR: u8 = 84;
const STORE_NAME: u8 = 90;
const LOAD_CONST: u8 = 100;
const LOAD_NAME: u8 = 101;
const COMPARE_OP: u8 = 107;
const JUMP_FORWARD: u8 = 110;
const JUMP_IF_FALSE_OR_POP: u8 = 111;
const POP_JUMP_FORWARD_IF_FALSE: u8 = 114;
const JUMP_IF_TRUE_OR_POP: u8 = 112;
const BINARY_OP: u8 = 122;
const EXTENDED_ARG: u8 = 144;
const PRECALL: u8 = 166;
const CALL: u8 = 171;
// CPython 3.7 / 3.8 / 3.9 / 3.10: the opcodes of the fragment have the same numbers in all four versions
const BINARY_MULTIPLY: u8 = 20;
const BINARY_MODULO: u8 = 22;
const BINARY_ADD: u8 = 23;
const BINARY_SUBTRACT: u8 = 24;
const BINARY_FLOOR_DIVIDE: u8 = 26;
const CALL_FUNCTION: u8 = 131;

fn decode(c: &CodeObj, minor: u8) -> R<(usize, String)> {
    let code = &c.code;
    if code.len() % 2 != 0 {
        return Err("odd-code-length".into());
    }
    // skip the import prelude: everything up to and including the last IMPORT_STAR
    let mut start = None;
    let mut i = 0;
    while i < code.len() {
        if code[i] == IMPORT_STAR {
            start = Some(i + 2);
        }
        i += 2;
    }
    let mut i = start.ok_or("no-prelude")?;
    let base = i;
    let is311 = minor >= 11;
    let mut out = String::from("(code");
    let mut ext_pending = false;
    let expect_cache = |i: &mut usize, n: usize| -> R<()> {
        for _ in 0..n {
            if *i + 1 >= code.len() || code[*i] != CACHE {
                return Err("missing-cache".into());
            }
            *i += 2;
        }
        Ok(())
    };
    while i < code.len() {
        let op = code[i];
        let arg = code[i + 1] as usize;
        i += 2;
        let was_ext = ext_pending;
        ext_pending = false;
        match op {
            PUSH_NULL if is311 => out.push_str(" (pushNull)"),
            POP_TOP => out.push_str(" (popTop)"),
            RETURN_VALUE => out.push_str(" (returnValue)"),
            UNARY_NEGATIVE => out.push_str(" (unaryNeg)"),
            UNARY_NOT => out.push_str(" (unaryNot)"),
            LOAD_CONST => {
                let v = c.consts.get(arg).ok_or("const-index")?;
                out.push_str(&format!(" (loadConst {})", konst(v)?));
            }
            LOAD_NAME => out.push_str(&format!(" (loadName {})", quote(c.names.get(arg).ok_or("name-index")?))),
            STORE_NAME => out.push_str(&format!(" (storeName {})", quote(c.names.get(arg).ok_or("name-index")?))),
            EXTENDED_ARG => {
                out.push_str(&format!(" (extArg {})", arg));
                ext_pending = true;
            }
            JUMP_IF_FALSE_OR_POP => out.push_str(&format!(" (jumpIfFalseOrPop {})", arg)),
            JUMP_IF_TRUE_OR_POP => out.push_str(&format!(" (jumpIfTrueOrPop {})", arg)),
            POP_JUMP_FORWARD_IF_FALSE => out.push_str(&format!(" (popJumpIfFalse {})", arg)),
            JUMP_FORWARD => out.push_str(&format!(" (jumpForward {})", arg)),
            BINARY_OP if is311 => {
                let name = match arg { 0 => "add", 10 => "sub", 5 => "mul", 2 => "floordiv", 6 => "mod", _ => return Err(format!("binary-op-arg:{}", arg)) };
                expect_cache(&mut i, 1)?;
                out.push_str(&format!(" (binaryOp {})", name));
            }
            BINARY_ADD if !is311 => out.push_str(" (binaryOp add)"),
            BINARY_SUBTRACT if !is311 => out.push_str(" (binaryOp sub)"),
            BINARY_MULTIPLY if !is311 => out.push_str(" (binaryOp mul)"),
            BINARY_FLOOR_DIVIDE if !is311 => out.push_str(" (binaryOp floordiv)"),
            BINARY_MODULO if !is311 => out.push_str(" (binaryOp mod)"),
            CALL_FUNCTION if !is311 => out.push_str(&format!(" (call {})", arg)),
            COMPARE_OP => {
                let name = match arg { 0 => "lt", 1 => "le", 2 => "eq", 3 => "ne", 4 => "gt", 5 => "ge", _ => return Err(format!("compare-op-arg:{}", arg)) };
                if is311 {
                    expect_cache(&mut i, 2)?;
                }
                out.push_str(&format!(" (compareOp {})", name));
            }
            PRECALL if is311 => {
                expect_cache(&mut i, 1)?;
                if i + 1 >= code.len() || code[i] != CALL || code[i + 1] as usize != arg {
                    return Err("precall-without-call".into());
                }
                i += 2;
                expect_cache(&mut i, 4)?;
                out.push_str(&format!(" (call {})", arg));
            }
            other => return Err(format!("opcode:{}", other)),
        }
        if was_ext && !matches!(op, JUMP_IF_FALSE_OR_POP | JUMP_IF_TRUE_OR_POP | POP_JUMP_FORWARD_IF_FALSE | JUMP_FORWARD) {
            return Err("extended-arg-on-non-jump".into());
        }
    }
    out.push(')');
    Ok((base, out))
}

fn run_case(id: &str, minor: u8, src: &str) -> String {
    let s = src.to_string();
    let res = catch(move || -> R<String> {
        let mut cfg = ErgConfig::default();
        cfg.input = Input::str(s.clone());
        cfg.target_version = Some(PythonVersion::new(3, Some(minor), Some(0)));
        cfg.py_magic_num = Some(match minor { 7 => 3394, 8 => 3413, 9 => 3425, 10 => 3439, _ => 3495 });
        cfg.quiet_repl = true;
        let mut compiler = Compiler::new(cfg);
        let (hir, code) = match compiler.verif_compile_with_hir(s, "exec") {
            Ok(x) => x,
            Err(_) => return Ok("rejected".to_string()),
        };
        let mut h = String::from("(hir");
        for chunk in hir.module.iter() {
            // `emit_chunk` emits nothing for `Dummy` (a definition removed by the optimizer) and `TypeAsc` chunks and the
            // stack stays empty, so for the emitted code they are as if absent
            if matches!(chunk, Expr::Dummy(_) | Expr::TypeAsc(_)) {
                continue;
            }
            match stmt(chunk) {
                Ok(t) => {
                    h.push(' ');
                    h.push_str(&t);
                }
                Err(why) => return Ok(format!("out-of-model({})", why)),
            }
        }
        h.push(')');
        match decode(&code, minor) {
            Ok((base, c)) => Ok(format!("(ver {}) (base {}) {} {}", minor, base, h, c)),
            Err(why) => Ok(format!("out-of-model(decode:{})", why)),
        }
    });
    let out = match res {
        Ok(Ok(s)) => s,
        Ok(Err(e)) => format!("out-of-model({})", e),
        Err(e) => format!("crash({})", quote(&e)),
    };
    format!("{}\t(ver {}) (src {})\t{}", id, minor, quote(src), out)
}

fn main() {
    quiet_panics();
    let a = parse_args();
    match a.mode.as_str() {
        "replay" => {
            // the cases are independent: run them on 8 worker threads (each case builds its own compiler), print in input order
            let cases = stdin_cases();
            let n = cases.len();
            let cases = std::sync::Arc::new(cases);
            let next = std::sync::Arc::new(std::sync::atomic::AtomicUsize::new(0));
            let results = std::sync::Arc::new(std::sync::Mutex::new(vec![String::new(); n]));
            let mut handles = vec![];
            for _ in 0..8 {
                let (cases, next, results) = (cases.clone(), next.clone(), results.clone());
                handles.push(std::thread::Builder::new().stack_size(64 * 1024 * 1024).spawn(move || loop {
                    let i = next.fetch_add(1, std::sync::atomic::Ordering::SeqCst);
                    if i >= cases.len() {
                        break;
                    }
                    let (id, input) = &cases[i];
                    // input: (ver <minor>) (src "<source>")
                    let parsed = input.trim().strip_prefix("(ver ").and_then(|r| {
                        let (m, rest) = r.split_once(')')?;
                        let minor: u8 = m.trim().parse().ok()?;
                        let inner = rest.trim().strip_prefix("(src ")?.strip_suffix(")")?;
                        Some((minor, unquote(inner)?))
                    });
                    let line = match parsed {
                        Some((minor, p)) if (7..=11).contains(&minor) => run_case(id, minor, &p),
                        _ => format!("{}\t{}\tbad-input", id, input),
                    };
                    results.lock().unwrap()[i] = line;
                }).unwrap());
            }
            for h in handles {
                let _ = h.join();
            }
            for l in results.lock().unwrap().iter() {
                println!("{}", l);
            }
        }
        _ => {
            eprintln!("usage: c13 replay   (cases are generated by checks/c13.py with vlib/fraggen.py)");
            std::process::exit(2);
        }
    }
}
