//! C04: compile-time evaluation (`Context::eval_bin` / `eval_unary_val` -> `ValueObj::try_*`) on expression trees over
//! Int/Nat/Bool/Float leaves, plus an end-to-end stream through the real front end (`N = e`, `x: {N} = v`).
//!
//! line: id \t <input> \t <impl-output>
//!   input  ::= (core <e>) | (fold <e>) | (accept <e> <leaf>)
//!   e      ::= (bin <OpKind> <e> <e>) | (un <OpKind> <e>) | <leaf>
//!   leaf   ::= (int <i32>) | (nat <u64>) | (bool true|false) | (float <16 hex digits of the bit pattern>)
//!   output ::= (ok <leaf>) | (ok other) | none | crash("<panic message>")            for core
//!            | (folded <leaf>) | (folded other) | unfolded | crash(..)                for fold
//!            | accepted | rejected | crash(..)                                        for accept
//! NaN is printed as `(float nan)` on both sides (payload/sign bits of NaN are not compared).
use erg_common::config::ErgConfig;
use erg_compiler::context::Context;
use erg_compiler::hir::Expr as HExpr;
use erg_compiler::ty::typaram::{OpKind, TyParam};
use erg_compiler::ty::value::ValueObj;
use erg_compiler::HIRBuilder;
use erg_harness::*;

#[derive(Clone, Debug)]
enum E {
    Int(i32),
    Nat(u64),
    Bool(bool),
    Float(u64),
    Bin(OpKind, Box<E>, Box<E>),
    Un(OpKind, Box<E>),
}

const ALL_OPS: [(&str, OpKind); 29] = [
    ("Add", OpKind::Add), ("Sub", OpKind::Sub), ("Mul", OpKind::Mul), ("Div", OpKind::Div),
    ("FloorDiv", OpKind::FloorDiv), ("Pow", OpKind::Pow), ("Mod", OpKind::Mod), ("Pos", OpKind::Pos),
    ("Neg", OpKind::Neg), ("Invert", OpKind::Invert), ("Gt", OpKind::Gt), ("Lt", OpKind::Lt),
    ("Ge", OpKind::Ge), ("Le", OpKind::Le), ("Eq", OpKind::Eq), ("Ne", OpKind::Ne), ("As", OpKind::As),
    ("And", OpKind::And), ("Or", OpKind::Or), ("Not", OpKind::Not), ("BitAnd", OpKind::BitAnd),
    ("BitOr", OpKind::BitOr), ("BitXor", OpKind::BitXor), ("Shl", OpKind::Shl), ("Shr", OpKind::Shr),
    ("ClosedRange", OpKind::ClosedRange), ("LeftOpenRange", OpKind::LeftOpenRange),
    ("RightOpenRange", OpKind::RightOpenRange), ("OpenRange", OpKind::OpenRange),
];

fn op_name(op: OpKind) -> &'static str {
    ALL_OPS.iter().find(|(_, o)| *o == op).map(|(n, _)| *n).unwrap_or("?")
}
fn op_of(name: &str) -> Option<OpKind> {
    ALL_OPS.iter().find(|(n, _)| *n == name).map(|(_, o)| *o)
}

fn show(e: &E) -> String {
    match e {
        E::Int(i) => format!("(int {})", i),
        E::Nat(n) => format!("(nat {})", n),
        E::Bool(b) => format!("(bool {})", b),
        E::Float(b) => {
            if f64::from_bits(*b).is_nan() { "(float nan)".to_string() } else { format!("(float {:016x})", b) }
        }
        E::Bin(op, l, r) => format!("(bin {} {} {})", op_name(*op), show(l), show(r)),
        E::Un(op, v) => format!("(un {} {})", op_name(*op), show(v)),
    }
}

fn show_val(v: &ValueObj) -> String {
    match v {
        ValueObj::Int(i) => format!("(int {})", i),
        ValueObj::Nat(n) => format!("(nat {})", n),
        ValueObj::Bool(b) => format!("(bool {})", b),
        ValueObj::Float(f) => {
            let x: f64 = **f;
            if x.is_nan() { "(float nan)".to_string() } else { format!("(float {:016x})", x.to_bits()) }
        }
        _ => "other".to_string(),
    }
}

// ---------------------------------------------------------------- tiny S-expression reader for replay
fn tokens(s: &str) -> Vec<String> {
    let mut out = vec![];
    let mut cur = String::new();
    for c in s.chars() {
        match c {
            '(' | ')' => {
                if !cur.is_empty() { out.push(std::mem::take(&mut cur)); }
                out.push(c.to_string());
            }
            c if c.is_whitespace() => {
                if !cur.is_empty() { out.push(std::mem::take(&mut cur)); }
            }
            c => cur.push(c),
        }
    }
    if !cur.is_empty() { out.push(cur); }
    out
}

fn parse_e(t: &[String], i: &mut usize) -> Option<E> {
    if t.get(*i)? != "(" { return None; }
    *i += 1;
    let head = t.get(*i)?.clone();
    *i += 1;
    let e = match head.as_str() {
        "int" => { let v = t.get(*i)?.parse::<i32>().ok()?; *i += 1; E::Int(v) }
        "nat" => { let v = t.get(*i)?.parse::<u64>().ok()?; *i += 1; E::Nat(v) }
        "bool" => { let v = t.get(*i)? == "true"; *i += 1; E::Bool(v) }
        "float" => {
            let s = t.get(*i)?.clone();
            *i += 1;
            if s == "nan" { E::Float(f64::NAN.to_bits()) } else { E::Float(u64::from_str_radix(&s, 16).ok()?) }
        }
        "bin" => {
            let op = op_of(t.get(*i)?)?;
            *i += 1;
            let l = parse_e(t, i)?;
            let r = parse_e(t, i)?;
            E::Bin(op, Box::new(l), Box::new(r))
        }
        "un" => {
            let op = op_of(t.get(*i)?)?;
            *i += 1;
            let v = parse_e(t, i)?;
            E::Un(op, Box::new(v))
        }
        _ => return None,
    };
    if t.get(*i)? != ")" { return None; }
    *i += 1;
    Some(e)
}

// ---------------------------------------------------------------- core stream: hooked evaluators
fn leaf_val(e: &E) -> Option<ValueObj> {
    match e {
        E::Int(i) => Some(ValueObj::Int(*i)),
        E::Nat(n) => Some(ValueObj::Nat(*n)),
        E::Bool(b) => Some(ValueObj::Bool(*b)),
        E::Float(b) => Some(ValueObj::from(f64::from_bits(*b))),
        _ => None,
    }
}

/// bottom-up evaluation with the real `eval_bin` / `eval_unary_val`; `Err` of the evaluator = `None` (left to run time / diagnostic)
fn eval_core(ctx: &Context, e: &E) -> Option<ValueObj> {
    match e {
        E::Bin(op, l, r) => {
            let lv = eval_core(ctx, l)?;
            let rv = eval_core(ctx, r)?;
            ctx.verif_eval_bin(*op, lv, rv).ok()
        }
        E::Un(op, v) => {
            let vv = eval_core(ctx, v)?;
            ctx.verif_eval_unary_val(*op, vv).ok()
        }
        leaf => leaf_val(leaf),
    }
}

fn run_core(e: &E) -> String {
    let e2 = e.clone();
    match catch(move || {
        let ctx = Context::default_with_name("<verif>");
        match eval_core(&ctx, &e2) {
            Some(v) => format!("(ok {})", show_val(&v)),
            None => "none".to_string(),
        }
    }) {
        Ok(s) => s,
        Err(m) => format!("crash({})", quote(&m)),
    }
}

// ---------------------------------------------------------------- end-to-end stream: the real front end
fn surface_op(op: OpKind) -> Option<&'static str> {
    Some(match op {
        OpKind::Add => "+", OpKind::Sub => "-", OpKind::Mul => "*", OpKind::Div => "/", OpKind::FloorDiv => "//",
        OpKind::Pow => "**", OpKind::Mod => "%", OpKind::Gt => ">", OpKind::Lt => "<", OpKind::Ge => ">=",
        OpKind::Le => "<=", OpKind::Eq => "==", OpKind::Ne => "!=", OpKind::And => "and", OpKind::Or => "or",
        OpKind::BitAnd => "&&", OpKind::BitOr => "||", OpKind::BitXor => "^^",
        _ => return None,
    })
}

fn float_src(bits: u64) -> Option<String> {
    let f = f64::from_bits(bits);
    if !f.is_finite() { return None; }
    let s = format!("{:?}", f.abs());
    if s.contains('e') || s.contains('E') { return None; }
    Some(if f.is_sign_negative() { format!("-{}", s) } else { s })
}

/// Erg source of an expression tree; `None` when a leaf or operator has no literal surface form
fn src(e: &E, top: bool, left_of_pow: bool) -> Option<String> {
    let neg_paren = |s: String| if left_of_pow { format!("({})", s) } else { s };
    Some(match e {
        E::Int(i) if *i < 0 => neg_paren(format!("{}", i)),
        E::Int(_) => return None, // a non-negative literal is a Nat
        E::Nat(n) => format!("{}", n),
        E::Bool(b) => (if *b { "True" } else { "False" }).to_string(),
        E::Float(b) => {
            let s = float_src(*b)?;
            if s.starts_with('-') { neg_paren(s) } else { s }
        }
        E::Bin(op, l, r) => {
            let o = surface_op(*op)?;
            let s = format!("{} {} {}", src(l, false, *op == OpKind::Pow)?, o, src(r, false, false)?);
            if top { s } else { format!("({})", s) }
        }
        E::Un(op, v) => {
            let o = match op { OpKind::Neg => "-", OpKind::Pos => "+", OpKind::Not => "not ", OpKind::Invert => "~", _ => return None };
            let inner = match **v {
                E::Bin(..) | E::Un(..) => src(v, false, false)?,
                _ => format!("({})", src(v, true, false)?),
            };
            let s = format!("{}{}", o, inner);
            if top { s } else { format!("({})", s) }
        }
    })
}

fn build(code: String) -> Result<erg_compiler::hir::HIR, usize> {
    let cfg = ErgConfig::string(code.clone());
    let mut b = HIRBuilder::new(cfg);
    match b.build(code, "exec") {
        Ok(art) => Ok(art.object),
        Err(iart) => Err(iart.errors.len()),
    }
}

fn run_fold(e: &E) -> String {
    let Some(s) = src(e, true, false) else { return "no-surface-form".to_string() };
    let code = format!("N = {}\n", s);
    match catch(move || match build(code) {
        Ok(hir) => {
            for ch in hir.module.iter() {
                if let HExpr::Def(def) = ch {
                    let t = def.sig.ident().vi.t.clone();
                    return match t.singleton_value() {
                        Some(TyParam::Value(v)) => format!("(folded {})", show_val(v)),
                        _ => "unfolded".to_string(),
                    };
                }
            }
            "unfolded".to_string()
        }
        Err(_n) => "unfolded".to_string(),
    }) {
        Ok(s) => s,
        Err(m) => format!("crash({})", quote(&m)),
    }
}

fn run_accept(e: &E, v: &E) -> String {
    let (Some(s), Some(vs)) = (src(e, true, false), src(v, true, false)) else { return "no-surface-form".to_string() };
    let code = format!("N = {}\nx: {{N}} = {}\n", s, vs);
    match catch(move || match build(code) {
        Ok(_) => "accepted".to_string(),
        Err(_) => "rejected".to_string(),
    }) {
        Ok(s) => s,
        Err(m) => format!("crash({})", quote(&m)),
    }
}

fn eval_input(input: &str) -> String {
    let t = tokens(input);
    (|| {
        if t.len() < 3 || t[0] != "(" { return None; }
        let mut i = 2;
        match t[1].as_str() {
            "core" => { let e = parse_e(&t, &mut i)?; Some(run_core(&e)) }
            "fold" => { let e = parse_e(&t, &mut i)?; Some(run_fold(&e)) }
            "accept" => { let e = parse_e(&t, &mut i)?; let v = parse_e(&t, &mut i)?; Some(run_accept(&e, &v)) }
            _ => None,
        }
    })()
    .unwrap_or_else(|| "bad-input".to_string())
}

fn run_input(id: &str, input: &str) {
    println!("{}\t{}\t{}", id, input, eval_input(input));
}

/// the front-end streams cost ~0.2 s per case (a fresh HIRBuilder each): run them on worker threads, print in input order
fn run_parallel(cases: Vec<(String, String)>) {
    let workers = std::thread::available_parallelism().map(|n| n.get()).unwrap_or(4).clamp(1, 8);
    let n = cases.len();
    let mut outs: Vec<String> = vec![String::new(); n];
    let next = std::sync::atomic::AtomicUsize::new(0);
    let results = std::sync::Mutex::new(&mut outs);
    std::thread::scope(|s| {
        for _ in 0..workers {
            s.spawn(|| loop {
                let i = next.fetch_add(1, std::sync::atomic::Ordering::SeqCst);
                if i >= n { break; }
                let o = eval_input(&cases[i].1);
                results.lock().unwrap()[i] = o;
            });
        }
    });
    for (i, (id, input)) in cases.iter().enumerate() {
        println!("{}\t{}\t{}", id, input, outs[i]);
    }
}

// ---------------------------------------------------------------- generators
const NATS: [u64; 24] = [
    0, 1, 2, 3, 5, 7, 10, 31, 32, 63, 64, 65, 2147483647, 2147483648, 2147483649, 3000000000, 4294967295, 4294967296,
    4294967297, 9007199254740992, 9007199254740993, 9223372036854775807, 9223372036854775808, 18446744073709551615,
];
const INTS: [i32; 18] = [
    0, 1, -1, 2, -2, 3, -3, 7, -7, 5, -5, 46341, -46341, 2147483647, 2147483646, -2147483647, -2147483648, 65536,
];
fn floats() -> Vec<u64> {
    let mut v: Vec<f64> = vec![
        0.0, -0.0, 1.0, -1.0, 0.5, -0.5, 1.5, -1.5, 2.0, -2.0, 3.5, -7.5, 7.5, 0.1, 0.2, 0.3, 1.0e308, -1.0e308, 5e-324,
        2.2250738585072014e-308, 9007199254740992.0, 9223372036854775808.0, 18446744073709551616.0, 2147483648.0,
        f64::INFINITY, f64::NEG_INFINITY, f64::NAN, 1e16, 123456.789, 3.0, 10.0, 0.25,
    ];
    v.dedup();
    v.into_iter().map(|f| f.to_bits()).collect()
}
/// floats that have a plain decimal literal form (end-to-end stream)
const EFLOATS: [f64; 14] = [0.0, 1.0, 0.5, 1.5, 2.0, 3.5, 7.5, 0.1, 0.25, 3.0, 10.0, 123456.789, -1.5, -7.5];

const BIN_OPS: [OpKind; 24] = [
    OpKind::Add, OpKind::Sub, OpKind::Mul, OpKind::Div, OpKind::FloorDiv, OpKind::Pow, OpKind::Mod, OpKind::Gt, OpKind::Lt,
    OpKind::Ge, OpKind::Le, OpKind::Eq, OpKind::Ne, OpKind::And, OpKind::Or, OpKind::BitAnd, OpKind::BitOr, OpKind::BitXor,
    OpKind::Shl, OpKind::Shr, OpKind::ClosedRange, OpKind::As, OpKind::Not, OpKind::OpenRange,
];
const ARITH: [OpKind; 13] = [
    OpKind::Add, OpKind::Sub, OpKind::Mul, OpKind::Div, OpKind::FloorDiv, OpKind::Pow, OpKind::Mod, OpKind::Gt, OpKind::Lt,
    OpKind::Ge, OpKind::Le, OpKind::Eq, OpKind::Ne,
];

fn gen_leaf(rng: &mut Rng, fl: &[u64], float_w: u64) -> E {
    match rng.below(10 + float_w) {
        0..=3 => {
            if rng.chance(3, 4) { E::Nat(*rng.pick(&NATS)) }
            else if rng.chance(1, 2) { E::Nat(rng.below(20)) } else { E::Nat(rng.next()) }
        }
        4..=7 => {
            if rng.chance(3, 4) { E::Int(*rng.pick(&INTS)) }
            else if rng.chance(1, 2) { E::Int(rng.range(-20, 20) as i32) } else { E::Int(rng.next() as i32) }
        }
        8..=9 => E::Bool(rng.chance(1, 2)),
        _ => {
            if rng.chance(3, 4) { E::Float(*rng.pick(fl)) } else { E::Float(((rng.range(-64, 64) as f64) / 8.0).to_bits()) }
        }
    }
}

fn int_leaf(v: i128, prefer_int: bool) -> Option<E> {
    let as_int = if v >= i32::MIN as i128 && v <= i32::MAX as i128 { Some(E::Int(v as i32)) } else { None };
    let as_nat = if v >= 0 && v <= u64::MAX as i128 { Some(E::Nat(v as u64)) } else { None };
    if prefer_int { as_int.or(as_nat) } else { as_nat.or(as_int) }
}

/// every representation of the integer `v` as a compile-time value: Int (if it fits i32), Nat (if non-negative and it
/// fits u64), Float (if f64 holds it exactly; both zeros for 0), Bool (0 and 1)
fn reps(v: i128) -> Vec<E> {
    let mut out = vec![];
    if v >= i32::MIN as i128 && v <= i32::MAX as i128 { out.push(E::Int(v as i32)); }
    if v >= 0 && v <= u64::MAX as i128 { out.push(E::Nat(v as u64)); }
    let f = v as f64;
    if f.is_finite() && f as i128 == v && (v.unsigned_abs() <= (1u128 << 53) || v.unsigned_abs().is_power_of_two()) {
        out.push(E::Float(f.to_bits()));
        if v == 0 { out.push(E::Float((-0.0f64).to_bits())); }
    }
    if v == 0 { out.push(E::Bool(false)); }
    if v == 1 { out.push(E::Bool(true)); }
    out
}

/// the integer a leaf denotes, when it denotes one
fn leaf_int(e: &E) -> Option<i128> {
    match e {
        E::Int(i) => Some(*i as i128),
        E::Nat(n) => Some(*n as i128),
        E::Bool(b) => Some(*b as i128),
        E::Float(b) => {
            let f = f64::from_bits(*b);
            if f.is_finite() && f.fract() == 0.0 && f.abs() <= 1.9e19 { Some(f as i128) } else { None }
        }
        _ => None,
    }
}

fn same_kind(a: &E, b: &E) -> bool {
    std::mem::discriminant(a) == std::mem::discriminant(b)
}

/// an operand numerically related to `l` (equal, neighbour, negation) in a representation of a *different* kind when
/// there is one
fn related(rng: &mut Rng, l: &E) -> E {
    let v = leaf_int(l).unwrap_or(0);
    let w = match rng.below(6) { 0 | 1 | 2 => v, 3 => v + 1, 4 => v - 1, _ => -v };
    let rs = reps(w);
    let others: Vec<&E> = rs.iter().filter(|r| !same_kind(r, l)).collect();
    if !others.is_empty() { (*rng.pick(&others)).clone() } else if !rs.is_empty() { rng.pick(&rs).clone() } else { l.clone() }
}

/// the values whose representations form the equal-pair grid: boundaries of i32, u32, u64, f64-exactness, small negatives
const EQ_VALUES: [i128; 24] = [
    -2147483648, -2147483647, -65536, -46341, -7, -3, -2, -1, 0, 1, 2, 3, 7, 65536, 2147483647, 2147483648, 4294967295,
    4294967296, 9007199254740991, 9007199254740992, 9007199254740993, 9223372036854775807, 9223372036854775808,
    18446744073709551615,
];
const CMP: [OpKind; 6] = [OpKind::Gt, OpKind::Lt, OpKind::Ge, OpKind::Le, OpKind::Eq, OpKind::Ne];

fn gen_expr(rng: &mut Rng, fl: &[u64], depth: u32, float_w: u64) -> E {
    if depth == 0 { return gen_leaf(rng, fl, float_w); }
    match rng.below(10) {
        0 => E::Un(*rng.pick(&[OpKind::Neg, OpKind::Pos, OpKind::Not, OpKind::Invert, OpKind::Add, OpKind::Shl]),
                   Box::new(gen_expr(rng, fl, depth - 1, float_w))),
        _ => {
            let op = if rng.chance(4, 5) { *rng.pick(&ARITH) } else { *rng.pick(&BIN_OPS) };
            let d1 = if rng.chance(1, 4) { depth - 1 } else { 0 };
            let d2 = if rng.chance(1, 4) { depth - 1 } else { 0 };
            let l = gen_expr(rng, fl, d1, float_w);
            // one case in five: the right operand is *related* to the left one (the same integer in the other
            // representation, a neighbour, the negation) - the boundary of comparisons, `-`, `//`, `%`
            let r = match (leaf_int(&l), rng.chance(1, 5)) {
                (Some(_), true) => related(rng, &l),
                _ => gen_expr(rng, fl, d2, float_w),
            };
            E::Bin(op, Box::new(l), Box::new(r))
        }
    }
}

/// end-to-end generator: well-typed (by Erg's operator typing) expressions over literal leaves
fn gen_e2e_num(rng: &mut Rng, depth: u32, with_float: bool) -> E {
    if depth == 0 || rng.chance(1, 3) {
        return match rng.below(if with_float { 10 } else { 8 }) {
            0..=3 => if rng.chance(2, 3) { E::Nat(*rng.pick(&NATS)) } else { E::Nat(rng.below(12)) },
            4..=7 => {
                let i = if rng.chance(2, 3) { *rng.pick(&INTS) } else { rng.range(-12, -1) as i32 };
                if i < 0 { E::Int(i) } else { E::Nat(i as u64) }
            }
            _ => E::Float(rng.pick(&EFLOATS).to_bits()),
        };
    }
    if rng.chance(1, 8) {
        return E::Un(if rng.chance(3, 4) { OpKind::Neg } else { OpKind::Pos }, Box::new(gen_e2e_num(rng, depth - 1, with_float)));
    }
    let op = *rng.pick(&[OpKind::Add, OpKind::Sub, OpKind::Mul, OpKind::FloorDiv, OpKind::Mod, OpKind::Pow, OpKind::Div,
                         OpKind::Add, OpKind::Sub, OpKind::Mul, OpKind::FloorDiv, OpKind::Mod]);
    E::Bin(op, Box::new(gen_e2e_num(rng, depth - 1, with_float)), Box::new(gen_e2e_num(rng, depth - 1, with_float)))
}

fn has_div(e: &E) -> bool {
    match e {
        E::Bin(op, l, r) => *op == OpKind::Div || has_div(l) || has_div(r),
        E::Un(_, v) => has_div(v),
        _ => false,
    }
}

fn gen_e2e(rng: &mut Rng) -> E {
    let with_float = rng.chance(1, 4);
    match rng.below(10) {
        0..=5 => gen_e2e_num(rng, 2, with_float),
        6 => {
            // numerically equal or adjacent operands in different literal kinds (Nat / negative Int / Float), e.g. `-2.0 >= -2`
            let v = *rng.pick(&[-2147483648i128, -46341, -7, -3, -2, -1, 0, 1, 2, 3, 7, 65536, 2147483647, 2147483648, 4294967296]);
            let mut w = match rng.below(4) { 0 | 1 => v, 2 => v + 1, _ => v - 1 };
            if w < i32::MIN as i128 { w = v; } // below every literal form
            let lit = |rng: &mut Rng, x: i128, float: bool| -> E {
                if float && (x as f64) as i128 == x && src(&E::Float((x as f64).to_bits()), true, false).is_some() {
                    E::Float((x as f64).to_bits())
                } else if x < 0 { E::Int(x as i32) } else { let _ = rng; E::Nat(x as u64) }
            };
            let op = *rng.pick(&[OpKind::Gt, OpKind::Lt, OpKind::Ge, OpKind::Le, OpKind::Ge, OpKind::Le, OpKind::Eq, OpKind::Ne]);
            let eqlike = op == OpKind::Eq || op == OpKind::Ne;
            let (fl_l, fl_r) = if eqlike { (false, false) } else { match rng.below(3) { 0 => (true, false), 1 => (false, true), _ => (true, true) } };
            let l = lit(rng, v, fl_l);
            let r = lit(rng, w, fl_r);
            E::Bin(op, Box::new(l), Box::new(r))
        }
        7..=8 => {
            let op = *rng.pick(&[OpKind::Gt, OpKind::Lt, OpKind::Ge, OpKind::Le, OpKind::Eq, OpKind::Ne]);
            // `==`/`!=` between a Float and an integer is ill-typed in Erg: keep both sides integer-valued there
            let eqlike = op == OpKind::Eq || op == OpKind::Ne;
            let mut l = gen_e2e_num(rng, 1, with_float && !eqlike);
            let mut r = gen_e2e_num(rng, 1, with_float && !eqlike);
            if eqlike {
                if has_div(&l) { l = E::Nat(rng.below(12)); }
                if has_div(&r) { r = E::Int(-(rng.below(12) as i32) - 1); }
            }
            E::Bin(op, Box::new(l), Box::new(r))
        }
        _ => {
            let b1 = E::Bool(rng.chance(1, 2));
            let b2 = E::Bool(rng.chance(1, 2));
            match rng.below(3) {
                0 => E::Bin(OpKind::And, Box::new(b1), Box::new(b2)),
                1 => E::Bin(OpKind::Or, Box::new(b1), Box::new(b2)),
                _ => E::Un(OpKind::Not, Box::new(b1)),
            }
        }
    }
}

fn main() {
    quiet_panics();
    let a = parse_args();
    match a.mode.as_str() {
        "gen" => {
            let mut rng = Rng::new(a.seed);
            let fl = floats();
            let e2e_only = a.rest.iter().any(|x| x == "--e2e");
            let core_only = a.rest.iter().any(|x| x == "--core");
            if !e2e_only {
                if a.tier == "thorough" {
                    // full boundary grid: every pair of pool operands (integers and bools) under every arithmetic/comparison operator
                    let mut leaves: Vec<E> = vec![];
                    for n in NATS { leaves.push(E::Nat(n)); }
                    for i in INTS { leaves.push(E::Int(i)); }
                    leaves.push(E::Bool(true));
                    leaves.push(E::Bool(false));
                    let mut id = 0usize;
                    for op in ARITH {
                        for l in &leaves {
                            for r in &leaves {
                                let e = E::Bin(op, Box::new(l.clone()), Box::new(r.clone()));
                                run_input(&format!("x{}", id), &format!("(core {})", show(&e)));
                                id += 1;
                            }
                        }
                    }
                }
                // every tier: a compact grid (16 boundary leaves, both representations of the small integers) under
                // the 13 arithmetic/comparison operators
                {
                    let small: Vec<E> = vec![
                        E::Int(-2), E::Int(-1), E::Int(0), E::Int(1), E::Int(2), E::Int(i32::MAX), E::Int(i32::MIN),
                        E::Nat(0), E::Nat(1), E::Nat(2), E::Nat(2147483647), E::Nat(2147483648), E::Nat(4294967296),
                        E::Nat(u64::MAX), E::Bool(true), E::Bool(false),
                    ];
                    let mut id = 0usize;
                    for op in ARITH {
                        for l in &small {
                            for r in &small {
                                let e = E::Bin(op, Box::new(l.clone()), Box::new(r.clone()));
                                run_input(&format!("s{}", id), &format!("(core {})", show(&e)));
                                id += 1;
                            }
                        }
                    }
                }
                // every tier: the equal-pair grid. For each boundary value v and w in {v, v+1, v-1}: every pair of
                // representations (Int, Nat, Float, -0.0, Bool) of v and w, in both orders by construction, under the six
                // comparison operators and `-`, `//`, `%` - so every row of try_lt/le/gt/ge/eq/ne (Int/Int, Nat/Nat,
                // Float/Float, Int/Nat, Nat/Int, Float/Nat, Nat/Float, Float/Int, Int/Float, Bool mixes) meets numerically
                // equal and adjacent operands, negative ones included
                {
                    let mut id = 0usize;
                    for v in EQ_VALUES {
                        for w in [v, v + 1, v - 1] {
                            for l in reps(v) {
                                for r in reps(w) {
                                    for op in CMP.iter().chain([OpKind::Sub, OpKind::FloorDiv, OpKind::Mod].iter()) {
                                        let e = E::Bin(*op, Box::new(l.clone()), Box::new(r.clone()));
                                        run_input(&format!("q{}", id), &format!("(core {})", show(&e)));
                                        id += 1;
                                    }
                                }
                            }
                        }
                    }
                    // half-integers next to the small values (a Float strictly between two integers)
                    for v in [-3i128, -2, -1, 0, 1, 2, 2147483647, -2147483648] {
                        for h in [v as f64 + 0.5, v as f64 - 0.5] {
                            for r in reps(v) {
                                for op in CMP {
                                    let f = E::Float(h.to_bits());
                                    run_input(&format!("q{}", id), &format!("(core {})", show(&E::Bin(op, Box::new(f.clone()), Box::new(r.clone())))));
                                    run_input(&format!("q{}", id + 1), &format!("(core {})", show(&E::Bin(op, Box::new(r.clone()), Box::new(f)))));
                                    id += 2;
                                }
                            }
                        }
                    }
                }
                for i in 0..a.n {
                    // one third integer-only (the proved fragment), two thirds with floats
                    let float_w = if i % 3 == 0 { 0 } else { 5 };
                    let depth = if rng.chance(1, 5) { 2 } else { 1 };
                    let e = gen_expr(&mut rng, &fl, depth, float_w);
                    run_input(&format!("g{}", i), &format!("(core {})", show(&e)));
                }
            }
            if !core_only {
                let m = if e2e_only { a.n } else { a.n / 60 };
                let mut cases = vec![];
                for i in 0..m {
                    let e = gen_e2e(&mut rng);
                    cases.push((format!("e{}", i), format!("(fold {})", show(&e))));
                }
                run_parallel(cases);
            }
        }
        "replay" => {
            run_parallel(stdin_cases());
        }
        _ => { eprintln!("usage: c04 gen|replay"); std::process::exit(2); }
    }
}
