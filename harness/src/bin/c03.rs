//! C03: refinement subtyping on integer predicates.
//! core stream  : id \t (pair <P> <Q>) \t (lhs <P built>) (rhs <Q built>) (super <bool>)
//!                P = required (super) predicate, Q = supplied (sub) predicate, both built through the real constructors;
//!                the verdict is `Context::is_super_pred_of(P, Q)` (hook `verif_is_super_pred_of`) on a builtin context.
//! e2e stream   : id \t (e2e <P> <Q>) | (e2elit <P> (eq c)) \t (e2e accept|reject <error kinds>) (hook <bool>)
//!                the program `g(x: {I: Int | Q}): {I: Int | P} = x` (e2elit: `x: {I: Int | P} = c`) checked by the real
//!                front end (HIRBuilder, in-process).
use erg_compiler::context::Context;
use erg_harness::*;
#[path = "../predx.rs"]
mod predx;
use predx::*;

use erg_common::config::ErgConfig;
use erg_compiler::module::SharedCompilerResource;
use erg_compiler::HIRBuilder;

fn hook(p: &PExpr, q: &PExpr) -> Result<(String, String, bool), String> {
    let (p2, q2) = (p.clone(), q.clone());
    catch(move || {
        let (Some(pp), Some(qq)) = (p2.build(), q2.build()) else {
            return Err("out-of-model(constant)".to_string());
        };
        let ctx = Context::default_with_name("<verif>");
        let b = ctx.verif_is_super_pred_of(&pp, &qq);
        Ok((show(&pp), show(&qq), b))
    })
    .map_err(|m| format!("crash({})", quote(&m)))
    .and_then(|r| r)
}

fn run_pair(id: &str, p: &PExpr, q: &PExpr) {
    let out = match hook(p, q) {
        Ok((sp, sq, b)) => format!("(lhs {}) (rhs {}) (super {})", sp, sq, b),
        Err(e) => e,
    };
    println!("{}\t(pair {} {})\t{}", id, p.to_sexp(), q.to_sexp(), out);
}

pub fn program(p: &PExpr, q: &PExpr, not_fn: bool) -> Option<String> {
    Some(format!("g(x: {{I: Int | {}}}): {{I: Int | {}}} = x\n", q.to_erg(not_fn)?, p.to_erg(not_fn)?))
}

/// `x: {I: Int | P} = c` — the literal's singleton type against the ascribed refinement
pub fn program_lit(p: &PExpr, q: &PExpr, not_fn: bool) -> Option<String> {
    match q {
        PExpr::Eq(c) => Some(format!("x: {{I: Int | {}}} = {}\n", p.to_erg(not_fn)?, c)),
        _ => None,
    }
}

fn front_end(src: &str) -> Result<String, String> {
    let s = src.to_string();
    catch(move || {
        let cfg = ErgConfig::string(s.clone());
        let shared = SharedCompilerResource::new(cfg.clone());
        let mut builder = HIRBuilder::new_with_cache(cfg, "<module>", shared);
        match builder.build(s, "exec") {
            Ok(_) => "accept".to_string(),
            Err(iart) => {
                let mut v: Vec<String> = iart.errors.iter().map(|e| format!("{:?}", e.core.kind)).collect();
                v.sort();
                v.dedup();
                format!("reject {}", v.join(" "))
            }
        }
    })
    .map_err(|m| format!("crash({})", quote(&m)))
}

/// kinds: `e2e`/`e2elit` spell negation `~(p)`, `e2en`/`e2elitn` spell it `not (p)` (a `Call` predicate)
fn run_e2e(id: &str, p: &PExpr, q: &PExpr, lit: bool, not_fn: bool) {
    let out = match if lit { program_lit(p, q, not_fn) } else { program(p, q, not_fn) } {
        None => "out-of-model(no-surface-syntax)".to_string(),
        Some(src) => {
            let fe = match front_end(&src) {
                Ok(s) => s,
                Err(e) => e,
            };
            let hk = match hook(p, q) {
                Ok((_, _, b)) => format!("{}", b),
                Err(e) => e,
            };
            format!("(e2e {}) (hook {})", fe, hk)
        }
    };
    let kind = match (lit, not_fn) {
        (false, false) => "e2e",
        (true, false) => "e2elit",
        (false, true) => "e2en",
        (true, true) => "e2elitn",
    };
    println!("{}\t({} {} {})\t{}", id, kind, p.to_sexp(), q.to_sexp(), out);
}

// ------------------------------------------------------------------------------------------------ generators

fn shift_consts(e: &PExpr, rng: &mut Rng) -> PExpr {
    use PExpr::*;
    let mut d = |c: &i128, rng: &mut Rng| -> i128 {
        if rng.chance(1, 2) { *c } else { (*c + rng.range(-2, 2) as i128).clamp(i32::MIN as i128, u64::MAX as i128) }
    };
    match e {
        Val(b) => Val(*b),
        Eq(c) => Eq(d(c, rng)),
        Ge(c) => Ge(d(c, rng)),
        Le(c) => Le(d(c, rng)),
        Ne(c) => Ne(d(c, rng)),
        Gt(c) => Gt(d(c, rng)),
        Lt(c) => Lt(d(c, rng)),
        And(a, b) => And(Box::new(shift_consts(a, rng)), Box::new(shift_consts(b, rng))),
        Or(a, b) => Or(Box::new(shift_consts(a, rng)), Box::new(shift_consts(b, rng))),
        Not(a) => Not(Box::new(shift_consts(a, rng))),
        RAnd(a, b) => RAnd(Box::new(shift_consts(a, rng)), Box::new(shift_consts(b, rng))),
        ROr(es) => ROr(es.iter().map(|x| shift_consts(x, rng)).collect()),
        RNot(a) => RNot(Box::new(shift_consts(a, rng))),
    }
}

/// a predicate related to `e`: constants nudged, a conjunct/disjunct added or dropped, operands swapped
fn relative(e: &PExpr, rng: &mut Rng, g: &GenCfg) -> PExpr {
    use PExpr::*;
    match rng.below(7) {
        0 => e.clone(),
        1 | 2 => shift_consts(e, rng),
        3 => And(Box::new(e.clone()), Box::new(gen(rng, 1, g))),
        4 => Or(Box::new(e.clone()), Box::new(gen(rng, 1, g))),
        5 => match e {
            And(a, b) | Or(a, b) | RAnd(a, b) => {
                if rng.chance(1, 2) { (**a).clone() } else { (**b).clone() }
            }
            other => shift_consts(other, rng),
        },
        _ => match e {
            And(a, b) => And(b.clone(), a.clone()),
            Or(a, b) => Or(b.clone(), a.clone()),
            other => shift_consts(other, rng),
        },
    }
}

/// interval-shaped predicates `a..b`, `a<..b`, `a..<b`, `a<..<b`, half lines, and conjunctions of several bounds
fn interval(rng: &mut Rng, consts: &[i128]) -> PExpr {
    use PExpr::*;
    let a = *rng.pick(consts);
    let b = *rng.pick(consts);
    let lo = if rng.chance(1, 2) { Ge(a) } else { Gt(a) };
    let hi = if rng.chance(1, 2) { Le(b) } else { Lt(b) };
    match rng.below(6) {
        0 => lo,
        1 => hi,
        2 | 3 => And(Box::new(lo), Box::new(hi)),
        4 => And(Box::new(And(Box::new(lo), Box::new(hi))), Box::new(Ge(*rng.pick(consts)))),
        _ => And(Box::new(And(Box::new(lo), Box::new(Ne(*rng.pick(consts))))), Box::new(hi)),
    }
}

const WIDE: [i128; 21] = [
    -2147483648, -2147483647, -4, -3, -2, -1, 0, 1, 2, 3, 4, 2147483647, 2147483648, 4294967296,
    9007199254740991, 9007199254740992, 9007199254740993, 9223372036854775807, 9223372036854775808,
    18446744073709551614, 18446744073709551615,
];

fn wide_const(i: usize) -> bool {
    i % 16 == 5
}

fn gen_pair(rng: &mut Rng, i: usize, surface_only: bool) -> (PExpr, PExpr) {
    let small: Vec<i128> = (-3..=3).collect();
    let mid: Vec<i128> = (-1..=12).collect();
    let wide_case = i % 8 == 7;
    let consts: &[i128] = if wide_case { &WIDE } else if i % 8 == 3 { &mid } else { &small };
    let g = GenCfg { consts, raw16: if !surface_only && i % 5 == 4 { 3 } else { 0 }, val16: if surface_only { 0 } else { 1 } };
    match rng.below(9) {
        8 => {
            // a required interval/atom against a supplied finite set of points scattered around its constants
            // (structural_supertype_of evaluates the required predicate at `possible_tps` of the supplied one)
            let p = if rng.chance(1, 2) { interval(rng, consts) } else { gen(rng, 1, &g) };
            let n = 1 + rng.below(4);
            let mut q = PExpr::Eq(*rng.pick(consts));
            for _ in 0..n {
                let c = (*rng.pick(consts) + rng.range(-1, 1) as i128).clamp(i32::MIN as i128, u64::MAX as i128);
                q = PExpr::Or(Box::new(q), Box::new(PExpr::Eq(c)));
            }
            (p, q)
        }
        0 | 1 => {
            let dp = 1 + rng.below(3) as usize;
            let dq = 1 + rng.below(3) as usize;
            (gen(rng, dp, &g), gen(rng, dq, &g))
        }
        2 | 3 => {
            let d = 1 + rng.below(3) as usize;
            let p = gen(rng, d, &g);
            let q = relative(&p, rng, &g);
            if rng.chance(1, 2) { (p, q) } else { (q, p) }
        }
        4 | 5 => (interval(rng, consts), interval(rng, consts)),
        6 => {
            let p = interval(rng, consts);
            let q = relative(&p, rng, &g);
            if rng.chance(1, 2) { (p, q) } else { (q, p) }
        }
        _ => {
            // disjunctions of points / intervals (enum-like types)
            let n = 1 + rng.below(3);
            let mut p = PExpr::Eq(*rng.pick(consts));
            for _ in 0..n {
                let nx = if rng.chance(2, 3) { PExpr::Eq(*rng.pick(consts)) } else { interval(rng, consts) };
                p = PExpr::Or(Box::new(p), Box::new(nx));
            }
            let q = relative(&p, rng, &g);
            if rng.chance(1, 2) { (p, q) } else { (q, p) }
        }
    }
}

fn main() {
    quiet_panics();
    let a = parse_args();
    match a.mode.as_str() {
        "gen" => {
            let mut rng = Rng::new(a.seed);
            let n_e2e: usize = a.rest.iter().position(|x| x == "--e2e").and_then(|k| a.rest.get(k + 1)).and_then(|s| s.parse().ok()).unwrap_or(0);
            // exhaustive: all ordered pairs of atoms over {0, 1} and conjunction/disjunction pairs of atoms over {0}
            let mut atoms = vec![PExpr::Val(true), PExpr::Val(false)];
            for c in [0i128, 1] {
                atoms.extend([PExpr::Eq(c), PExpr::Ge(c), PExpr::Le(c), PExpr::Ne(c), PExpr::Gt(c), PExpr::Lt(c)]);
            }
            let mut id = 0usize;
            for p in &atoms {
                for q in &atoms {
                    run_pair(&format!("x{}", id), p, q);
                    id += 1;
                }
            }
            if a.tier == "thorough" {
                let mut twos = vec![];
                for p in &atoms[2..] {
                    for q in &atoms[2..] {
                        twos.push(PExpr::And(Box::new(p.clone()), Box::new(q.clone())));
                        twos.push(PExpr::Or(Box::new(p.clone()), Box::new(q.clone())));
                    }
                }
                for p in &twos {
                    for q in &atoms[2..] {
                        run_pair(&format!("x{}", id), p, q);
                        id += 1;
                        run_pair(&format!("x{}", id), q, p);
                        id += 1;
                    }
                }
                let mut r2 = Rng::new(a.seed ^ 0x5555);
                for _ in 0..20000 {
                    let p = r2.pick(&twos).clone();
                    let q = r2.pick(&twos).clone();
                    run_pair(&format!("x{}", id), &p, &q);
                    id += 1;
                }
            }
            for i in 0..a.n {
                let (p, q) = gen_pair(&mut rng, i, false);
                run_pair(&format!("g{}", i), &p, &q);
            }
            let mut rng2 = Rng::new(a.seed.wrapping_add(0xE2E));
            for i in 0..n_e2e {
                let (p, q) = gen_pair(&mut rng2, i, true);
                if i % 4 == 1 {
                    // literal ascription: the supplied predicate is the singleton of a constant near the constants of P
                    let c = if wide_const(i) { *rng2.pick(&WIDE) } else { rng2.range(-4, 13) as i128 };
                    let not_fn = p.has_not() && rng2.chance(1, 2);
                    run_e2e(&format!("e{}", i), &p, &PExpr::Eq(c), true, not_fn);
                } else {
                    let not_fn = (p.has_not() || q.has_not()) && rng2.chance(1, 2);
                    run_e2e(&format!("e{}", i), &p, &q, false, not_fn);
                }
            }
        }
        "replay" => {
            for (id, input) in stdin_cases() {
                let t = input.trim();
                let (kind, body) = if let Some(b) = t.strip_prefix("(pair ") {
                    ("pair", b)
                } else if let Some(b) = t.strip_prefix("(e2e ") {
                    ("e2e", b)
                } else if let Some(b) = t.strip_prefix("(e2elit ") {
                    ("e2elit", b)
                } else if let Some(b) = t.strip_prefix("(e2en ") {
                    ("e2en", b)
                } else if let Some(b) = t.strip_prefix("(e2elitn ") {
                    ("e2elitn", b)
                } else {
                    println!("{}\t{}\tbad-input", id, input);
                    continue;
                };
                let body = body.strip_suffix(")").unwrap_or(body);
                match parse_many(body) {
                    Some(v) if v.len() == 2 => {
                        if kind == "pair" { run_pair(&id, &v[0], &v[1]) } else { run_e2e(&id, &v[0], &v[1], kind.starts_with("e2elit"), kind.ends_with('n')) }
                    }
                    _ => println!("{}\t{}\tbad-input", id, input),
                }
            }
        }
        _ => {
            eprintln!("usage: c03 gen [--e2e N]|replay");
            std::process::exit(2);
        }
    }
}
