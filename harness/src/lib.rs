//! Shared helpers for the correspondence harnesses (one binary per property under src/bin).
use std::fmt::Write as _;

/// HIR -> mini-HIR projection shared by C22, C23, C12 (DESIGN Appendix A.2)
pub mod minihir;

/// multi-module project descriptions, generator and materialisation shared by C20 and C19
pub mod multimod;

/// splitmix64: every random choice of a run derives from one state seeded by VERIF_SEED.
#[derive(Clone)]
pub struct Rng(pub u64);
impl Rng {
    pub fn new(seed: u64) -> Self {
        // scramble the seed (murmur3 finaliser): with an affine initialisation consecutive seeds would give the same
        // stream shifted by one draw
        let mut z = seed.wrapping_add(0x1234_5678_9ABC_DEF1);
        z = (z ^ (z >> 33)).wrapping_mul(0xFF51AFD7ED558CCD);
        z = (z ^ (z >> 33)).wrapping_mul(0xC4CEB9FE1A85EC53);
        Rng(z ^ (z >> 33))
    }
    pub fn next(&mut self) -> u64 {
        self.0 = self.0.wrapping_add(0x9E3779B97F4A7C15);
        let mut z = self.0;
        z = (z ^ (z >> 30)).wrapping_mul(0xBF58476D1CE4E5B9);
        z = (z ^ (z >> 27)).wrapping_mul(0x94D049BB133111EB);
        z ^ (z >> 31)
    }
    pub fn below(&mut self, n: u64) -> u64 {
        if n == 0 { 0 } else { self.next() % n }
    }
    pub fn range(&mut self, lo: i64, hi: i64) -> i64 {
        lo + self.below((hi - lo + 1) as u64) as i64
    }
    pub fn chance(&mut self, num: u64, den: u64) -> bool {
        self.below(den) < num
    }
    pub fn pick<'a, T>(&mut self, xs: &'a [T]) -> &'a T {
        &xs[self.below(xs.len() as u64) as usize]
    }
}

/// JSON-style escaping used by the S-expression line protocol (mirrors ErgVerif.Sexp.escChars).
pub fn quote(s: &str) -> String {
    let mut o = String::from("\"");
    for c in s.chars() {
        match c {
            '"' => o.push_str("\\\""),
            '\\' => o.push_str("\\\\"),
            '\n' => o.push_str("\\n"),
            '\t' => o.push_str("\\t"),
            '\r' => o.push_str("\\r"),
            c if (c as u32) < 32 || (c as u32) >= 127 => {
                if (c as u32) < 65536 {
                    write!(o, "\\u{:04x}", c as u32).unwrap();
                } else {
                    write!(o, "\\U{:06x}", c as u32).unwrap();
                }
            }
            c => o.push(c),
        }
    }
    o.push('"');
    o
}

/// Inverse of `quote` for replaying case files.
pub fn unquote(s: &str) -> Option<String> {
    let s = s.strip_prefix('"')?.strip_suffix('"')?;
    let mut o = String::new();
    let cs: Vec<char> = s.chars().collect();
    let mut i = 0;
    while i < cs.len() {
        if cs[i] == '\\' {
            i += 1;
            match *cs.get(i)? {
                'n' => o.push('\n'),
                't' => o.push('\t'),
                'r' => o.push('\r'),
                'u' => {
                    let h: String = cs.get(i + 1..i + 5)?.iter().collect();
                    o.push(char::from_u32(u32::from_str_radix(&h, 16).ok()?)?);
                    i += 4;
                }
                'U' => {
                    let h: String = cs.get(i + 1..i + 7)?.iter().collect();
                    o.push(char::from_u32(u32::from_str_radix(&h, 16).ok()?)?);
                    i += 6;
                }
                c => o.push(c),
            }
        } else {
            o.push(cs[i]);
        }
        i += 1;
    }
    Some(o)
}

/// Run `f` catching panics; a panic is an outcome `crash(<message>)`, never an abort of the run.
pub fn catch<T>(f: impl FnOnce() -> T + std::panic::UnwindSafe) -> Result<T, String> {
    std::panic::catch_unwind(f).map_err(|e| {
        if let Some(s) = e.downcast_ref::<&str>() {
            s.to_string()
        } else if let Some(s) = e.downcast_ref::<String>() {
            s.clone()
        } else {
            "panic".to_string()
        }
    })
}

/// Silence the default panic hook (panics are outcomes here).
pub fn quiet_panics() {
    std::panic::set_hook(Box::new(|_| {}));
}

/// Command-line conventions shared by all harness binaries:
///   <bin> gen --seed S --n N [--tier quick|thorough]    generated cases, one per line: id \t input \t impl-output
///   <bin> replay                                          reads `id \t input` lines on stdin, prints the same format
pub struct Args {
    pub mode: String,
    pub seed: u64,
    pub n: usize,
    pub tier: String,
    pub rest: Vec<String>,
}
pub fn parse_args() -> Args {
    let av: Vec<String> = std::env::args().collect();
    let mut a = Args { mode: av.get(1).cloned().unwrap_or_default(), seed: 0, n: 100, tier: "quick".into(), rest: vec![] };
    let mut i = 2;
    while i < av.len() {
        match av[i].as_str() {
            "--seed" => { a.seed = av[i + 1].parse().unwrap(); i += 1; }
            "--n" => { a.n = av[i + 1].parse().unwrap(); i += 1; }
            "--tier" => { a.tier = av[i + 1].clone(); i += 1; }
            x => a.rest.push(x.to_string()),
        }
        i += 1;
    }
    a
}

pub fn stdin_cases() -> Vec<(String, String)> {
    use std::io::BufRead;
    let mut v = vec![];
    for l in std::io::stdin().lock().lines() {
        let l = l.unwrap();
        let mut it = l.splitn(3, '\t');
        let id = it.next().unwrap_or("").to_string();
        if id.is_empty() { continue; }
        let input = it.next().unwrap_or("").to_string();
        v.push((id, input));
    }
    v
}
