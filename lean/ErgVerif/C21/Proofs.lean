import ErgVerif.C21.Spec
/-!
# C21 — helper lemmas (invariant, dictionary algebra, the visited-set lemmas, per-operation refinement)
-/
namespace ErgVerif.C21
open ErgVerif.Graph

/-! ## `Dict` algebra: every operation characterised through `dget` -/

theorem dget_nil (q : Path) : dget [] q = none := rfl

theorem dget_cons (kv : Path × Nat) (ix : Index) (q : Path) :
    dget (kv :: ix) q = if kv.1 = q then some kv.2 else dget ix q := by
  unfold dget
  by_cases h : kv.1 = q
  · simp [h]
  · simp [h]

theorem dget_append (a b : Index) (q : Path) :
    dget (a ++ b) q = match dget a q with | some i => some i | none => dget b q := by
  induction a with
  | nil => simp [dget_nil]
  | cons kv a ih =>
    simp only [List.cons_append, dget_cons]
    by_cases h : kv.1 = q <;> simp [h, ih]

theorem dget_dremove (ix : Index) (p q : Path) :
    dget (dremove ix p) q = if q = p then none else dget ix q := by
  induction ix with
  | nil => simp [dremove, dget_nil]
  | cons kv ix ih =>
    unfold dremove at ih ⊢
    by_cases hk : kv.1 = p
    · have hb : (kv.1 != p) = false := by simp [hk]
      simp only [List.filter_cons, hb, Bool.false_eq_true, if_false]
      rw [ih, dget_cons]
      by_cases hq : q = p
      · simp [hq]
      · have : ¬ kv.1 = q := by rw [hk]; exact fun h => hq h.symm
        simp [hq, this]
    · have hb : (kv.1 != p) = true := by simp [hk]
      simp only [List.filter_cons, hb, if_true]
      rw [dget_cons, dget_cons, ih]
      by_cases hq : q = p
      · have : ¬ kv.1 = q := by rw [hq]; exact hk
        simp [hq, hk]
      · simp [hq]

theorem dget_shift (ix : Index) (i : Nat) (q : Path) :
    dget (ix.map (fun kv => if kv.2 > i then (kv.1, kv.2 - 1) else kv)) q =
      (dget ix q).map (fun j => if j > i then j - 1 else j) := by
  induction ix with
  | nil => simp [dget_nil]
  | cons kv ix ih =>
    simp only [List.map_cons, dget_cons]
    by_cases hgt : kv.2 > i <;> by_cases h : kv.1 = q <;> simp [hgt, h, ih]

theorem dget_mapKey (ix : Index) (p : Path) (i : Nat) (q : Path) :
    dget (ix.map (fun kv => if kv.1 == p then (p, i) else kv)) q =
      if q = p then (dget ix q).map (fun _ => i) else dget ix q := by
  induction ix with
  | nil => simp [dget_nil]
  | cons kv ix ih =>
    simp only [List.map_cons, dget_cons]
    by_cases hk : kv.1 = p
    · by_cases hq : q = p
      · subst hq; simp [hk]
      · have h1 : ¬ p = q := fun h => hq h.symm
        have h2 : ¬ kv.1 = q := by rw [hk]; exact h1
        simp only [hk, beq_self_eq_true, if_true, h1, if_false, ih, hq, h2]
    · by_cases h : kv.1 = q
      · have : ¬ q = p := by rw [← h]; exact hk
        simp [hk, h, this]
      · simp only [beq_iff_eq] at ih
        simp [hk, h, ih]

theorem dget_dinsert (ix : Index) (p : Path) (i : Nat) (q : Path) :
    dget (dinsert ix p i) q = if q = p then some i else dget ix q := by
  unfold dinsert
  cases hp : dget ix p with
  | none =>
    simp only [Option.isSome_none, Bool.false_eq_true, if_false, dget_append, dget_cons, dget_nil]
    by_cases hq : q = p
    · subst hq; simp [hp]
    · have : ¬ p = q := fun h => hq h.symm
      cases dget ix q <;> simp [hq, this]
  | some j =>
    simp only [Option.isSome_some, if_true, dget_mapKey]
    by_cases hq : q = p
    · subst hq; simp [hp]
    · simp [hq]

/-! ## The invariant -/

/-- the index is exactly the position map of the vector (hence ids are unique), and every `depends_on`
    list is duplicate-free (it stands for a `Set`) -/
structure Inv (s : MG) : Prop where
  idx : ∀ p i, dget s.index p = some i ↔ (s.graph[i]?).map (·.id) = some p
  nodup : ∀ n ∈ s.graph, n.deps.Nodup

theorem Inv.uniq {s : MG} (h : Inv s) {n m : Node} (hn : n ∈ s.graph) (hm : m ∈ s.graph)
    (e : n.id = m.id) : n = m := by
  obtain ⟨i, hi⟩ := List.mem_iff_getElem?.mp hn
  obtain ⟨j, hj⟩ := List.mem_iff_getElem?.mp hm
  have h1 := (h.idx n.id i).mpr (by simp [hi])
  have h2 := (h.idx n.id j).mpr (by simp [hj, e])
  rw [h1] at h2
  cases h2
  rw [hi] at hj; cases hj; rfl

theorem Inv.getNode_cases {s : MG} (h : Inv s) (p : Path) :
    (∃ n, n ∈ s.graph ∧ n.id = p ∧ s.getNode p = .ok (some n)) ∨
    ((∀ n ∈ s.graph, n.id ≠ p) ∧ s.getNode p = .ok none) := by
  unfold MG.getNode
  cases hd : dget s.index p with
  | none =>
    right
    refine ⟨?_, rfl⟩
    intro n hn e
    obtain ⟨i, hi⟩ := List.mem_iff_getElem?.mp hn
    have := (h.idx p i).mpr (by simp [hi, e])
    rw [hd] at this; cases this
  | some i =>
    left
    have := (h.idx p i).mp hd
    cases hg : s.graph[i]? with
    | none => simp [hg] at this
    | some n =>
      simp [hg] at this
      exact ⟨n, List.mem_of_getElem? hg, this, by simp only [hg]⟩

theorem Inv.getNode_mem {s : MG} (h : Inv s) {n : Node} (hn : n ∈ s.graph) :
    s.getNode n.id = .ok (some n) := by
  rcases h.getNode_cases n.id with ⟨m, hm, e, hg⟩ | ⟨hno, _⟩
  · rw [hg, h.uniq hm hn e]
  · exact absurd rfl (hno n hn)

theorem Inv.getNode_ok {s : MG} (h : Inv s) {p : Path} {n : Node} (hg : s.getNode p = .ok (some n)) :
    n ∈ s.graph ∧ n.id = p := by
  rcases h.getNode_cases p with ⟨m, hm, e, hg'⟩ | ⟨_, hg'⟩
  · rw [hg] at hg'; cases hg'; exact ⟨hm, e⟩
  · rw [hg] at hg'; cases hg'

theorem Inv.getNode_none {s : MG} (h : Inv s) {p : Path} (hg : s.getNode p = .ok none) :
    ∀ n ∈ s.graph, n.id ≠ p := by
  rcases h.getNode_cases p with ⟨m, hm, e, hg'⟩ | ⟨hno, _⟩
  · rw [hg] at hg'; cases hg'
  · exact hno

theorem Inv.getNode_ne_error {s : MG} (h : Inv s) (p : Path) (e : Err) : s.getNode p ≠ .error e := by
  rcases h.getNode_cases p with ⟨m, _, _, hg'⟩ | ⟨_, hg'⟩ <;> rw [hg'] <;> intro h <;> cases h

theorem Inv.edges_iff {s : MG} (h : Inv s) {n : Node} (hn : n ∈ s.graph) (d : Path) :
    (abs s).edges n.id d ↔ d ∈ n.deps := by
  constructor
  · rintro ⟨m, hm, e, hd⟩
    rw [h.uniq hn hm e.symm]; exact hd
  · intro hd; exact ⟨n, hn, rfl, hd⟩

theorem not_edges_of_not_node {s : MG} {p : Path} (hp : ∀ n ∈ s.graph, n.id ≠ p) (d : Path) :
    ¬ (abs s).edges p d := by
  rintro ⟨m, hm, e, _⟩; exact hp m hm e

/-! ## Reachability in a reference graph -/

theorem RG.Reach1.tail {g : RG} {a b c : Path} (h : g.Reach1 a b) (e : g.edges b c) : g.Reach1 a c := by
  induction h with
  | edge e1 => exact .step e1 (.edge e)
  | step e1 _ ih => exact .step e1 (ih e)

theorem RG.Reach1.trans {g : RG} {a b c : Path} (h : g.Reach1 a b) (h2 : g.Reach1 b c) : g.Reach1 a c := by
  induction h with
  | edge e1 => exact .step e1 h2
  | step e1 _ ih => exact .step e1 (ih h2)

theorem RG.Reach1.exists_last {g : RG} {a c : Path} (h : g.Reach1 a c) :
    ∃ x, (x = a ∨ g.Reach1 a x) ∧ g.edges x c := by
  induction h with
  | edge e1 => exact ⟨_, Or.inl rfl, e1⟩
  | step e1 _ ih =>
    obtain ⟨x, hx, ex⟩ := ih
    refine ⟨x, Or.inr ?_, ex⟩
    rcases hx with rfl | hx
    · exact .edge e1
    · exact .step e1 hx

/-- a set closed under successors contains everything reachable from a member -/
theorem RG.Reach1.closed {g : RG} (S : Path → Prop) (hS : ∀ x, S x → ∀ y, g.edges x y → S y)
    {a b : Path} (h : g.Reach1 a b) (ha : S a) : S b := by
  induction h with
  | edge e1 => exact hS _ ha _ e1
  | step e1 _ ih => exact ih (hS _ ha _ e1)

/-! ## The fuel measure: registered nodes not yet visited -/

def unvisited (s : MG) (vis : List Path) : Nat := (s.graph.filter (fun n => !vis.contains n.id)).length

theorem filter_length_mono {α} (l : List α) (p q : α → Bool) (h : ∀ a, p a = true → q a = true) :
    (l.filter p).length ≤ (l.filter q).length := by
  induction l with
  | nil => simp
  | cons a l ih =>
    simp only [List.filter_cons]
    by_cases hp : p a = true
    · simp [hp, h a hp]; exact ih
    · by_cases hq : q a = true
      · simp [hp, hq]; omega
      · simp [hp, hq]; exact ih

theorem filter_length_lt {α} (l : List α) (p q : α → Bool) (h : ∀ a, p a = true → q a = true)
    (x : α) (hx : x ∈ l) (hq : q x = true) (hp : p x = false) :
    (l.filter p).length < (l.filter q).length := by
  induction l with
  | nil => cases hx
  | cons a l ih =>
    simp only [List.filter_cons]
    rcases List.mem_cons.mp hx with rfl | hx
    · have := filter_length_mono l p q h
      simp [hp, hq]; omega
    · have := ih hx
      by_cases hpa : p a = true
      · simp [hpa, h a hpa]; exact this
      · by_cases hqa : q a = true
        · simp [hpa, hqa]; omega
        · simp [hpa, hqa]; exact this

theorem unvisited_mono (s : MG) {v v' : List Path} (h : ∀ x ∈ v, x ∈ v') : unvisited s v' ≤ unvisited s v := by
  apply filter_length_mono
  intro a ha
  simp at ha ⊢
  exact fun hc => ha (h _ hc)

theorem unvisited_lt (s : MG) {v : List Path} {n : Node} (hn : n ∈ s.graph) (hv : n.id ∉ v) :
    unvisited s (n.id :: v) < unvisited s v := by
  apply filter_length_lt _ _ _ _ n hn
  · simp [hv]
  · simp
  · intro a ha
    simp at ha ⊢
    exact ha.2

/-! ## `deep_depends_on`: the visited-set lemma -/

/-- what a `false` answer leaves behind: every newly visited path has no edge to `t` and all of its successors
    are visited -/
def NewClosed (g : RG) (t : Path) (vis vis' : List Path) : Prop :=
  ∀ x ∈ vis', x ∉ vis → ¬ g.edges x t ∧ ∀ y, g.edges x y → y ∈ vis'

/-- specification of one call (`src = [p]`) or of the `any` loop (`src` = the dependency list): it never fails,
    the visited set grows, `true` exhibits a path to an edge into `t`, `false` leaves a closed visited set -/
def DeepOk (s : MG) (t : Path) (src vis : List Path) (r : Except Err (Bool × List Path)) : Prop :=
  ∃ b vis', r = .ok (b, vis') ∧ (∀ x ∈ vis, x ∈ vis') ∧ (b = false → ∀ d ∈ src, d ∈ vis') ∧
    (b = true → ∃ d ∈ src, ∃ x, (x = d ∨ (abs s).Reach1 d x) ∧ (abs s).edges x t) ∧
    (b = false → NewClosed (abs s) t vis vis')

theorem anyLoop_ok (s : MG) (t : Path) (fuel : Nat)
    (IH : ∀ p vis, unvisited s vis < fuel → DeepOk s t [p] vis (MG.deepAux s t fuel p vis)) :
    ∀ ds vis, unvisited s vis < fuel → DeepOk s t ds vis (MG.anyLoop (MG.deepAux s t fuel) ds vis) := by
  intro ds
  induction ds with
  | nil =>
    intro vis _
    refine ⟨false, vis, rfl, fun _ h => h, ?_, ?_, ?_⟩
    · intro _ d hd; cases hd
    · intro h; cases h
    · intro _ x hx hnx; exact absurd hx hnx
  | cons d ds ih =>
    intro vis hlt
    obtain ⟨b, v1, h1, sub1, in1, tr1, fl1⟩ := IH d vis hlt
    cases b with
    | true =>
      refine ⟨true, v1, by simp [MG.anyLoop, h1], sub1, ?_, ?_, ?_⟩
      · intro h; cases h
      · intro _
        obtain ⟨d', hd', x, hx, ex⟩ := tr1 rfl
        simp at hd'; subst hd'
        exact ⟨d', by simp, x, hx, ex⟩
      · intro h; cases h
    | false =>
      have hlt2 : unvisited s v1 < fuel := Nat.lt_of_le_of_lt (unvisited_mono s sub1) hlt
      obtain ⟨b2, v2, h2, sub2, in2, tr2, fl2⟩ := ih v1 hlt2
      refine ⟨b2, v2, by simp [MG.anyLoop, h1, h2], fun x hx => sub2 x (sub1 x hx), ?_, ?_, ?_⟩
      · intro hb d' hd'
        rcases List.mem_cons.mp hd' with rfl | hd'
        · exact sub2 _ (in1 rfl _ (by simp))
        · exact in2 hb d' hd'
      · intro hb
        obtain ⟨d', hd', x, hx, ex⟩ := tr2 hb
        exact ⟨d', List.mem_cons_of_mem _ hd', x, hx, ex⟩
      · intro hb x hx hnx
        by_cases hx1 : x ∈ v1
        · obtain ⟨a, c⟩ := fl1 rfl x hx1 hnx
          exact ⟨a, fun y ey => sub2 y (c y ey)⟩
        · exact fl2 hb x hx hx1

theorem deepAux_ok {s : MG} (h : Inv s) (t : Path) :
    ∀ fuel p vis, unvisited s vis < fuel → DeepOk s t [p] vis (MG.deepAux s t fuel p vis) := by
  intro fuel
  induction fuel with
  | zero => intro p vis hlt; omega
  | succ fuel ih =>
    intro p vis hlt
    unfold MG.deepAux
    by_cases hv : vis.contains p = true
    · simp only [hv, if_true]
      refine ⟨false, vis, rfl, fun _ h => h, ?_, ?_, ?_⟩
      · intro _ d hd; simp at hd; subst hd; simpa using hv
      · intro h; cases h
      · intro _ x hx hnx; exact absurd hx hnx
    · have hpv : p ∉ vis := by simpa using hv
      simp only [hv, Bool.false_eq_true, if_false]
      rcases h.getNode_cases p with ⟨n, hn, hid, hg⟩ | ⟨hno, hg⟩
      · rw [hg]
        simp only
        by_cases ht : n.deps.contains t = true
        · simp only [ht, if_true]
          refine ⟨true, p :: vis, rfl, fun x hx => List.mem_cons_of_mem _ hx, ?_, ?_, ?_⟩
          · intro h; cases h
          · intro _
            refine ⟨p, by simp, p, Or.inl rfl, ?_⟩
            rw [← hid]; exact (h.edges_iff hn t).mpr (by simpa using ht)
          · intro h; cases h
        · simp only [ht, Bool.false_eq_true, if_false]
          have htn : t ∉ n.deps := by simpa using ht
          have hlt' : unvisited s (p :: vis) < fuel := by
            have := unvisited_lt s hn (by rw [hid]; exact hpv)
            rw [hid] at this; omega
          obtain ⟨b, v', h1, sub, inn, tr, fl⟩ := anyLoop_ok s t fuel ih n.deps (p :: vis) hlt'
          refine ⟨b, v', h1, fun x hx => sub x (List.mem_cons_of_mem _ hx), ?_, ?_, ?_⟩
          · intro _ d hd; simp at hd; subst hd; exact sub _ (by simp)
          · intro hb
            obtain ⟨d, hd, x, hx, ex⟩ := tr hb
            have epd : (abs s).edges p d := by rw [← hid]; exact (h.edges_iff hn d).mpr hd
            refine ⟨p, by simp, x, Or.inr ?_, ex⟩
            rcases hx with rfl | hx
            · exact .edge epd
            · exact .step epd hx
          · intro hb x hx hnx
            by_cases hxp : x = p
            · subst hxp
              refine ⟨?_, ?_⟩
              · rw [← hid]; exact fun e => htn ((h.edges_iff hn t).mp e)
              · intro y ey
                rw [← hid] at ey
                exact inn hb y ((h.edges_iff hn y).mp ey)
            · exact fl hb x hx (by simp [hxp, hnx])
      · rw [hg]
        simp only
        refine ⟨false, p :: vis, rfl, fun x hx => List.mem_cons_of_mem _ hx, ?_, ?_, ?_⟩
        · intro _ d hd; simp at hd; subst hd; simp
        · intro h; cases h
        · intro _ x hx hnx
          have : x = p := by
            rcases List.mem_cons.mp hx with rfl | hx
            · rfl
            · exact absurd hx hnx
          subst this
          exact ⟨not_edges_of_not_node hno t, fun y ey => absurd ey (not_edges_of_not_node hno y)⟩

/-- `deep_depends_on(p, t)` never fails and answers exactly "t is reachable from p by at least one edge" -/
theorem deepDependsOn_spec {s : MG} (h : Inv s) (p t : Path) :
    ∃ b, s.deepDependsOn p t = .ok b ∧ (b = true ↔ (abs s).Reach1 p t) := by
  obtain ⟨b, v', h1, _, inn, tr, fl⟩ :=
    deepAux_ok h t (s.graph.length + 1) p [] (by
      unfold unvisited
      exact Nat.lt_succ_of_le (List.length_filter_le _ _))
  refine ⟨b, by simp [MG.deepDependsOn, h1], ?_⟩
  constructor
  · intro hb
    obtain ⟨d, hd, x, hx, ex⟩ := tr hb
    simp at hd; subst hd
    rcases hx with rfl | hx
    · exact .edge ex
    · exact hx.tail ex
  · intro hr
    cases b with
    | true => rfl
    | false =>
      exfalso
      have hcl := fl rfl
      have hp : p ∈ v' := inn rfl p (by simp)
      obtain ⟨x, hx, ex⟩ := hr.exists_last
      have hxv : x ∈ v' := by
        rcases hx with rfl | hx
        · exact hp
        · exact hx.closed (fun z => z ∈ v') (fun z hz y ey => (hcl z hz (by simp)).2 y ey) hp
      exact (hcl x hxv (by simp)).1 ex

/-! ## `ancestors` -/

/-- specification of `ancestors_` (`src = none`, called on `p`) and of its loop (`src = some ds`):
    never fails; both sets grow; every new ancestor is reachable and has been visited; every newly visited
    path has all its successors among the ancestors -/
def AncOk (s : MG) (p : Path) (ds : Option (List Path)) (anc vis : List Path)
    (r : Except Err (List Path × List Path)) : Prop :=
  ∃ anc' vis', r = .ok (anc', vis') ∧ (∀ x ∈ anc, x ∈ anc') ∧ (∀ x ∈ vis, x ∈ vis') ∧
    (match ds with
     | none => p ∈ vis' ∧ ∀ y ∈ anc', y ∉ anc → (abs s).Reach1 p y ∧ y ∈ vis'
     | some ds => (∀ d ∈ ds, d ∈ anc') ∧
        ∀ y ∈ anc', y ∉ anc → (∃ d ∈ ds, y = d ∨ (abs s).Reach1 d y) ∧ y ∈ vis') ∧
    (∀ x ∈ vis', x ∉ vis → ∀ y, (abs s).edges x y → y ∈ anc') ∧
    (anc.Nodup → anc'.Nodup)

theorem ancLoop_ok (s : MG) (fuel : Nat)
    (IH : ∀ p anc vis, unvisited s vis < fuel → AncOk s p none anc vis (MG.ancAux s fuel p (anc, vis))) :
    ∀ ds anc vis, unvisited s vis < fuel →
      AncOk s 0 (some ds) anc vis (MG.ancLoop (MG.ancAux s fuel) ds (anc, vis)) := by
  intro ds
  induction ds with
  | nil =>
    intro anc vis _
    refine ⟨anc, vis, rfl, fun _ h => h, fun _ h => h, ⟨?_, ?_⟩, ?_, id⟩
    · intro d hd; cases hd
    · intro y hy hny; exact absurd hy hny
    · intro x hx hnx; exact absurd hx hnx
  | cons d ds ih =>
    intro anc vis hlt
    unfold MG.ancLoop
    by_cases hd : anc.contains d = true
    · simp only [hd, if_true]
      obtain ⟨a2, v2, h2, sa, sv, ⟨in2, new2⟩, cl2, nd2⟩ := ih anc vis hlt
      refine ⟨a2, v2, h2, sa, sv, ⟨?_, ?_⟩, cl2, nd2⟩
      · intro d' hd'
        rcases List.mem_cons.mp hd' with rfl | hd'
        · exact sa _ (by simpa using hd)
        · exact in2 d' hd'
      · intro y hy hny
        obtain ⟨⟨d', hd', hr⟩, hv⟩ := new2 y hy hny
        exact ⟨⟨d', List.mem_cons_of_mem _ hd', hr⟩, hv⟩
    · have hda : d ∉ anc := by simpa using hd
      simp only [hd, Bool.false_eq_true, if_false]
      obtain ⟨a1, v1, h1, sa1, sv1, ⟨pv1, new1⟩, cl1, nd1⟩ := IH d (anc ++ [d]) vis hlt
      rw [h1]
      simp only
      have hlt2 : unvisited s v1 < fuel := Nat.lt_of_le_of_lt (unvisited_mono s sv1) hlt
      obtain ⟨a2, v2, h2, sa2, sv2, ⟨in2, new2⟩, cl2, nd2⟩ := ih a1 v1 hlt2
      refine ⟨a2, v2, h2, fun x hx => sa2 x (sa1 x (by simp [hx])), fun x hx => sv2 x (sv1 x hx),
        ⟨?_, ?_⟩, ?_, ?_⟩
      · intro d' hd'
        rcases List.mem_cons.mp hd' with rfl | hd'
        · exact sa2 _ (sa1 _ (by simp))
        · exact in2 d' hd'
      · intro y hy hny
        by_cases hy1 : y ∈ a1
        · by_cases hyd : y = d
          · subst hyd
            exact ⟨⟨y, by simp, Or.inl rfl⟩, sv2 _ pv1⟩
          · obtain ⟨hr, hv⟩ := new1 y hy1 (by simp [hny, hyd])
            exact ⟨⟨d, by simp, Or.inr hr⟩, sv2 _ hv⟩
        · obtain ⟨⟨d', hd', hr⟩, hv⟩ := new2 y hy hy1
          exact ⟨⟨d', List.mem_cons_of_mem _ hd', hr⟩, hv⟩
      · intro x hx hnx y ey
        by_cases hx1 : x ∈ v1
        · exact sa2 y (cl1 x hx1 hnx y ey)
        · exact cl2 x hx hx1 y ey
      · intro hnd
        apply nd2; apply nd1
        rw [List.nodup_append]
        exact ⟨hnd, by simp, by intro a ha b hb; simp at hb; subst hb; exact fun e => hda (e ▸ ha)⟩

theorem ancAux_ok {s : MG} (h : Inv s) :
    ∀ fuel p anc vis, unvisited s vis < fuel → AncOk s p none anc vis (MG.ancAux s fuel p (anc, vis)) := by
  intro fuel
  induction fuel with
  | zero => intro p anc vis hlt; omega
  | succ fuel ih =>
    intro p anc vis hlt
    unfold MG.ancAux
    by_cases hv : vis.contains p = true
    · simp only [hv, if_true]
      refine ⟨anc, vis, rfl, fun _ h => h, fun _ h => h, ⟨by simpa using hv, ?_⟩, ?_, id⟩
      · intro y hy hny; exact absurd hy hny
      · intro x hx hnx; exact absurd hx hnx
    · have hpv : p ∉ vis := by simpa using hv
      simp only [hv, Bool.false_eq_true, if_false]
      unfold MG.parents
      rcases h.getNode_cases p with ⟨n, hn, hid, hg⟩ | ⟨hno, hg⟩
      · rw [hg]
        simp only
        have hlt' : unvisited s (p :: vis) < fuel := by
          have := unvisited_lt s hn (by rw [hid]; exact hpv)
          rw [hid] at this; omega
        obtain ⟨a', v', h1, sa, sv, ⟨inn, new⟩, cl, nd⟩ := ancLoop_ok s fuel ih n.deps anc (p :: vis) hlt'
        refine ⟨a', v', h1, sa, fun x hx => sv x (List.mem_cons_of_mem _ hx), ⟨sv _ (by simp), ?_⟩, ?_, nd⟩
        · intro y hy hny
          obtain ⟨⟨d, hd, hr⟩, hvy⟩ := new y hy hny
          have epd : (abs s).edges p d := by rw [← hid]; exact (h.edges_iff hn d).mpr hd
          refine ⟨?_, hvy⟩
          rcases hr with rfl | hr
          · exact .edge epd
          · exact .step epd hr
        · intro x hx hnx y ey
          by_cases hxp : x = p
          · subst hxp
            rw [← hid] at ey
            exact inn y ((h.edges_iff hn y).mp ey)
          · exact cl x hx (by simp [hxp, hnx]) y ey
      · rw [hg]
        simp only
        refine ⟨anc, p :: vis, rfl, fun _ h => h, fun x hx => List.mem_cons_of_mem _ hx, ⟨by simp, ?_⟩, ?_, id⟩
        · intro y hy hny; exact absurd hy hny
        · intro x hx hnx y ey
          have : x = p := by
            rcases List.mem_cons.mp hx with rfl | hx
            · rfl
            · exact absurd hx hnx
          subst this
          exact absurd ey (not_edges_of_not_node hno y)

/-- `ancestors(p)` never fails and is exactly the set of paths reachable from `p` by at least one edge -/
theorem ancestors_spec {s : MG} (h : Inv s) (p : Path) :
    ∃ l, s.ancestors p = .ok l ∧ l.Nodup ∧ ∀ y, y ∈ l ↔ (abs s).Reach1 p y := by
  obtain ⟨a', v', h1, _, _, ⟨pv, new⟩, cl, nd⟩ :=
    ancAux_ok h (s.graph.length + 1) p [] [] (by
      unfold unvisited
      exact Nat.lt_succ_of_le (List.length_filter_le _ _))
  refine ⟨a', by simp [MG.ancestors, h1], nd List.nodup_nil, ?_⟩
  intro y
  constructor
  · intro hy; exact (new y hy (by simp)).1
  · intro hr
    have hcl : ∀ x, x ∈ a' → ∀ z, (abs s).edges x z → z ∈ a' :=
      fun x hx z ez => cl x (new x hx (by simp)).2 (by simp) z ez
    cases hr with
    | edge e => exact cl p pv (by simp) y e
    | step e r => exact r.closed (fun z => z ∈ a') hcl (cl p pv (by simp) _ e)

/-! ## Per-operation preservation and refinement -/

theorem RG.ext' {g h : RG} (hn : ∀ x, g.nodes x ↔ h.nodes x) (he : ∀ x y, g.edges x y ↔ h.edges x y) : g = h := by
  cases g; cases h
  congr
  · funext x; exact propext (hn x)
  · funext x y; exact propext (he x y)

theorem RG.Reach1.mono {g h : RG} (he : ∀ x y, g.edges x y → h.edges x y) {a b : Path} (r : g.Reach1 a b) :
    h.Reach1 a b := by
  induction r with
  | edge e => exact .edge (he _ _ e)
  | step e _ ih => exact .step (he _ _ e) ih

theorem Inv.init : Inv MG.new := ⟨by intro p i; simp [MG.new, dget_nil], by intro n hn; cases hn⟩

/-- the index maps exactly the ids of the vector -/
theorem Inv.dget_isSome {s : MG} (h : Inv s) (p : Path) : (dget s.index p).isSome ↔ (abs s).nodes p := by
  constructor
  · intro hs
    obtain ⟨i, hi⟩ := Option.isSome_iff_exists.mp hs
    have := (h.idx p i).mp hi
    cases hg : s.graph[i]? with
    | none => simp [hg] at this
    | some n => simp [hg] at this; exact ⟨n, List.mem_of_getElem? hg, this⟩
  · rintro ⟨n, hn, e⟩
    obtain ⟨i, hi⟩ := List.mem_iff_getElem?.mp hn
    rw [(h.idx p i).mpr (by simp [hi, e])]; rfl

theorem Inv.dget_none {s : MG} (h : Inv s) {p : Path} (hd : dget s.index p = none) : ¬ (abs s).nodes p := by
  intro hn; have := (h.dget_isSome p).mpr hn; rw [hd] at this; cases this

theorem Inv.dget_lt {s : MG} (h : Inv s) {p : Path} {i : Nat} (hd : dget s.index p = some i) :
    ∃ n, s.graph[i]? = some n ∧ n.id = p := by
  have := (h.idx p i).mp hd
  cases hg : s.graph[i]? with
  | none => simp [hg] at this
  | some n => simp [hg] at this; exact ⟨n, rfl, this⟩

/-- replacing every node by one with the same id (and a duplicate-free dependency list) keeps the invariant -/
theorem Inv.mapDeps {s : MG} (h : Inv s) (f : Node → Node) (hid : ∀ n, (f n).id = n.id)
    (hnd : ∀ n ∈ s.graph, (f n).deps.Nodup) : Inv { s with graph := s.graph.map f } := by
  refine ⟨?_, ?_⟩
  · intro p i
    rw [h.idx p i]
    simp only [List.getElem?_map, Option.map_map]
    cases s.graph[i]? <;> simp [hid]
  · intro n hn
    obtain ⟨m, hm, rfl⟩ := List.mem_map.mp hn
    exact hnd m hm

theorem mem_set_iff' {α} {l : List α} {i : Nat} {u v : α} (h : l[i]? = some u) (x : α) :
    x ∈ l.set i v ↔ x = v ∨ ∃ j, j ≠ i ∧ l[j]? = some x := by
  have hi : i < l.length := (List.getElem?_eq_some_iff.mp h).1
  constructor
  · intro hx
    obtain ⟨j, hj⟩ := List.mem_iff_getElem?.mp hx
    rw [List.getElem?_set] at hj
    by_cases hij : i = j
    · simp [hij] at hj
      exact Or.inl hj.2.symm
    · simp [hij] at hj
      exact Or.inr ⟨j, fun e => hij e.symm, hj⟩
  · rintro (rfl | ⟨j, hji, hj⟩)
    · exact List.mem_iff_getElem?.mpr ⟨i, by simp [hi]⟩
    · exact List.mem_iff_getElem?.mpr ⟨j, by rw [List.getElem?_set]; simp [hj]; exact fun e => absurd e.symm hji⟩

/-! ### add_node_if_none -/

theorem add_inv {s : MG} (h : Inv s) (p : Path) : Inv (s.addNodeIfNone p) := by
  unfold MG.addNodeIfNone
  cases hd : dget s.index p with
  | some i => exact h
  | none =>
    refine ⟨?_, ?_⟩
    · intro q i
      simp only [dget_dinsert]
      have hnp := h.dget_none hd
      by_cases hq : q = p
      · subst hq
        simp only [if_true]
        constructor
        · intro e; cases e; simp
        · intro e
          by_cases hi : i < s.graph.length
          · rw [List.getElem?_append_left hi] at e
            exact absurd ((h.dget_isSome q).mp (by rw [(h.idx q i).mpr e]; rfl)) hnp
          · by_cases hi2 : i = s.graph.length
            · rw [hi2]
            · rw [List.getElem?_eq_none (by simp; omega)] at e; cases e
      · simp only [hq, if_false]
        rw [h.idx q i]
        by_cases hi : i < s.graph.length
        · rw [List.getElem?_append_left hi]
        · rw [List.getElem?_eq_none (by omega)]
          by_cases hi2 : i = s.graph.length
          · subst hi2; simp; exact fun e => hq e.symm
          · rw [List.getElem?_eq_none (by simp; omega)]
    · intro n hn
      rcases List.mem_append.mp hn with hn | hn
      · exact h.nodup n hn
      · simp at hn; subst hn; exact List.nodup_nil

theorem add_abs {s : MG} (h : Inv s) (p : Path) : abs (s.addNodeIfNone p) = Spec.step (abs s) (.add p) := by
  unfold MG.addNodeIfNone
  cases hd : dget s.index p with
  | some i =>
    have hp : (abs s).nodes p := (h.dget_isSome p).mp (by rw [hd]; rfl)
    apply RG.ext'
    · intro x; simp only [Spec.step]
      constructor
      · exact Or.inl
      · rintro (hx | rfl)
        · exact hx
        · exact hp
    · intro x y; rfl
  | none =>
    apply RG.ext'
    · intro x
      simp only [abs, Spec.step, List.mem_append, List.mem_singleton]
      constructor
      · rintro ⟨n, hn | rfl, e⟩
        · exact Or.inl ⟨n, hn, e⟩
        · exact Or.inr e.symm
      · rintro (⟨n, hn, e⟩ | rfl)
        · exact ⟨n, Or.inl hn, e⟩
        · exact ⟨⟨x, []⟩, Or.inr rfl, rfl⟩
    · intro x y
      simp only [abs, Spec.step, List.mem_append, List.mem_singleton]
      constructor
      · rintro ⟨n, hn | rfl, e, hy⟩
        · exact ⟨n, hn, e, hy⟩
        · cases hy
      · rintro ⟨n, hn, e, hy⟩
        exact ⟨n, Or.inl hn, e, hy⟩

/-! ### remove_node / remove -/

theorem removeNode_spec {s : MG} (h : Inv s) (p : Path) :
    ∃ s', s.removeNode p = .ok s' ∧ Inv s' ∧
      (∀ x, (abs s').nodes x ↔ (abs s).nodes x ∧ x ≠ p) ∧
      (∀ x y, (abs s').edges x y ↔ (abs s).edges x y ∧ x ≠ p) ∧
      (∀ m, m ∈ s'.graph ↔ m ∈ s.graph ∧ m.id ≠ p) := by
  unfold MG.removeNode
  cases hd : dget s.index p with
  | none =>
    have hnp := h.dget_none hd
    have hne : ∀ m ∈ s.graph, m.id ≠ p := fun m hm e => hnp ⟨m, hm, e⟩
    refine ⟨s, rfl, h, ?_, ?_, ?_⟩
    · intro x; exact ⟨fun hx => ⟨hx, fun e => hnp (e ▸ hx)⟩, fun hx => hx.1⟩
    · intro x y
      exact ⟨fun ⟨n, hn, e, hy⟩ => ⟨⟨n, hn, e, hy⟩, fun e' => hne n hn (e.trans e')⟩, fun hx => hx.1⟩
    · intro m; exact ⟨fun hm => ⟨hm, hne m hm⟩, fun hm => hm.1⟩
  | some i =>
    obtain ⟨nd, hgi, hndid⟩ := h.dget_lt hd
    have hi : i < s.graph.length := (List.getElem?_eq_some_iff.mp hgi).1
    simp only [hi, if_true]
    have hmem : ∀ m, m ∈ s.graph.eraseIdx i ↔ m ∈ s.graph ∧ m.id ≠ p := by
      intro m
      rw [List.mem_eraseIdx_iff_getElem?]
      constructor
      · rintro ⟨j, hji, hj⟩
        refine ⟨List.mem_of_getElem? hj, fun e => hji ?_⟩
        have := (h.idx p j).mpr (by simp [hj, e])
        rw [hd] at this; cases this; rfl
      · rintro ⟨hm, hne⟩
        obtain ⟨j, hj⟩ := List.mem_iff_getElem?.mp hm
        refine ⟨j, fun e => hne ?_, hj⟩
        subst e; rw [hgi] at hj; cases hj; exact hndid
    refine ⟨_, rfl, ⟨?_, ?_⟩, ?_, ?_, hmem⟩
    · intro q j
      simp only [dget_shift, dget_dremove, List.getElem?_eraseIdx]
      by_cases hq : q = p
      · subst hq
        simp only [if_true, Option.map_none]
        constructor
        · intro e; cases e
        · intro e
          exfalso
          by_cases hji : j < i
          · simp only [hji, if_true] at e
            have := (h.idx q j).mpr e; rw [hd] at this; cases this; omega
          · simp only [hji, if_false] at e
            have := (h.idx q (j+1)).mpr e; rw [hd] at this; cases this; omega
      · simp only [hq, if_false]
        constructor
        · intro e
          cases hk : dget s.index q with
          | none => simp [hk] at e
          | some k =>
            simp only [hk, Option.map_some, Option.some.injEq] at e
            have hgk := (h.idx q k).mp hk
            have hki : k ≠ i := by
              intro e'; subst e'; rw [hgi] at hgk; simp at hgk; exact hq (hgk.symm.trans hndid)
            by_cases hgt : k > i
            · simp only [hgt, if_true] at e
              have : ¬ j < i := by omega
              simp only [this, if_false]
              have : j + 1 = k := by omega
              rw [this]; exact hgk
            · simp only [hgt, if_false] at e
              have : j < i := by omega
              simp only [this, if_true]
              rw [← e]; exact hgk
        · intro e
          by_cases hji : j < i
          · simp only [hji, if_true] at e
            have := (h.idx q j).mpr e
            rw [this]; simp; omega
          · simp only [hji, if_false] at e
            have := (h.idx q (j+1)).mpr e
            rw [this]; simp; omega
    · intro m hm; exact h.nodup m ((hmem m).mp hm).1
    · intro x
      simp only [abs]
      constructor
      · rintro ⟨m, hm, e⟩
        obtain ⟨hm1, hm2⟩ := (hmem m).mp hm
        exact ⟨⟨m, hm1, e⟩, fun e' => hm2 (e.trans e')⟩
      · rintro ⟨⟨m, hm, e⟩, hx⟩
        exact ⟨m, (hmem m).mpr ⟨hm, fun e' => hx (e.symm.trans e')⟩, e⟩
    · intro x y
      simp only [abs]
      constructor
      · rintro ⟨m, hm, e, hy⟩
        obtain ⟨hm1, hm2⟩ := (hmem m).mp hm
        exact ⟨⟨m, hm1, e, hy⟩, fun e' => hm2 (e.trans e')⟩
      · rintro ⟨⟨m, hm, e, hy⟩, hx⟩
        exact ⟨m, (hmem m).mpr ⟨hm, fun e' => hx (e.symm.trans e')⟩, e, hy⟩

theorem mem_setRemove (l : List Path) (x y : Path) : y ∈ setRemove l x ↔ y ∈ l ∧ y ≠ x := by
  simp [setRemove]

theorem nodup_setRemove {l : List Path} (h : l.Nodup) (x : Path) : (setRemove l x).Nodup :=
  List.Nodup.sublist List.filter_sublist h

theorem remove_spec {s : MG} (h : Inv s) (p : Path) :
    ∃ s', s.remove p = .ok s' ∧ Inv s' ∧ abs s' = Spec.step (abs s) (.remove p) := by
  obtain ⟨s1, h1, inv1, hn, he, _⟩ := removeNode_spec h p
  unfold MG.remove
  rw [h1]
  refine ⟨_, rfl, inv1.mapDeps _ (fun _ => rfl) (fun n hn => nodup_setRemove (inv1.nodup n hn) p), ?_⟩
  apply RG.ext'
  · intro x
    rw [show (Spec.step (abs s) (.remove p)).nodes x = ((abs s).nodes x ∧ x ≠ p) from rfl, ← hn x]
    simp only [abs, List.mem_map]
    constructor
    · rintro ⟨_, ⟨m, hm, rfl⟩, e⟩; exact ⟨m, hm, e⟩
    · rintro ⟨m, hm, e⟩; exact ⟨_, ⟨m, hm, rfl⟩, e⟩
  · intro x y
    rw [show (Spec.step (abs s) (.remove p)).edges x y = ((abs s).edges x y ∧ x ≠ p ∧ y ≠ p) from rfl]
    rw [← and_assoc, ← he x y]
    simp only [abs, List.mem_map]
    constructor
    · rintro ⟨_, ⟨m, hm, rfl⟩, e, hy⟩
      obtain ⟨hy1, hy2⟩ := (mem_setRemove _ _ _).mp hy
      exact ⟨⟨m, hm, e, hy1⟩, hy2⟩
    · rintro ⟨⟨m, hm, e, hy⟩, hyp⟩
      exact ⟨_, ⟨m, hm, rfl⟩, e, (mem_setRemove _ _ _).mpr ⟨hy, hyp⟩⟩

/-! ### rename_path -/

theorem mem_setInsert (l : List Path) (x y : Path) : y ∈ setInsert l x ↔ y ∈ l ∨ y = x := by
  unfold setInsert
  by_cases h : x ∈ l
  · simp only [h, if_true]
    exact ⟨Or.inl, fun hy => hy.elim id (fun e => e ▸ h)⟩
  · simp [h]

theorem nodup_setInsert {l : List Path} (h : l.Nodup) (x : Path) : (setInsert l x).Nodup := by
  unfold setInsert
  by_cases hx : x ∈ l
  · simp [hx, h]
  · simp only [hx, if_false]
    rw [List.nodup_append]
    exact ⟨h, by simp, by intro a ha b hb; simp at hb; subst hb; exact fun e => hx (e ▸ ha)⟩

/-- the per-node edge renaming of `rename_path` -/
def renDeps (o n : Path) (nd : Node) : Node :=
  if nd.deps.contains o then { nd with deps := setInsert (setRemove nd.deps o) n } else nd

theorem renDeps_id (o n : Path) (nd : Node) : (renDeps o n nd).id = nd.id := by
  unfold renDeps; split <;> rfl

theorem mem_renDeps (o n : Path) (nd : Node) (y : Path) :
    y ∈ (renDeps o n nd).deps ↔ ∃ y0 ∈ nd.deps, y = ren o n y0 := by
  unfold renDeps
  by_cases hc : nd.deps.contains o = true
  · have ho : o ∈ nd.deps := by simpa using hc
    simp only [hc, if_true, mem_setInsert, mem_setRemove]
    constructor
    · rintro (⟨hy, hyo⟩ | rfl)
      · exact ⟨y, hy, by simp [ren, hyo]⟩
      · exact ⟨o, ho, by simp [ren]⟩
    · rintro ⟨y0, hy0, rfl⟩
      unfold ren
      by_cases e : y0 = o
      · simp [e]
      · simp [e, hy0]
  · have ho : o ∉ nd.deps := by simpa using hc
    simp only [hc, Bool.false_eq_true, if_false]
    constructor
    · intro hy; exact ⟨y, hy, by simp [ren]; exact fun e => absurd (e ▸ hy) ho⟩
    · rintro ⟨y0, hy0, rfl⟩
      have : y0 ≠ o := fun e => ho (e ▸ hy0)
      simpa [ren, this] using hy0

theorem nodup_renDeps (o n : Path) {nd : Node} (h : nd.deps.Nodup) : (renDeps o n nd).deps.Nodup := by
  unfold renDeps
  split
  · exact nodup_setInsert (nodup_setRemove h o) n
  · exact h

/-- giving the node at position `i` (named `o`) the fresh name `n`, and moving the index entry -/
theorem setId_spec {s : MG} (h : Inv s) {o n : Path} {i : Nat} {nd : Node} (hon : o ≠ n)
    (hd : dget s.index o = some i) (hgi : s.graph[i]? = some nd) (hn : ¬ (abs s).nodes n) :
    let s2 : MG := { graph := s.graph.set i { nd with id := n }, index := dinsert (dremove s.index o) n i }
    Inv s2 ∧ ∀ m, m ∈ s2.graph ↔ m = { nd with id := n } ∨ (m ∈ s.graph ∧ m.id ≠ o) := by
  intro s2
  have hi : i < s.graph.length := (List.getElem?_eq_some_iff.mp hgi).1
  have hndid : nd.id = o := by
    obtain ⟨nd', h1, h2⟩ := h.dget_lt hd
    rw [hgi] at h1; cases h1; exact h2
  have hmem : ∀ m, m ∈ s2.graph ↔ m = { nd with id := n } ∨ (m ∈ s.graph ∧ m.id ≠ o) := by
    intro m
    show m ∈ s.graph.set i _ ↔ _
    rw [mem_set_iff' hgi]
    constructor
    · rintro (e | ⟨j, hji, hj⟩)
      · exact Or.inl e
      · refine Or.inr ⟨List.mem_of_getElem? hj, fun e => hji ?_⟩
        have := (h.idx o j).mpr (by simp [hj, e])
        rw [hd] at this; cases this; rfl
    · rintro (e | ⟨hm, hne⟩)
      · exact Or.inl e
      · obtain ⟨j, hj⟩ := List.mem_iff_getElem?.mp hm
        refine Or.inr ⟨j, fun e => hne ?_, hj⟩
        subst e; rw [hgi] at hj; cases hj; exact hndid
  refine ⟨⟨?_, ?_⟩, hmem⟩
  · intro q j
    show dget (dinsert (dremove s.index o) n i) q = some j ↔ ((s.graph.set i _)[j]?).map (·.id) = some q
    rw [dget_dinsert, dget_dremove, List.getElem?_set]
    by_cases hqn : q = n
    · subst hqn
      simp only [if_true]
      constructor
      · intro e; cases e; simp [hi]
      · intro e
        by_cases hij : i = j
        · rw [hij]
        · simp only [hij, if_false] at e
          cases hg : s.graph[j]? with
          | none => simp [hg] at e
          | some m => simp [hg] at e; exact absurd ⟨m, List.mem_of_getElem? hg, e⟩ hn
    · simp only [hqn, if_false]
      by_cases hqo : q = o
      · subst hqo
        simp only [if_true]
        constructor
        · intro e; cases e
        · intro e
          exfalso
          by_cases hij : i = j
          · subst hij; simp [hi] at e; exact hon e.symm
          · simp only [hij, if_false] at e
            have := (h.idx q j).mpr e; rw [hd] at this; cases this; exact hij rfl
      · simp only [hqo, if_false]
        rw [h.idx q j]
        by_cases hij : i = j
        · subst hij
          simp only [if_true, hi, hgi]
          simp
          constructor
          · intro e; exact absurd (e.symm.trans hndid) hqo
          · intro e; exact absurd e.symm hqn
        · simp [hij]
  · intro m hm
    rcases (hmem m).mp hm with rfl | ⟨hm, _⟩
    · exact h.nodup nd (List.mem_of_getElem? hgi)
    · exact h.nodup m hm

theorem rename_spec {s : MG} (h : Inv s) (o n : Path) :
    ∃ s', s.renamePath o n = .ok s' ∧ Inv s' ∧ abs s' = Spec.step (abs s) (.rename o n) := by
  unfold MG.renamePath
  by_cases hon : o = n
  · simp only [hon, if_true]
    exact ⟨s, rfl, h, by simp [Spec.step]⟩
  · simp only [hon, if_false]
    -- the last step: rename the edge ends of every node
    have fin : ∀ s2 : MG, Inv s2 →
        Inv { s2 with graph := s2.graph.map (renDeps o n) } ∧
        (∀ x, (abs { s2 with graph := s2.graph.map (renDeps o n) }).nodes x ↔ (abs s2).nodes x) ∧
        (∀ x y, (abs { s2 with graph := s2.graph.map (renDeps o n) }).edges x y ↔
          ∃ y0, (abs s2).edges x y0 ∧ y = ren o n y0) := by
      intro s2 inv2
      refine ⟨inv2.mapDeps _ (renDeps_id o n) (fun m hm => nodup_renDeps o n (inv2.nodup m hm)), ?_, ?_⟩
      · intro x
        simp only [abs, List.mem_map]
        constructor
        · rintro ⟨_, ⟨m, hm, rfl⟩, e⟩; exact ⟨m, hm, by rw [← e, renDeps_id]⟩
        · rintro ⟨m, hm, e⟩; exact ⟨_, ⟨m, hm, rfl⟩, by rw [renDeps_id]; exact e⟩
      · intro x y
        simp only [abs, List.mem_map]
        constructor
        · rintro ⟨_, ⟨m, hm, rfl⟩, e, hy⟩
          obtain ⟨y0, hy0, rfl⟩ := (mem_renDeps o n m y).mp hy
          exact ⟨y0, ⟨m, hm, by rw [← e, renDeps_id], hy0⟩, rfl⟩
        · rintro ⟨y0, ⟨m, hm, e, hy0⟩, rfl⟩
          exact ⟨_, ⟨m, hm, rfl⟩, by rw [renDeps_id]; exact e, (mem_renDeps o n m _).mpr ⟨y0, hy0, rfl⟩⟩
    by_cases hs : (dget s.index o).isSome = true
    · have hnodeo : (abs s).nodes o := (h.dget_isSome o).mp hs
      simp only [hs, if_true]
      obtain ⟨s1, h1, inv1, hn1, he1, hm1⟩ := removeNode_spec h n
      rw [h1]
      simp only
      have hnodeo1 : (abs s1).nodes o := (hn1 o).mpr ⟨hnodeo, hon⟩
      obtain ⟨i, hdi⟩ := Option.isSome_iff_exists.mp ((inv1.dget_isSome o).mpr hnodeo1)
      obtain ⟨nd, hgi, hndid⟩ := inv1.dget_lt hdi
      rw [hdi]
      simp only [hgi]
      have hnn1 : ¬ (abs s1).nodes n := fun hx => ((hn1 n).mp hx).2 rfl
      obtain ⟨inv2, hm2⟩ := setId_spec inv1 hon hdi hgi hnn1
      obtain ⟨inv3, hn3, he3⟩ := fin _ inv2
      refine ⟨_, rfl, inv3, ?_⟩
      apply RG.ext'
      · intro x
        refine Iff.trans (hn3 x) ?_
        simp only [Spec.step, hon, if_false]
        show (∃ m, m ∈ (List.set s1.graph i { nd with id := n }) ∧ m.id = x) ↔ _
        constructor
        · rintro ⟨m, hm, e⟩
          left
          refine ⟨hnodeo, ?_⟩
          rcases (hm2 m).mp hm with rfl | ⟨hm, hne⟩
          · exact Or.inr e.symm
          · exact Or.inl ⟨((hn1 x).mp ⟨m, hm, e⟩).1, fun e' => hne (e.trans e')⟩
        · rintro (⟨_, (⟨hx, hxo⟩ | rfl)⟩ | ⟨hno, _⟩)
          · by_cases hxn : x = n
            · exact ⟨_, (hm2 _).mpr (Or.inl rfl), hxn.symm⟩
            · obtain ⟨m, hm, e⟩ := (hn1 x).mpr ⟨hx, hxn⟩
              exact ⟨m, (hm2 m).mpr (Or.inr ⟨hm, fun e' => hxo (e.symm.trans e')⟩), e⟩
          · exact ⟨_, (hm2 _).mpr (Or.inl rfl), rfl⟩
          · exact absurd hnodeo hno
      · intro x y
        refine Iff.trans (he3 x y) ?_
        simp only [Spec.step, hon, if_false]
        constructor
        · rintro ⟨y0, ⟨m, hm, e, hy0⟩, rfl⟩
          rcases (hm2 m).mp hm with rfl | ⟨hm, hne⟩
          · -- the renamed node: its edges were those of `o`
            have ed : (abs s1).edges o y0 := ⟨nd, List.mem_of_getElem? hgi, hndid, hy0⟩
            refine ⟨o, y0, ((he1 o y0).mp ed).1, fun hc => hon hc.2, ?_, rfl⟩
            simp [ren]; exact e.symm
          · have ed : (abs s1).edges m.id y0 := ⟨m, hm, rfl, hy0⟩
            obtain ⟨ed0, hmn⟩ := (he1 m.id y0).mp ed
            refine ⟨m.id, y0, ed0, fun hc => hmn hc.2, ?_, rfl⟩
            simp [ren, hne]; exact e.symm
        · rintro ⟨x0, y0, ed0, hnc, rfl, rfl⟩
          have hx0n : x0 ≠ n := fun e => hnc ⟨hnodeo, e⟩
          obtain ⟨m, hm, e, hy0⟩ := (he1 x0 y0).mpr ⟨ed0, hx0n⟩
          refine ⟨y0, ?_, rfl⟩
          by_cases hx0o : x0 = o
          · have : m = nd := inv1.uniq hm (List.mem_of_getElem? hgi) (by rw [e, hndid, hx0o])
            subst this
            exact ⟨_, (hm2 _).mpr (Or.inl rfl), by simp [ren, hx0o], hy0⟩
          · exact ⟨m, (hm2 m).mpr (Or.inr ⟨hm, by rw [e]; exact hx0o⟩), by simp [ren, hx0o, e], hy0⟩
    · have hs' : (dget s.index o).isSome = false := by simpa using hs
      have hnodeo : ¬ (abs s).nodes o := fun hx => by
        have := (h.dget_isSome o).mpr hx; rw [hs'] at this; cases this
      simp only [hs', Bool.false_eq_true, if_false]
      obtain ⟨inv3, hn3, he3⟩ := fin s h
      refine ⟨_, rfl, inv3, ?_⟩
      apply RG.ext'
      · intro x
        refine Iff.trans (hn3 x) ?_
        simp only [Spec.step, hon, if_false]
        constructor
        · intro hx; exact Or.inr ⟨hnodeo, hx⟩
        · rintro (⟨ho, _⟩ | ⟨_, hx⟩)
          · exact absurd ho hnodeo
          · exact hx
      · intro x y
        refine Iff.trans (he3 x y) ?_
        simp only [Spec.step, hon, if_false]
        constructor
        · rintro ⟨y0, ed, rfl⟩
          have hxo : x ≠ o := by
            obtain ⟨m, hm, e, _⟩ := ed
            exact fun e' => hnodeo ⟨m, hm, e.trans e'⟩
          exact ⟨x, y0, ed, fun hc => hnodeo hc.1, by simp [ren, hxo], rfl⟩
        · rintro ⟨x0, y0, ed, _, rfl, rfl⟩
          have hxo : x0 ≠ o := by
            obtain ⟨m, hm, e, _⟩ := ed
            exact fun e' => hnodeo ⟨m, hm, e.trans e'⟩
          exact ⟨y0, by simpa [ren, hxo] using ed, rfl⟩

/-! ### inc_ref -/

theorem incRef_spec {s : MG} (h : Inv s) (a b : Path) :
    ∃ s' r, s.incRef a b = .ok (s', r) ∧ Inv s' ∧ abs s' = Spec.step (abs s) (.inc a b) ∧
      (r = false ↔ (a ≠ b ∧ (abs s).Reach1 b a)) := by
  unfold MG.incRef
  have inv1 := add_inv h a
  have abs1 := add_abs h a
  have hn1 : ∀ x, (abs (s.addNodeIfNone a)).nodes x ↔ ((abs s).nodes x ∨ x = a) := by
    intro x; rw [abs1]; rfl
  have he1 : ∀ x y, (abs (s.addNodeIfNone a)).edges x y ↔ (abs s).edges x y := by
    intro x y; rw [abs1]; rfl
  have hr1 : ∀ x y, (abs (s.addNodeIfNone a)).Reach1 x y ↔ (abs s).Reach1 x y :=
    fun x y => ⟨RG.Reach1.mono (fun x y => (he1 x y).mp), RG.Reach1.mono (fun x y => (he1 x y).mpr)⟩
  simp only
  by_cases hab : a = b
  · simp only [hab, if_true]
    subst hab
    refine ⟨_, true, rfl, inv1, ?_, by simp⟩
    apply RG.ext'
    · intro x; rw [hn1 x]; rfl
    · intro x y; rw [he1 x y]
      show _ ↔ ((abs s).edges x y ∨ _)
      simp
  · simp only [hab, if_false]
    obtain ⟨bb, hdd, hbb⟩ := deepDependsOn_spec inv1 b a
    rw [hdd]
    rw [hr1] at hbb
    cases bb with
    | true =>
      have hr : (abs s).Reach1 b a := hbb.mp rfl
      simp only
      refine ⟨_, false, rfl, inv1, ?_, by simp [hab, hr]⟩
      apply RG.ext'
      · intro x; rw [hn1 x]; rfl
      · intro x y; rw [he1 x y]
        show _ ↔ ((abs s).edges x y ∨ _)
        simp [hr]
    | false =>
      have hr : ¬ (abs s).Reach1 b a := fun hx => by have := hbb.mpr hx; cases this
      simp only
      have hnodea : (abs (s.addNodeIfNone a)).nodes a := (hn1 a).mpr (Or.inr rfl)
      obtain ⟨i, hdi⟩ := Option.isSome_iff_exists.mp ((inv1.dget_isSome a).mpr hnodea)
      obtain ⟨nd, hgi, hndid⟩ := inv1.dget_lt hdi
      rw [hdi]
      simp only [hgi]
      -- membership in the updated vector
      have hmem : ∀ m, m ∈ (s.addNodeIfNone a).graph.set i { nd with deps := setInsert nd.deps b } ↔
          m = { nd with deps := setInsert nd.deps b } ∨ (m ∈ (s.addNodeIfNone a).graph ∧ m.id ≠ a) := by
        intro m
        rw [mem_set_iff' hgi]
        constructor
        · rintro (e | ⟨j, hji, hj⟩)
          · exact Or.inl e
          · refine Or.inr ⟨List.mem_of_getElem? hj, fun e => hji ?_⟩
            have := (inv1.idx a j).mpr (by simp [hj, e])
            rw [hdi] at this; cases this; rfl
        · rintro (e | ⟨hm, hne⟩)
          · exact Or.inl e
          · obtain ⟨j, hj⟩ := List.mem_iff_getElem?.mp hm
            refine Or.inr ⟨j, fun e => hne ?_, hj⟩
            subst e; rw [hgi] at hj; cases hj; exact hndid
      refine ⟨_, true, rfl, ⟨?_, ?_⟩, ?_, by simp [hr]⟩
      · intro q j
        show dget (s.addNodeIfNone a).index q = some j ↔ _
        rw [inv1.idx q j, List.getElem?_set]
        by_cases hij : i = j
        · subst hij
          have hi : i < (s.addNodeIfNone a).graph.length := (List.getElem?_eq_some_iff.mp hgi).1
          rw [hgi]; simp [hi]
        · simp [hij]
      · intro m hm
        rcases (hmem m).mp hm with rfl | ⟨hm, _⟩
        · exact nodup_setInsert (inv1.nodup nd (List.mem_of_getElem? hgi)) b
        · exact inv1.nodup m hm
      · have hndm := List.mem_of_getElem? hgi
        apply RG.ext'
        · intro x
          show (∃ m, m ∈ (s.addNodeIfNone a).graph.set i _ ∧ m.id = x) ↔ ((abs s).nodes x ∨ x = a)
          rw [← hn1 x]
          constructor
          · rintro ⟨m, hm, e⟩
            rcases (hmem m).mp hm with rfl | ⟨hm, _⟩
            · exact ⟨nd, hndm, e⟩
            · exact ⟨m, hm, e⟩
          · rintro ⟨m, hm, e⟩
            by_cases hma : m.id = a
            · have : m = nd := inv1.uniq hm hndm (hma.trans hndid.symm)
              subst this
              exact ⟨_, (hmem _).mpr (Or.inl rfl), e⟩
            · exact ⟨m, (hmem m).mpr (Or.inr ⟨hm, hma⟩), e⟩
        · intro x y
          show (∃ m, m ∈ (s.addNodeIfNone a).graph.set i _ ∧ m.id = x ∧ y ∈ m.deps) ↔
            ((abs s).edges x y ∨ (x = a ∧ y = b ∧ a ≠ b ∧ ¬ (abs s).Reach1 b a))
          rw [← he1 x y]
          constructor
          · rintro ⟨m, hm, e, hy⟩
            rcases (hmem m).mp hm with rfl | ⟨hm, _⟩
            · rcases (mem_setInsert _ _ _).mp hy with hy | rfl
              · exact Or.inl ⟨nd, hndm, e, hy⟩
              · exact Or.inr ⟨e.symm.trans hndid, rfl, hab, hr⟩
            · exact Or.inl ⟨m, hm, e, hy⟩
          · rintro (⟨m, hm, e, hy⟩ | ⟨rfl, rfl, _, _⟩)
            · by_cases hma : m.id = a
              · have : m = nd := inv1.uniq hm hndm (hma.trans hndid.symm)
                subst this
                exact ⟨_, (hmem _).mpr (Or.inl rfl), e, (mem_setInsert _ _ _).mpr (Or.inl hy)⟩
              · exact ⟨m, (hmem m).mpr (Or.inr ⟨hm, hma⟩), e, hy⟩
            · exact ⟨_, (hmem _).mpr (Or.inl rfl), hndid, (mem_setInsert _ _ _).mpr (Or.inr rfl)⟩

/-! ### the simple queries -/

theorem getNode_spec {s : MG} (h : Inv s) (p : Path) :
    (∃ n, s.getNode p = .ok (some n) ∧ (abs s).nodes p ∧ n.id = p ∧ n.deps.Nodup ∧
        ∀ d, d ∈ n.deps ↔ (abs s).edges p d) ∨
    (s.getNode p = .ok none ∧ ¬ (abs s).nodes p) := by
  rcases h.getNode_cases p with ⟨n, hn, e, hg⟩ | ⟨hno, hg⟩
  · left
    refine ⟨n, hg, ⟨n, hn, e⟩, e, h.nodup n hn, ?_⟩
    intro d; rw [← e]; exact (h.edges_iff hn d).symm
  · right
    exact ⟨hg, fun ⟨n, hn, e⟩ => hno n hn e⟩

theorem dependsOn_spec {s : MG} (h : Inv s) (p t : Path) :
    ∃ b, s.dependsOn p t = .ok b ∧ (b = true ↔ (abs s).edges p t) := by
  unfold MG.dependsOn
  rcases h.getNode_cases p with ⟨n, hn, e, hg⟩ | ⟨hno, hg⟩
  · rw [hg]
    refine ⟨_, rfl, ?_⟩
    rw [← e, h.edges_iff hn t]; simp
  · rw [hg]
    exact ⟨false, rfl, by simp; exact not_edges_of_not_node hno t⟩

theorem parents_spec {s : MG} (h : Inv s) (p : Path) :
    (∃ l, s.parents p = .ok (some l) ∧ (abs s).nodes p ∧ l.Nodup ∧ ∀ d, d ∈ l ↔ (abs s).edges p d) ∨
    (s.parents p = .ok none ∧ ¬ (abs s).nodes p) := by
  unfold MG.parents
  rcases getNode_spec h p with ⟨n, hg, hn, _, hnd, hd⟩ | ⟨hg, hn⟩
  · left; rw [hg]; exact ⟨n.deps, rfl, hn, hnd, hd⟩
  · right; rw [hg]; exact ⟨rfl, hn⟩

theorem ids_nodup {s : MG} (h : Inv s) : (s.graph.map (·.id)).Nodup := by
  rw [List.Nodup, List.pairwise_iff_getElem]
  intro i j hi hj hij e
  simp only [List.length_map] at hi hj
  simp only [List.getElem_map] at e
  have h1 := (h.idx (s.graph[i].id) i).mpr (by simp [hi])
  have h2 := (h.idx (s.graph[i].id) j).mpr (by simp [hj, e])
  rw [h1] at h2; cases h2; omega

theorem children_spec {s : MG} (h : Inv s) (p : Path) :
    (s.children p).Nodup ∧ ∀ x, x ∈ s.children p ↔ ((abs s).nodes x ∧ (abs s).edges x p) := by
  unfold MG.children
  refine ⟨?_, ?_⟩
  · have := ids_nodup h
    exact List.Nodup.sublist (List.Sublist.map _ List.filter_sublist) this
  · intro x
    simp only [List.mem_map, List.mem_filter, abs]
    constructor
    · rintro ⟨n, ⟨hn, hc⟩, e⟩
      exact ⟨⟨n, hn, e⟩, n, hn, e, by simpa using hc⟩
    · rintro ⟨_, n, hn, e, hp⟩
      exact ⟨n, ⟨hn, by simpa using hp⟩, e⟩

/-! ### rebuilding the index (`sorted`) -/

theorem dget_foldl_dinsert (kvs : List (Path × Nat)) (acc : Index) (q : Path) :
    dget (kvs.foldl (fun ix kv => dinsert ix kv.1 kv.2) acc) q =
      match kvs.reverse.find? (fun kv => kv.1 == q) with
      | some kv => some kv.2
      | none => dget acc q := by
  induction kvs generalizing acc with
  | nil => simp
  | cons kv kvs ih =>
    simp only [List.foldl_cons, ih, List.reverse_cons, List.find?_append]
    cases hf : kvs.reverse.find? (fun kv => kv.1 == q) with
    | some kv' => simp
    | none =>
      simp only [Option.none_or, dget_dinsert]
      by_cases hq : kv.1 = q
      · simp [hq]
      · have : ¬ q = kv.1 := fun e => hq e.symm
        simp [hq, this]

theorem rebuilt_index_ok (l : List Path) (hnd : l.Nodup) (q : Path) (i : Nat) :
    dget (l.zipIdx.foldl (fun ix kv => dinsert ix kv.1 kv.2) []) q = some i ↔ l[i]? = some q := by
  rw [dget_foldl_dinsert]
  cases hf : l.zipIdx.reverse.find? (fun kv => kv.1 == q) with
  | some kv =>
    have hm := List.mem_of_find?_eq_some hf
    have hk : kv.1 = q := by simpa using List.find?_some hf
    rw [List.mem_reverse] at hm
    have hl : l[kv.2]? = some kv.1 := by
      have := List.mem_zipIdx_iff_getElem?.mp (show (kv.1, kv.2) ∈ l.zipIdx from hm)
      simpa using this
    simp only [Option.some.injEq]
    constructor
    · intro e; rw [← e, ← hk]; exact hl
    · intro e
      rw [hk] at hl
      obtain ⟨h1, e1⟩ := List.getElem?_eq_some_iff.mp hl
      obtain ⟨h2, e2⟩ := List.getElem?_eq_some_iff.mp e
      exact (List.getElem_inj (h₀ := h1) (h₁ := h2) hnd).mp (e1.trans e2.symm)
  | none =>
    simp only [dget_nil]
    constructor
    · intro e; cases e
    · intro e
      exfalso
      have hm : (q, i) ∈ l.zipIdx.reverse := by
        rw [List.mem_reverse]; exact List.mem_zipIdx_iff_getElem?.mpr (by simpa using e)
      have := List.find?_eq_none.mp hf (q, i) hm
      simp at this

/-! ## Acyclicity on the reference graph -/

theorem RG.Acyclic.of_edges_sub {g h : RG} (hac : g.Acyclic) (he : ∀ x y, h.edges x y → g.edges x y) : h.Acyclic :=
  fun x r => hac x (r.mono he)

/-- an edge `a → b` with `a ≠ b` and no path `b ⇒ a` cannot close a cycle -/
theorem inc_reach_split (g : RG) (a b : Path) (hab : a ≠ b) (hnr : ¬ g.Reach1 b a) {x y : Path}
    (r : (Spec.step g (.inc a b)).Reach1 x y) :
    g.Reach1 x y ∨ ((x = a ∨ g.Reach1 x a) ∧ (b = y ∨ g.Reach1 b y)) := by
  induction r with
  | edge e =>
    rcases e with e | ⟨rfl, rfl, _, _⟩
    · exact Or.inl (.edge e)
    · exact Or.inr ⟨Or.inl rfl, Or.inl rfl⟩
  | step e _ ih =>
    rcases e with e | ⟨rfl, rfl, _, _⟩
    · rcases ih with ih | ⟨h1, h2⟩
      · exact Or.inl (.step e ih)
      · refine Or.inr ⟨Or.inr ?_, h2⟩
        rcases h1 with rfl | h1
        · exact .edge e
        · exact .step e h1
    · rcases ih with ih | ⟨h1, _⟩
      · exact Or.inr ⟨Or.inl rfl, Or.inr ih⟩
      · rcases h1 with e | h1
        · exact absurd e.symm hab
        · exact absurd h1 hnr

theorem spec_inc_acyclic (g : RG) (hac : g.Acyclic) (a b : Path) : (Spec.step g (.inc a b)).Acyclic := by
  by_cases hc : a ≠ b ∧ ¬ g.Reach1 b a
  · obtain ⟨hab, hnr⟩ := hc
    intro x r
    rcases inc_reach_split g a b hab hnr r with r | ⟨h1, h2⟩
    · exact hac x r
    · rcases h1 with rfl | h1 <;> rcases h2 with e | h2
      · exact hab e.symm
      · exact hnr h2
      · subst e; exact hnr h1
      · exact hnr (h2.trans h1)
  · apply hac.of_edges_sub
    rintro x y (e | ⟨_, _, h1, h2⟩)
    · exact e
    · exact absurd ⟨h1, h2⟩ hc

theorem spec_step_acyclic (g : RG) (hac : g.Acyclic) (op : Op) (hop : ∀ o n, op ≠ .rename o n) :
    (Spec.step g op).Acyclic := by
  cases op with
  | add p => exact hac.of_edges_sub (fun x y e => e)
  | inc a b => exact spec_inc_acyclic g hac a b
  | remove p => exact hac.of_edges_sub (fun x y e => e.1)
  | rename o n => exact absurd rfl (hop o n)
  | sort => exact hac

theorem RG.empty_acyclic : RG.empty.Acyclic := by
  intro x r
  cases r with
  | edge e => exact e
  | step e _ => exact e

/-- re-ordering the dependency lists (the iteration order of the hash sets) changes neither the invariant nor the
    reference graph a state stands for -/
theorem reorder_spec {s : MG} (h : Inv s) (f : Node → Node) (hid : ∀ n, (f n).id = n.id)
    (hperm : ∀ n ∈ s.graph, (f n).deps.Perm n.deps) :
    Inv { s with graph := s.graph.map f } ∧ abs { s with graph := s.graph.map f } = abs s := by
  refine ⟨h.mapDeps f hid (fun n hn => (hperm n hn).nodup_iff.mpr (h.nodup n hn)), ?_⟩
  apply RG.ext'
  · intro x
    simp only [abs, List.mem_map]
    constructor
    · rintro ⟨_, ⟨m, hm, rfl⟩, e⟩; exact ⟨m, hm, by rw [← e, hid]⟩
    · rintro ⟨m, hm, e⟩; exact ⟨_, ⟨m, hm, rfl⟩, by rw [hid]; exact e⟩
  · intro x y
    simp only [abs, List.mem_map]
    constructor
    · rintro ⟨_, ⟨m, hm, rfl⟩, e, hy⟩
      exact ⟨m, hm, by rw [← e, hid], (hperm m hm).mem_iff.mp hy⟩
    · rintro ⟨m, hm, e, hy⟩
      exact ⟨_, ⟨m, hm, rfl⟩, by rw [hid]; exact e, (hperm m hm).mem_iff.mpr hy⟩

end ErgVerif.C21
